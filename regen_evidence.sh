#!/bin/bash
# Re-run every claimed check on the clean tree (refreshes evidence/*.json); run before committing.
cd "$(dirname "$0")"
for p in $(python3 -c "import json; print(' '.join(c['property_id'] for c in json.load(open('MANIFEST.json'))['checks']))"); do
  ./check $p "$@" | head -2 | cut -c1-160
done
