#!/bin/bash
# usage: seed_eval_wt.sh <seed-id> <property> <worktree-with-change-applied>
# Like seed_eval.sh but leaves /repo alone: the change is evaluated in the scratch worktree
# (PYVC_REPO / PYTHONPATH point at it), so several seeds can be evaluated concurrently.
set -u
id=$1; prop=$2; wt=$3
d=/verif/seeded/$id
mkdir -p $d
cp $wt/seed_out/patch.diff $wt/seed_out/demo.py $wt/seed_out/meta.json $d/ 2>/dev/null
echo "--- demo on original (/repo):"; (cd /tmp && PYTHONPATH=/repo /venv/bin/python -W ignore $d/demo.py >/dev/null 2>&1; echo "exit=$?")
echo "--- demo with change:"; (cd /tmp && PYTHONPATH=$wt /venv/bin/python -W ignore $d/demo.py 2>&1 | tail -2; echo "exit=${PIPESTATUS[0]}")
echo "--- baseline tests with change:"; (cd $wt && PYTHONPATH=$wt /venv/bin/python -m pytest -q -p no:cacheprovider --timeout=900 --continue-on-collection-errors 2>&1 | tail -1)
echo "--- check $prop with change:"
cd /verif && PYVC_EVIDENCE_DIR=/tmp/ev_$id PYVC_REPO=$wt ./check $prop 2>&1 | grep -v KNOWN-FINDING | cut -c1-400 | tail -4; echo "check-exit=${PIPESTATUS[0]}"
