"""C06 -- multi-peak detection (sleap_nn/inference/peak_finding.py: find_local_peaks*)."""
import itertools

import z3

from pyvc import values as V, tensor as T
from pyvc.contracts import Contract, contract, Forall
from pyvc.ctx import Unsupported
from pyvc.tensor import FLOAT, INT, BOOL, STensor

NBRS = [(-1, -1), (-1, 0), (-1, 1), (0, -1), (0, 1), (1, -1), (1, 0), (1, 1)]


def is_peak(cr, H, W, thr, s, c, i, j):
    """The property's definition: above the threshold and strictly greater than every one of
    its (up to eight) in-bounds neighbours."""
    x = cr([s, c, i, j])
    conds = [V.f_lt(thr, x)]
    for di, dj in NBRS:
        ii, jj = V.i_add(i, di), V.i_add(j, dj)
        inb = V.b_and(V.i_le(0, ii), V.i_lt(ii, H), V.i_le(0, jj), V.i_lt(jj, W))
        if inb is False:
            continue
        conds.append(V.b_implies(inb, V.f_lt(cr([s, c, ii, jj]), x)))
    return V.b_and(*conds)


@contract
class MakeCenteredBboxes(Contract):
    target = "sleap_nn.data.instance_cropping.make_centered_bboxes"
    props = ("C06", "C07", "C02", "C04")
    dims = ("n",)
    cases = ("rank2", "rank1")

    def inputs(self, c, case):
        shape = [c.dim("n"), 2] if case == "rank2" else [2]
        return dict(centroids=c.tensor("centroids", shape, FLOAT, nan_ok=True),
                    box_height=c.int("box_height", lo=0), box_width=c.int("box_width", lo=0))

    def requires(self, c, centroids, box_height, box_width):
        return [("rank", centroids.rank in (1, 2)), ("xy", V.i_eq(centroids.shape[-1], 2))]

    def spec(self, c, centroids, box_height, box_width):
        p = centroids.reader()
        hh = V.f_div(T.cast_scalar(box_height, FLOAT), 2.0) if not isinstance(box_height, int) else box_height / 2
        hw = V.f_div(T.cast_scalar(box_width, FLOAT), 2.0) if not isinstance(box_width, int) else box_width / 2
        lead = centroids.shape[:-1]

        def fn(idx):
            pre, k, xy = idx[:-2], idx[-2], idx[-1]
            x, y = p(pre + [0]), p(pre + [1])
            # corners clockwise: top-left, top-right, bottom-right, bottom-left
            xs = [V.f_add(V.f_sub(x, hw), 0.5), V.f_add(V.f_add(x, hw), -0.5), V.f_add(V.f_add(x, hw), -0.5), V.f_add(V.f_sub(x, hw), 0.5)]
            ys = [V.f_add(V.f_sub(y, hh), 0.5), V.f_add(V.f_sub(y, hh), 0.5), V.f_add(V.f_add(y, hh), -0.5), V.f_add(V.f_add(y, hh), -0.5)]
            vx = xs[k] if isinstance(k, int) else T._pick_scalar(xs, k)
            vy = ys[k] if isinstance(k, int) else T._pick_scalar(ys, k)
            if isinstance(xy, int):
                return vx if xy == 0 else vy
            return V.f_ite(V.zbool(V.i_eq(xy, 0)), vx, vy)

        return T.from_fn(list(lead) + [4, 2], FLOAT, fn)


def _grid(P):
    return [float(k) - (P - 1) / 2 for k in range(P)]


@contract
class IntegralRegression(Contract):
    """Helper: expectation of the grid coordinates under the patch weights.  Besides the exact
    formula, callers get the hull fact: non-negative weights with a positive sum put the
    estimate inside [min grid, max grid]."""

    target = "sleap_nn.inference.peak_finding.integral_regression"
    props = ("C06", "C07")
    cases = ("P5",)
    thorough_cases = ("P1", "P3", "P5", "P7")
    dims = ("n",)
    assume_ensures_at_calls = True

    def inputs(self, c, case):
        P = int(case[1:])
        g = T.from_flat([P], _grid(P), FLOAT)
        return dict(cms=c.tensor("cms", [c.dim("n"), 1, P, P], FLOAT, nan_ok=True), xv=g, yv=T.from_flat([P], _grid(P), FLOAT))

    def requires(self, c, cms, xv, yv):
        ok = [("ranks", cms.rank == 4 and xv.rank == 1 and yv.rank == 1)]
        if ok[0][1]:
            ok.append(("concrete-patch", all(isinstance(d, int) for d in cms.shape[1:]) and isinstance(xv.shape[0], int) and isinstance(yv.shape[0], int)
                       and cms.shape[3] == xv.shape[0] and cms.shape[2] == yv.shape[0] and xv.is_concrete() and yv.is_concrete()))
        return ok

    def _terms(self, cms, xv, yv):
        z = T.tsum(cms, [2, 3])
        numx = T.tsum(T.tbinop("mul", T.reshape(xv, [1, 1, 1, -1]), cms), [2, 3])
        numy = T.tsum(T.tbinop("mul", T.reshape(yv, [1, 1, -1, 1]), cms), [2, 3])
        return z, numx, numy

    def spec(self, c, cms, xv, yv):
        z, numx, numy = self._terms(cms, xv, yv)
        return (T.tbinop("truediv", numx, z), T.tbinop("truediv", numy, z))

    def ensures(self, c, result, cms, xv, yv):
        if not (isinstance(result, tuple) and len(result) == 2):
            return [("pair", False)]
        z, numx, numy = self._terms(cms, xv, yv)
        xs, ys = xv.tolist(), yv.tolist()
        w = cms.reader()
        rx, ry = result[0].reader(), result[1].reader()
        C_, P_h, P_w = cms.shape[1], cms.shape[2], cms.shape[3]
        strip = lambda x: V.finite_real(V.sfloat(x).val) if V.is_symbolic(x) else x

        def hull(n, ch):
            cells = [w([n, ch, u, v]) for u in range(P_h) for v in range(P_w)]
            nonneg = V.b_and(*[V.b_and(V.b_not(V.f_isnan(x)), V.f_le(0.0, x)) for x in cells])
            zz, nx, ny = z.at([n, ch]), numx.at([n, ch]), numy.at([n, ch])
            pos = V.f_lt(0.0, zz)
            if c.symbolic:
                for (num, lo, hi) in ((nx, min(xs), max(xs)), (ny, min(ys), max(ys))):
                    c.apply_lemma("quotient-bounds", 4,
                                  lambda nn, dd, lo_, hi_: V.b_implies(V.b_and(V.f_lt(0.0, dd), V.f_le(V.f_mul(lo_, dd), nn), V.f_le(nn, V.f_mul(hi_, dd))),
                                                                       V.b_and(V.f_le(lo_, V.finite_real(nn.val / dd.val)), V.f_le(V.finite_real(nn.val / dd.val), hi_))),
                                  [(strip(num), strip(zz), lo, hi)])
            return V.b_implies(V.b_and(nonneg, pos),
                               V.b_and(V.f_le(min(xs), rx([n, ch])), V.f_le(rx([n, ch]), max(xs)), V.f_le(min(ys), ry([n, ch])), V.f_le(ry([n, ch]), max(ys))))

        return [("estimate-inside-grid-hull-for-nonnegative-weights", Forall([cms.shape[0], C_], hull))]


def _ghost_selection(c, m):
    sels = [x for x in c.path.ghosts.get("selections", []) if x.m == m]
    if len(sels) != 1:
        raise Unsupported("expected exactly one rank-%d mask selection in the verified code, found %d" % (m, len(sels)))
    return sels[0]


def rough_clauses(c, result, cms, threshold, half=None, position_hyp=None):
    """sound / complete / duplicate-free against the brute-force neighbour definition.
    `half` = None: points are exactly the grid cells.  Otherwise the points are refined: the
    rows are identified by (sample, channel, value) and ghost cell, and a separate clause
    bounds |point - cell| <= half under `position_hyp` (the carve-out of a known finding)."""
    if not (isinstance(result, tuple) and len(result) == 4 and all(isinstance(x, STensor) for x in result)):
        return [("PL/returns-4-tensors", False)]
    pts, vals, sinds, cinds = result
    if pts.rank != 2 or vals.rank != 1 or sinds.rank != 1 or cinds.rank != 1:
        return [("PL/ranks", False)]
    S, C, H, W = cms.shape
    cr = cms.reader()
    pr, vr, sr, chr_ = pts.reader(), vals.reader(), sinds.reader(), cinds.reader()
    N = pts.shape[0]
    out = [("PL/shapes", V.b_and(V.i_eq(pts.shape[1], 2), V.i_eq(vals.shape[0], N), V.i_eq(sinds.shape[0], N), V.i_eq(cinds.shape[0], N)))]

    def near(p, cell):
        cellf = T.cast_scalar(cell, FLOAT)
        if half is None:
            return V.f_eq(p, cellf)
        return True

    def within(p, cell):
        cellf = T.cast_scalar(cell, FLOAT)
        return V.b_and(V.f_le(V.f_sub(cellf, half), p), V.f_le(p, V.f_add(cellf, half)))

    def row_is(r, s, cc, i, j):
        return V.b_and(V.i_eq(sr([r]), s), V.i_eq(chr_([r]), cc), near(pr([r, 0]), j), near(pr([r, 1]), i), V.f_same(vr([r]), cr([s, cc, i, j])))

    if c.symbolic:
        sel = _ghost_selection(c, 4)   # mask laid out (sample, row, col, channel)

        def sound(r):
            s, i, j, cc = sel.sel_at(r)
            inr = V.b_and(V.i_le(0, s), V.i_lt(s, S), V.i_le(0, cc), V.i_lt(cc, C), V.i_le(0, i), V.i_lt(i, H), V.i_le(0, j), V.i_lt(j, W))
            return V.b_and(inr, is_peak(cr, H, W, threshold, s, cc, i, j), row_is(r, s, cc, i, j))

        def complete(s, cc, i, j):
            r = sel.rank_at([s, i, j, cc])
            return V.b_implies(is_peak(cr, H, W, threshold, s, cc, i, j), V.b_and(V.i_le(0, r), V.i_lt(r, N), row_is(r, s, cc, i, j)))

        def distinct(r1, r2):
            a, b = sel.sel_at(r1), sel.sel_at(r2)
            return V.b_implies(V.i_lt(r1, r2), T.lex_lt(a, b))

        def position(r):
            s, i, j, cc = sel.sel_at(r)
            c.instantiate_call_facts("sleap_nn.inference.peak_finding.integral_regression", r, 0)
            return V.b_implies(position_hyp if position_hyp is not None else True, V.b_and(within(pr([r, 0]), j), within(pr([r, 1]), i)))
    else:
        Sn, Cn, Hn, Wn, Nn = int(S), int(C), int(H), int(W), int(N)
        cells = list(itertools.product(range(Sn), range(Cn), range(Hn), range(Wn)))

        def sound(r):
            return V.b_or(*[V.b_and(is_peak(cr, Hn, Wn, threshold, s, cc, i, j), row_is(r, s, cc, i, j)) for (s, cc, i, j) in cells])

        def complete(s, cc, i, j):
            return V.b_implies(is_peak(cr, Hn, Wn, threshold, s, cc, i, j), V.b_or(*[row_is(r, s, cc, i, j) for r in range(Nn)]))

        def distinct(r1, r2):
            if r1 >= r2:
                return True
            # two rows never describe the same (sample, channel, cell): with refinement the cell
            # is not recoverable from the point, so compare through the cells they match
            both = [V.b_and(row_is(r1, s, cc, i, j), row_is(r2, s, cc, i, j), is_peak(cr, Hn, Wn, threshold, s, cc, i, j)) for (s, cc, i, j) in cells]
            return V.b_not(V.b_or(*both)) if half is None else True

        def position(r):
            if position_hyp is False:
                return True
            return V.b_or(*[V.b_and(is_peak(cr, Hn, Wn, threshold, s, cc, i, j), row_is(r, s, cc, i, j), within(pr([r, 0]), j), within(pr([r, 1]), i))
                            for (s, cc, i, j) in cells])

    out.append(("PL/sound-every-returned-row-is-a-strict-local-maximum-above-threshold", Forall([N], sound)))
    out.append(("PL/complete-every-strict-local-maximum-above-threshold-is-returned", Forall([S, C, H, W], complete)))
    out.append(("PL/each-peak-once", Forall([N, N], distinct)))
    if half is None:
        # the rows are listed in increasing (sample, row, column, channel) order: together with
        # sound/complete this makes the rows of one sample a function of that sample's maps
        # alone (C12: no dependence on batch-mates, batch size or position in the batch)
        def ordered(r1, r2):
            k1 = [(sr([r1]), INT), (pr([r1, 1]), FLOAT), (pr([r1, 0]), FLOAT), (chr_([r1]), INT)]
            k2 = [(sr([r2]), INT), (pr([r2, 1]), FLOAT), (pr([r2, 0]), FLOAT), (chr_([r2]), INT)]
            lt = False
            for (x, kind), (y, _) in reversed(list(zip(k1, k2))):
                less, same = (V.i_lt(x, y), V.i_eq(x, y)) if kind == INT else (V.f_lt(x, y), V.f_eq(x, y))
                lt = V.b_or(less, V.b_and(same, lt))
            return V.b_implies(V.i_lt(r1, r2), lt)

        out.append(("PL/rows-listed-in-(sample,row,column,channel)-order", Forall([N, N], ordered)))
    if half is not None:
        out.append(("PL/refined-point-within-half-a-patch-of-its-grid-cell", Forall([N], position)))
    return out


def rough_post(c, cms, threshold):
    """Assume-side of the contract: the four outputs enumerate the cells satisfying is_peak."""
    S, C, H, W = cms.shape
    cr = cms.reader()
    mask = T.from_fn([S, H, W, C], BOOL, lambda idx: is_peak(cr, H, W, threshold, idx[0], idx[3], idx[1], idx[2]))
    sel = T.Selection(mask)
    N = sel.N
    pts = T.from_fn([N, 2], FLOAT, lambda idx: T.cast_scalar(T._pick_scalar([sel.sel_at(idx[0])[2], sel.sel_at(idx[0])[1]], idx[1]), FLOAT))
    vals = T.from_fn([N], FLOAT, lambda idx: cr([sel.sel_at(idx[0])[0], sel.sel_at(idx[0])[3], sel.sel_at(idx[0])[1], sel.sel_at(idx[0])[2]]))
    sinds = T.from_fn([N], INT, lambda idx: sel.sel_at(idx[0])[0])
    cinds = T.from_fn([N], INT, lambda idx: sel.sel_at(idx[0])[3])
    return (pts, vals, sinds, cinds)


class _PeakBase(Contract):
    level = "property"
    functional = False
    dims = ("S", "C", "H", "W")
    dim_ranges = {"S": (1, 2), "C": (1, 2), "H": (1, 3), "W": (1, 3)}
    rand_ranges = {"S": (1, 2), "C": (1, 3), "H": (1, 7), "W": (1, 7), "cms": (-1.0, 3.0), "threshold": (0.0, 1.0)}

    def _inputs(self, c, nan_ok=True):
        S, C, H, W = c.dim("S", lo=1), c.dim("C", lo=1), c.dim("H", lo=1), c.dim("W", lo=1)
        return dict(cms=c.tensor("cms", [S, C, H, W], FLOAT, nan_ok=nan_ok), threshold=c.real("threshold"))

    def _requires(self, cms, threshold):
        return [("rank4", cms.rank == 4),
                # kornia's geodesic dilation pads with -1e4: the detector is only meaningful for
                # thresholds above that (confidence thresholds are in [0, 1])
                ("threshold>=-1e4", V.f_le(-1e4, threshold)),
                ("non-empty-map", V.b_and(V.i_le(1, cms.shape[0]), V.i_le(1, cms.shape[1]), V.i_le(1, cms.shape[2]), V.i_le(1, cms.shape[3])))]


@contract
class FindLocalPeaksRough(_PeakBase):
    target = "sleap_nn.inference.peak_finding.find_local_peaks_rough"
    props = ("C06", "C12", "C03")

    def inputs(self, c, case):
        return self._inputs(c)

    def requires(self, c, cms, threshold=0.2):
        return self._requires(cms, threshold)

    def ensures(self, c, result, cms, threshold=0.2):
        return rough_clauses(c, result, cms, threshold)

    def post(self, c, cms, threshold=0.2):
        return rough_post(c, cms, threshold)


@contract
class FindLocalPeaks(_PeakBase):
    target = "sleap_nn.inference.peak_finding.find_local_peaks"
    props = ("C06", "C12", "C03")
    # "integralP": any map (rows/indices/values unchanged by refinement);
    # "integralP+": maps without negative/NaN cells and threshold >= 0 (the bound on the move)
    cases = ("none", "integral5", "integral5+", "integral4+")
    thorough_cases = ("none", "integral1", "integral1+", "integral3", "integral3+", "integral5", "integral5+", "integral7", "integral7+", "integral2+", "integral4+", "integral6+")
    bounded = ("integral refinement is unrolled for the listed patch sizes (quick: 5 and 4; thorough: 1..7)",)
    not_decided = ("integral refinement on maps with a one-pixel side (outside the trusted kornia crop contract); refined coordinates on maps containing NaN cells",)

    no_crosscheck_nan = True

    def inputs(self, c, case):
        plus = case.endswith("+")
        c.nonneg_case = plus
        if plus:
            S, C, H, W = c.dim("S", lo=1), c.dim("C", lo=1), c.dim("H", lo=1), c.dim("W", lo=1)
            d = dict(cms=c.tensor("cms", [S, C, H, W], FLOAT, nan_ok=False, lo=0.0), threshold=c.real("threshold"))
            c.assume(V.f_le(0.0, d["threshold"]))
        else:
            d = self._inputs(c, nan_ok=(case == "none" or c.symbolic))
        if case == "none":
            d.update(refinement=None, integral_patch_size=5)
        else:
            d.update(refinement="integral", integral_patch_size=int(case[len("integral"):].rstrip("+")))
        return d

    def requires(self, c, cms, threshold=0.2, refinement=None, integral_patch_size=5):
        ok = self._requires(cms, threshold)
        if refinement == "integral":
            ok.append(("int-patch", isinstance(integral_patch_size, int) and integral_patch_size >= 1))
            # domain of the trusted kornia crop contract: no one-pixel-high/wide maps
            ok.append(("map-at-least-2x2", V.b_and(V.i_le(2, cms.shape[2]), V.i_le(2, cms.shape[3]))))
        return ok

    def ensures(self, c, result, cms, threshold=0.2, refinement=None, integral_patch_size=5):
        if refinement != "integral":
            return rough_clauses(c, result, cms, threshold)
        P = integral_patch_size
        half = (P - 1) / 2
        cr = cms.reader()
        if c.symbolic:
            # Carve-out of known finding C06/negative-patch: the bound on the refinement offset
            # is proved (case "integralP+") for maps without negative or NaN cells and
            # thresholds >= 0 (the regression weights are then non-negative with positive sum).
            if getattr(c, "nonneg_case", False):
                return rough_clauses(c, result, cms, threshold, half=half, position_hyp=True)
            return [x for x in rough_clauses(c, result, cms, threshold, half=half, position_hyp=True) if "within-half" not in x[0]]
        cells = itertools.product(*[range(int(d)) for d in cms.shape])
        in_region = any((V.f_isnan(cr(list(ix))) or cr(list(ix)) < 0) for ix in cells) or threshold < 0
        cl = rough_clauses(c, result, cms, threshold, half=half, position_hyp=(False if in_region else True))
        cl += [("FULL/" + n.split("/", 1)[1], x) for n, x in rough_clauses(c, result, cms, threshold, half=half, position_hyp=True) if "within-half" in n]
        return cl

    def post(self, c, cms, threshold=0.2, refinement=None, integral_patch_size=5):
        if refinement != "integral":
            return rough_post(c, cms, threshold)
        raise Unsupported("find_local_peaks(refinement='integral') is used through inlining only")
