"""C02 -- single-instance and top-down inference return original-image coordinates
(sleap_nn/inference/single_instance.py, topdown.py, predictors.py)."""
import z3

from pyvc import values as V, tensor as T
from pyvc.contracts import Contract, contract, Forall
from pyvc.ctx import PyExc, Unsupported
from pyvc.interp import Obj
from pyvc.tensor import FLOAT, INT, BOOL, STensor


class GhostCfg:
    """An opaque (OmegaConf-like) configuration tree: attribute and item access return the
    sub-tree at that path; two values are the same iff they are the same path of the same
    tree."""

    __pyvc_native__ = True

    def __init__(self, root, path=()):
        self.root = root
        self.path = tuple(path)

    def __pyvc_getattr__(self, interp, name):
        return GhostCfg(self.root, self.path + (name,))

    def __pyvc_getitem__(self, interp, key):
        return GhostCfg(self.root, self.path + (str(key),))

    def __eq__(self, o):
        return isinstance(o, GhostCfg) and (o.root, o.path) == (self.root, self.path)

    def __hash__(self):
        return hash((self.root, self.path))

    def __repr__(self):
        return "<cfg %s.%s>" % (self.root, ".".join(self.path))


class GhostReader:
    __pyvc_native__ = True

    def __init__(self, kind):
        self.kind = kind
        self.labels = GhostCfg("labels")
        self.video = GhostCfg("video")


class _FromFilename(Contract):
    """Assumed repo contract: the reader factories return an opaque reader object (they call
    sleap_io); irrelevant to what is decided here."""

    trusted = True
    functional = False
    props = ("C02",)
    no_crosscheck = True
    no_replay = True
    cases = ()
    dims = ()

    def post(self, c, **kw):
        return GhostReader(self.target)


@contract
class LabelsReaderFromFilename(_FromFilename):
    target = "sleap_nn.data.providers.LabelsReader.from_filename"


@contract
class VideoReaderFromFilename(_FromFilename):
    target = "sleap_nn.data.providers.VideoReader.from_filename"


class _Parity(Contract):
    """Provider parity: what reaches the network must be the same function of the frame
    whether frames come from a labels file or from a video, i.e. make_pipeline must set the
    same `preprocess` switch and the same `preprocess_config` for both providers."""

    level = "property"
    functional = False
    pure = False
    no_crosscheck = True
    no_replay = True
    dims = ()
    cls = None
    cfg_attrs = ()

    def inputs(self, c, case):
        return dict(data_path="frames", queue_maxsize=8)

    def make_self(self, interp):
        cv = interp.resolve_dotted("sleap_nn.inference.predictors." + self.cls)
        obj = Obj(cv)
        for a in self.cfg_attrs:
            obj.attrs[a] = GhostCfg(a)
        obj.attrs.update(data_config=GhostCfg("data_config"), batch_size=4, backbone_type="unet", instances_key=False,
                         centroid_backbone_type="unet", centered_instance_backbone_type="unet")
        return obj

    def run(self, interp, args):
        out = {}
        for prov in ("LabelsReader", "VideoReader"):
            obj = self.make_self(interp)
            m, _ = obj.cls.lookup("make_pipeline")
            interp.call(m, [obj, prov, args["data_path"]], {"queue_maxsize": args["queue_maxsize"]})
            out[prov] = obj
        return out

    def ensures(self, c, result, data_path, queue_maxsize):
        a, b = result["LabelsReader"], result["VideoReader"]
        pa, pb = a.attrs.get("preprocess"), b.attrs.get("preprocess")
        ca, cb = a.attrs.get("preprocess_config"), b.attrs.get("preprocess_config")
        return [("PL/same-preprocess-switch-for-both-providers", pa == pb),
                ("PL/same-preprocess-config-for-both-providers", isinstance(ca, dict) and isinstance(cb, dict) and ca == cb)]


@contract
class SingleInstanceParity(_Parity):
    target = "sleap_nn.inference.predictors.SingleInstancePredictor.make_pipeline"
    props = ("C02",)
    cls = "SingleInstancePredictor"
    cfg_attrs = ("confmap_config",)


@contract
class TopDownParity(_Parity):
    target = "sleap_nn.inference.predictors.TopDownPredictor.make_pipeline"
    props = ("C02",)
    cls = "TopDownPredictor"
    cfg_attrs = ("confmap_config", "centroid_config")


@contract
class BottomUpParity(_Parity):
    target = "sleap_nn.inference.predictors.BottomUpPredictor.make_pipeline"
    props = ("C02",)
    cls = "BottomUpPredictor"
    cfg_attrs = ("bottomup_config",)


# ----------------------------------------------------------------------------- decode chain

from .common import gaussian, grid_len


class IdealNet:
    """Ghost network (the 'ideal network' axiom of C02): its output is the training target the
    data pipeline would generate for the tensor it is given -- a Gaussian of width sigma*stride
    on the stride grid around the keypoints expressed in that tensor's coordinates."""

    __pyvc_native__ = True

    def __init__(self, K, stride, sigma):
        self.K, self.stride, self.sigma = K, stride, sigma
        self.seen_shape = None

    def __call__(self, image):
        B, H, W = image.shape[0], image.shape[-2], image.shape[-1]
        self.seen_shape = (H, W)
        s = self.stride
        kr = self.K.reader()
        N = self.K.shape[1]
        sg = V.f_mul(self.sigma, s)

        def fn(idx):
            b, n, i, j = idx
            S = T.cast_scalar(s, FLOAT)
            return gaussian(V.f_mul(T.cast_scalar(j, FLOAT), S), V.f_mul(T.cast_scalar(i, FLOAT), S), kr([b, n, 0]), kr([b, n, 1]), sg)

        return T.from_fn([B, N, grid_len(H, s), grid_len(W, s)], FLOAT, fn)

    def __pyvc_getattr__(self, interp, name):
        raise Unsupported("attribute %s of the ghost network" % name)

    def __pyvc_to_real__(self):
        """(replay side) a real callable producing the ideal maps with the repository's own
        target generator."""
        import torch
        from pyvc.concrete import to_real
        from sleap_nn.data.confidence_maps import generate_confmaps

        K = to_real(self.K)
        stride, sigma = int(self.stride), float(self.sigma)

        class Net(torch.nn.Module):
            def forward(self, image):
                return generate_confmaps(K, (image.shape[-2], image.shape[-1]), sigma=sigma, output_stride=stride)

        return Net()


def decode_clauses(c, pts, vals, K_net, net, thr, unit, B, N, input_scale_of=None, eff_of=None, hw=None):
    """pts[b,n,:] (already decoded) vs the keypoint: `unit(b)` is the factor between network
    coordinates and original-image coordinates (input_scale * eff_scale[b])."""
    s = net.stride
    kr, pr, vr = K_net.reader(), pts.reader(), vals.reader()
    if not c.symbolic:
        # replay / random search on the real code: evaluate the statement directly
        H, W = hw
        Hg, Wg = grid_len(H, s), grid_len(W, s)
        sgc = V.f_mul(net.sigma, s)

        def visible_c(b, n):
            x, y = kr([b, n, 0]), kr([b, n, 1])
            if V.f_isnan(x) or V.f_isnan(y):
                return True
            if not (0.0 <= x <= (Wg - 1) * s and 0.0 <= y <= (Hg - 1) * s):
                return True
            mx = max(gaussian(float(j * s), float(i * s), x, y, sgc) for i in range(Hg) for j in range(Wg))
            if mx < thr * (1 + 1e-4) + 1e-6:
                return True
            u = unit(b)
            half = s / (2.0 * u) * (1 + 1e-4) + 1e-4
            return all(abs(pr([b, n, k]) - kr([b, n, k]) / u) <= half for k in (0, 1))

        def invisible_c(b, n):
            x, y = kr([b, n, 0]), kr([b, n, 1])
            if not (V.f_isnan(x) or V.f_isnan(y)):
                return True
            return V.f_isnan(pr([b, n, 0])) and V.f_isnan(pr([b, n, 1])) and vr([b, n]) == 0.0

        return [("PL/visible-keypoint-within-half-an-output-stride-cell-in-original-coordinates", Forall([B, N], visible_c)),
                ("PL/invisible-keypoint-gives-NaN-and-value-0", Forall([B, N], invisible_c))]
    H, W = net.seen_shape
    Hg, Wg = grid_len(H, s), grid_len(W, s)
    Mv, AI, AJ = c.path.ghosts["gpk"]
    sg = V.f_mul(net.sigma, s)
    R = lambda x: V.finite_real(V.sfloat(x).val)
    sf = T.cast_scalar(s, FLOAT)

    def garg(d2, sig):
        return V.f_div(V.f_neg(d2), V.f_mul(2.0, V.f_mul(sig, sig)))

    def visible(b, n):
        b_, n_ = V.zint(b), V.zint(n)
        x, y = kr([b, n, 0]), kr([b, n, 1])
        ai, aj = AI(b_, n_), AJ(b_, n_)
        vis = V.b_and(V.b_not(V.f_isnan(x)), V.b_not(V.f_isnan(y)))
        inside = V.b_and(V.f_le(0.0, x), V.f_le(x, V.f_mul(T.cast_scalar(V.i_sub(Wg, 1), FLOAT), sf)),
                         V.f_le(0.0, y), V.f_le(y, V.f_mul(T.cast_scalar(V.i_sub(Hg, 1), FLOAT), sf)))
        detect = V.f_le(thr, V.finite_real(Mv(b_, n_)))
        gxy = lambda j, i: (V.f_mul(T.cast_scalar(j, FLOAT), sf), V.f_mul(T.cast_scalar(i, FLOAT), sf))
        # neighbours of the reported cell: the maximum bounds them (explicit instances) ...
        for (di, dj) in ((0, 1), (0, -1), (1, 0), (-1, 0)):
            i2, j2 = ai + di, aj + dj
            c.instantiate_call_facts("sleap_nn.inference.peak_finding.find_global_peaks", b_, n_, i2, j2)
            # (a +- 1) * s = a * s +- s   (the solver does not distribute symbolic products)
            for (base, d_) in ((ai, di), (aj, dj)):
                if d_:
                    c.apply_lemma("distribute-step", 3, lambda a_, s_, dd: V.f_eq(V.f_mul(V.f_add(a_, dd), s_), V.f_add(V.f_mul(a_, s_), V.f_mul(dd, s_))),
                                  [(R(T.cast_scalar(base, FLOAT)), R(sf), V.finite_real(z3.RealVal(d_)))])
            gx0, gy0 = gxy(aj, ai)
            gx2, gy2 = gxy(j2, i2)
            d0 = V.f_add(V.f_mul(V.f_sub(gx0, x), V.f_sub(gx0, x)), V.f_mul(V.f_sub(gy0, y), V.f_sub(gy0, y)))
            d2 = V.f_add(V.f_mul(V.f_sub(gx2, x), V.f_sub(gx2, x)), V.f_mul(V.f_sub(gy2, y), V.f_sub(gy2, y)))
            # ... so the reported cell is at least as close as each neighbour (exp is strictly
            # increasing) ...
            c.apply_lemma("gauss-arg-order-reflects-distance", 3,
                          lambda a, bb, sig: V.b_implies(V.b_and(V.f_lt(0.0, sig), V.f_le(garg(bb, sig), garg(a, sig))), V.f_le(a, bb)),
                          [(R(d0), R(d2), R(sg))])
        # ... hence within half a stride on each axis (one-dimensional step lemma)
        for (a_idx, coord, n_cells) in ((aj, x, Wg), (ai, y, Hg)):
            a = V.f_mul(T.cast_scalar(a_idx, FLOAT), sf)
            c.apply_lemma("nearest-grid-point-within-half-a-step", 4,
                          lambda p, q, st, other: V.b_implies(
                              V.b_and(V.f_lt(0.0, st),
                                      V.f_le(V.f_add(V.f_mul(V.f_sub(p, q), V.f_sub(p, q)), other), V.f_add(V.f_mul(V.f_sub(V.f_add(p, st), q), V.f_sub(V.f_add(p, st), q)), other))),
                              V.f_le(V.f_sub(q, p), V.f_div(st, 2.0))),
                          [(R(a), R(coord), R(sf), R(V.f_mul(V.f_sub(V.f_mul(T.cast_scalar(AI(b_, n_) if a_idx is aj else AJ(b_, n_), FLOAT), sf), y if a_idx is aj else x),
                                                                   V.f_sub(V.f_mul(T.cast_scalar(AI(b_, n_) if a_idx is aj else AJ(b_, n_), FLOAT), sf), y if a_idx is aj else x))))])
            c.apply_lemma("nearest-grid-point-within-half-a-step-left", 4,
                          lambda p, q, st, other: V.b_implies(
                              V.b_and(V.f_lt(0.0, st),
                                      V.f_le(V.f_add(V.f_mul(V.f_sub(p, q), V.f_sub(p, q)), other), V.f_add(V.f_mul(V.f_sub(V.f_sub(p, st), q), V.f_sub(V.f_sub(p, st), q)), other))),
                              V.f_le(V.f_sub(p, q), V.f_div(st, 2.0))),
                          [(R(a), R(coord), R(sf), R(V.f_mul(V.f_sub(V.f_mul(T.cast_scalar(AI(b_, n_) if a_idx is aj else AJ(b_, n_), FLOAT), sf), y if a_idx is aj else x),
                                                                   V.f_sub(V.f_mul(T.cast_scalar(AI(b_, n_) if a_idx is aj else AJ(b_, n_), FLOAT), sf), y if a_idx is aj else x))))])
        # intermediate lemmas (each proved in context, then available): the reported cell is at
        # least as close to the keypoint as each in-range neighbour
        rngbn = V.b_and(V.i_le(0, b), V.i_lt(b, B), V.i_le(0, n), V.i_lt(n, N))
        hyp = V.b_and(vis, inside, detect, rngbn)
        gx0, gy0 = gxy(aj, ai)
        d0 = V.f_add(V.f_mul(V.f_sub(gx0, x), V.f_sub(gx0, x)), V.f_mul(V.f_sub(gy0, y), V.f_sub(gy0, y)))
        M = V.finite_real(Mv(b_, n_))
        cell0 = gaussian(gx0, gy0, x, y, sg)
        for (di, dj, inr, tag_) in ((0, 1, V.i_lt(aj + 1, Wg), "right"), (0, -1, V.i_le(1, aj), "left"), (1, 0, V.i_lt(ai + 1, Hg), "down"), (-1, 0, V.i_le(1, ai), "up")):
            gx2, gy2 = gxy(aj + dj, ai + di)
            d2 = V.f_add(V.f_mul(V.f_sub(gx2, x), V.f_sub(gx2, x)), V.f_mul(V.f_sub(gy2, y), V.f_sub(gy2, y)))
            cell2 = gaussian(gx2, gy2, x, y, sg)
            st1 = V.b_implies(V.b_and(hyp, inr), V.b_and(V.f_eq(M, cell0), V.f_le(cell2, M)))
            c.lemma("step/%s/maximum-bounds-the-neighbour" % tag_, st1, then=st1, level="helper")
            st2 = V.b_implies(V.b_and(hyp, inr), V.f_le(garg(d2, sg), garg(d0, sg)))
            c.lemma("step/%s/exp-argument-order" % tag_, V.b_implies(V.b_and(V.f_eq(M, cell0), V.f_le(cell2, M)), st2), then=st2, level="helper")
            st3 = V.b_implies(V.b_and(hyp, inr), V.f_le(d0, d2))
            c.lemma("step/%s/reported-cell-at-least-as-close" % tag_, st3, then=st3, level="helper")
        # ... hence within half a step on each axis (border cells: the keypoint lies inside the
        # grid extent), each direction proved in context and then available
        ax_, ay_ = V.f_mul(T.cast_scalar(aj, FLOAT), sf), V.f_mul(T.cast_scalar(ai, FLOAT), sf)
        hs = V.f_div(sf, 2.0)
        for (nm_, claim) in (("x-right", V.f_le(V.f_sub(x, ax_), hs)), ("x-left", V.f_le(V.f_sub(ax_, x), hs)),
                             ("y-down", V.f_le(V.f_sub(y, ay_), hs)), ("y-up", V.f_le(V.f_sub(ay_, y), hs))):
            st4 = V.b_implies(hyp, claim)
            c.lemma("step/%s/within-half-a-step" % nm_, st4, then=st4, level="helper")
        u = unit(b)
        half = V.f_div(sf, V.f_mul(2.0, u))
        ok = []
        for k in (0, 1):
            ko = V.f_div(kr([b, n, k]), u)          # the keypoint in original-image coordinates
            cell = V.f_mul(T.cast_scalar(aj if k == 0 else ai, FLOAT), sf)
            c.apply_lemma("scaling-a-bound", 4,
                          lambda p, q, h, uu: V.b_implies(V.b_and(V.f_lt(0.0, uu), V.f_le(V.f_sub(p, q), h), V.f_le(V.f_sub(q, p), h)),
                                                          V.b_and(V.f_le(V.f_sub(V.f_div(p, uu), V.f_div(q, uu)), V.f_div(h, uu)),
                                                                  V.f_le(V.f_sub(V.f_div(q, uu), V.f_div(p, uu)), V.f_div(h, uu)))),
                          [(R(cell), R(kr([b, n, k])), R(V.f_div(sf, 2.0)), R(u))])
            # decoded coordinate = reported cell / (input_scale * eff_scale)
            c.apply_lemma("nested-division", 3, lambda p, a_, b__: V.b_implies(V.b_and(V.f_lt(0.0, a_), V.f_lt(0.0, b__)),
                                                                                V.f_eq(V.f_div(V.f_div(p, a_), b__), V.f_div(p, V.f_mul(a_, b__)))),
                          [(R(cell), R(input_scale_of(b)), R(eff_of(b)))])
            dec = V.b_implies(hyp, V.f_eq(pr([b, n, k]), V.f_div(cell, u)))
            c.lemma("step/axis%d/decoded-coordinate-is-cell-over-scales" % k, dec, then=dec, level="helper")
            bound = V.b_implies(hyp, V.b_and(V.f_le(V.f_sub(V.f_div(cell, u), ko), half), V.f_le(V.f_sub(ko, V.f_div(cell, u)), half)))
            c.lemma("step/axis%d/scaled-bound" % k, bound, then=bound, level="helper")
            ok.append(V.b_and(V.f_le(V.f_sub(pr([b, n, k]), ko), half), V.f_le(V.f_sub(ko, pr([b, n, k])), half)))
        return V.b_implies(V.b_and(vis, inside, detect), V.b_and(*ok))

    def invisible(b, n):
        x, y = kr([b, n, 0]), kr([b, n, 1])
        miss = V.b_or(V.f_isnan(x), V.f_isnan(y))
        return V.b_implies(miss, V.b_and(V.f_isnan(pr([b, n, 0])), V.f_isnan(pr([b, n, 1])), V.f_same(vr([b, n]), 0.0)))

    return [("PL/visible-keypoint-within-half-an-output-stride-cell-in-original-coordinates", Forall([B, N], visible)),
            ("PL/invisible-keypoint-gives-NaN-and-value-0", Forall([B, N], invisible))]


class _Forward(Contract):
    level = "property"
    functional = False
    pure = False
    no_crosscheck = True
    no_replay = True
    dims = ()
    not_decided = ("refinement='integral' in the decode chain (find_global_peaks integral case is not decided under C07)",
                   "CentroidCrop.forward/_generate_crops and TopDownPredictor._make_labeled_frames_from_generator (data-dependent batching over symbolic peak counts)",
                   "real (non-ideal) networks")

    def _common(self, c):
        B, N = c.dim("B", lo=1), c.dim("N", lo=1)
        K = c.tensor("keypoints_net", [B, N, 2], FLOAT, nan_ok=True)
        stride = c.int("output_stride", lo=1)
        sigma = c.real("sigma")
        thr = c.real("peak_threshold")
        input_scale = c.real("input_scale")
        eff = c.tensor("eff_scale", [B], FLOAT, nan_ok=False)
        c.assume(V.f_lt(0.0, sigma), V.f_lt(0.0, thr), V.f_lt(0.0, input_scale))
        er = eff.reader()
        b = z3.Int("qb")
        c.fact(z3.ForAll([b], V.sfloat(er([b])).val > 0))
        return B, N, K, stride, sigma, thr, input_scale, eff


@contract
class SingleInstanceForward(_Forward):
    target = "sleap_nn.inference.single_instance.SingleInstanceInferenceModel.forward"
    props = ("C02",)

    def inputs(self, c, case):
        B, N, K, stride, sigma, thr, input_scale, eff = self._common(c)
        img = c.tensor("image", [B, c.dim("C", lo=1), c.dim("H", lo=1), c.dim("W", lo=1)], FLOAT, nan_ok=False)
        net = IdealNet(K, stride, sigma)
        self._last_stride = stride
        # the frame's original size (height, width), as the providers attach it; the labelled
        # keypoints lie inside the original frame
        osz = c.tensor("orig_size", [B, 2], FLOAT, nan_ok=False)
        self._osz = osz
        return dict(net=net, K=K, thr=thr, input_scale=input_scale, image=img, eff_scale=eff)

    def requires(self, c, net, K, thr, input_scale, image, eff_scale):
        # domain: every labelled keypoint lies inside the original frame (orig_size = (height, width))
        kr, orr, er = K.reader(), self._osz.reader(), eff_scale.reader()

        def inside(b_, n_):
            u = V.f_mul(input_scale, er([b_]))
            xo, yo = V.f_div(kr([b_, n_, 0]), u), V.f_div(kr([b_, n_, 1]), u)
            vis = V.b_not(V.b_or(V.f_isnan(kr([b_, n_, 0])), V.f_isnan(kr([b_, n_, 1]))))
            return V.b_implies(vis, V.b_and(V.f_le(0.0, xo), V.f_le(xo, V.f_sub(orr([b_, 1]), 1.0)), V.f_le(0.0, yo), V.f_le(yo, V.f_sub(orr([b_, 0]), 1.0))))

        return [("labelled-keypoints-lie-inside-the-original-frame", Forall([K.shape[0], K.shape[1]], inside))]

    def run(self, interp, args):
        cv = interp.resolve_dotted("sleap_nn.inference.single_instance.SingleInstanceInferenceModel")
        obj = Obj(cv)
        obj.attrs.update(torch_model=args["net"], peak_threshold=args["thr"], refinement=None, integral_patch_size=5,
                         output_stride=args["net"].stride, return_confmaps=False, input_scale=args["input_scale"])
        m, _ = cv.lookup("forward")
        self._inputs = {"image": args["image"], "eff_scale": args["eff_scale"], "frame_idx": "frame-index-tensor", "video_idx": "video-index-tensor", "orig_size": self._osz}
        return interp.call(m, [obj, self._inputs], {})

    no_replay = False
    rand_ranges = {"B": (1, 2), "N": (1, 3), "C": (1, 1), "H": (4, 12), "W": (4, 12), "output_stride": (1, 2), "sigma": (0.8, 2.5),
                   "peak_threshold": (0.05, 0.3), "input_scale": (0.5, 1.0), "eff_scale": (0.5, 1.5), "keypoints_net": (0.0, 9.0), "image": (0.0, 1.0), "orig_size": (8.0, 40.0)}

    def real_call(self, ra):
        from sleap_nn.inference.single_instance import SingleInstanceInferenceModel

        m = SingleInstanceInferenceModel(torch_model=ra["net"], output_stride=int(self._last_stride), peak_threshold=ra["thr"],
                                         refinement=None, input_scale=ra["input_scale"])
        from pyvc.concrete import to_real

        return m.forward({"image": ra["image"], "eff_scale": ra["eff_scale"], "frame_idx": "frame-index-tensor", "video_idx": "video-index-tensor", "orig_size": to_real(self._osz)})

    def _stride(self, ra):
        return self._last_stride

    def ensures(self, c, result, net, K, thr, input_scale, image, eff_scale):
        self._last_stride = net.stride
        if not (isinstance(result, list) and len(result) == 1 and isinstance(result[0], dict)):
            return [("PL/returns-[dict]", False)]
        out = result[0]
        pts, vals = out.get("pred_instance_peaks"), out.get("pred_peak_values")
        if not (isinstance(pts, STensor) and isinstance(vals, STensor)):
            return [("PL/outputs-present", False)]
        er = eff_scale.reader()
        B, N = K.shape[0], K.shape[1]
        cl = [("PL/shapes", V.b_and(V.i_eq(pts.shape[0], B), V.i_eq(pts.shape[1], N), V.i_eq(pts.shape[2], 2), V.i_eq(vals.shape[0], B), V.i_eq(vals.shape[1], N))),
              ("PL/other-inputs-passed-through-unchanged", out.get("frame_idx") == "frame-index-tensor" and out.get("video_idx") == "video-index-tensor" and (not c.symbolic or out.get("eff_scale") is self._inputs["eff_scale"]))]
        cl += decode_clauses(c, pts, vals, K, net, thr, lambda b: V.f_mul(input_scale, er([b])), B, N, lambda b: input_scale, lambda b: er([b]), hw=(image.shape[-2], image.shape[-1]))
        return cl


@contract
class FindInstancePeaksForward(_Forward):
    target = "sleap_nn.inference.topdown.FindInstancePeaks.forward"
    props = ("C02",)
    cases = ("stride1", "padded")

    def inputs(self, c, case):
        B, N, K, stride, sigma, thr, input_scale, eff = self._common(c)
        img = c.tensor("instance_image", [B, 1, c.dim("C", lo=1), c.dim("H", lo=1), c.dim("W", lo=1)], FLOAT, nan_ok=False)
        bbox = c.tensor("instance_bbox", [B, 1, 4, 2], FLOAT, nan_ok=False)
        net = IdealNet(K, stride, sigma)
        self._last_stride = stride
        return dict(net=net, K=K, thr=thr, input_scale=input_scale, instance_image=img, instance_bbox=bbox, eff_scale=eff,
                    max_stride=(1 if case == "stride1" else c.int("max_stride", lo=2)))

    def run(self, interp, args):
        cv = interp.resolve_dotted("sleap_nn.inference.topdown.FindInstancePeaks")
        obj = Obj(cv)
        obj.attrs.update(torch_model=args["net"], peak_threshold=args["thr"], refinement=None, integral_patch_size=5,
                         output_stride=args["net"].stride, return_confmaps=False, input_scale=args["input_scale"], max_stride=args["max_stride"])
        m, _ = cv.lookup("forward")
        self._inputs = {"instance_image": args["instance_image"], "instance_bbox": args["instance_bbox"], "eff_scale": args["eff_scale"],
                        "frame_idx": "frame-index-tensor", "video_idx": "video-index-tensor", "centroid": "centroid-tensor"}
        return interp.call(m, [obj, self._inputs], {})

    no_replay = False
    rand_ranges = {"B": (1, 2), "N": (1, 3), "C": (1, 1), "H": (4, 12), "W": (4, 12), "output_stride": (1, 2), "sigma": (0.8, 2.5), "max_stride": (2, 4),
                   "peak_threshold": (0.05, 0.3), "input_scale": (0.5, 1.0), "eff_scale": (0.5, 1.5), "keypoints_net": (0.0, 9.0), "instance_image": (0.0, 1.0),
                   "instance_bbox": (0.0, 20.0)}

    def real_call(self, ra):
        from sleap_nn.inference.topdown import FindInstancePeaks

        m = FindInstancePeaks(torch_model=ra["net"], output_stride=int(self._last_stride), peak_threshold=ra["thr"], refinement=None,
                              input_scale=ra["input_scale"], max_stride=int(ra["max_stride"]))
        return m.forward({"instance_image": ra["instance_image"], "instance_bbox": ra["instance_bbox"], "eff_scale": ra["eff_scale"],
                          "frame_idx": "frame-index-tensor", "video_idx": "video-index-tensor", "centroid": "centroid-tensor"})

    def ensures(self, c, result, net, K, thr, input_scale, instance_image, instance_bbox, eff_scale, max_stride):
        if not isinstance(result, dict):
            return [("PL/returns-dict", False)]
        pts, vals, bb = result.get("pred_instance_peaks"), result.get("pred_peak_values"), result.get("instance_bbox")
        if not (isinstance(pts, STensor) and isinstance(vals, STensor) and isinstance(bb, STensor)):
            return [("PL/outputs-present", False)]
        er, b0, b1 = eff_scale.reader(), instance_bbox.reader(), bb.reader()
        B, N = K.shape[0], K.shape[1]
        cl = [("PL/shapes", V.b_and(V.i_eq(pts.shape[0], B), V.i_eq(pts.shape[1], N), V.i_eq(pts.shape[2], 2), V.i_eq(vals.shape[0], B), V.i_eq(vals.shape[1], N))),
              ("PL/other-inputs-passed-through-unchanged", result.get("frame_idx") == "frame-index-tensor" and result.get("video_idx") == "video-index-tensor" and result.get("centroid") == "centroid-tensor"),
              # the crop's bounding box is mapped to original-image coordinates by the same factors as the peaks
              ("PL/crop-bbox-rescaled-by-the-same-factors", bb.rank == 4 and Forall([B, 1, 4, 2], lambda b, o, k, xy: V.f_same(b1([b, o, k, xy]), V.f_div(V.f_div(b0([b, o, k, xy]), input_scale), er([b])))))]
        hw = None
        if not c.symbolic:
            ms = int(max_stride)
            pad = lambda d: d + ((ms - d % ms) % ms if ms > 1 else 0)
            hw = (pad(int(instance_image.shape[-2])), pad(int(instance_image.shape[-1])))
        cl += decode_clauses(c, pts, vals, K, net, thr, lambda b: V.f_mul(input_scale, er([b])), B, N, lambda b: input_scale, lambda b: er([b]), hw=hw)
        return cl
