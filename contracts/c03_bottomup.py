"""C03 (addressing / layout / decode part) -- bottom-up inference reads the part-affinity
fields where the data pipeline writes them and decodes coordinates consistently
(sleap_nn/inference/paf_grouping.py: make_line_subs; sleap_nn/inference/bottomup.py:
BottomUpInferenceModel._generate_cms_peaks / forward).

What is decided here is the bookkeeping half of C03: (1) the reader's subscripts -- for every
candidate connection and every sample point along the line: [row, col, channel] with
row = y / paf_stride and col = x / paf_stride (rounded, clipped into the PAF tensor), channel
2*edge (x component) and 2*edge+1 (y component) -- i.e. the channel layout generate_pafs is
proved to WRITE under C05 (flatten_channels: edge0.x, edge0.y, edge1.x, ...), read from the
channel-last view the inference model builds; (2) the coordinate chain of the model: peaks of
sample b (and only those) x confidence-map stride go to the scorer for sample b, the scorer's
instances are divided by input_scale and by eff_scale of THEIR sample, the PAF tensor handed to
the scorer is the channel-last view of the network's PAF output.  The analytic core of C03
("on ideal maps the true edge outscores every false edge") is NOT decided."""
import z3

from pyvc import values as V, tensor as T
from pyvc.contracts import Contract, contract, Forall
from pyvc.ctx import PyExc, Unsupported
from pyvc.interp import Obj
from pyvc.tensor import FLOAT, INT, BOOL, STensor

PG = "sleap_nn.inference.paf_grouping."
EPS32 = 1.1920928955078125e-07   # torch.finfo(torch.float32).eps


@contract
class Interp1dSegment(Contract):
    """ASSUMED contract of the repository's interp1d (vendored torchinterp1d) for the only way
    make_line_subs uses it: knots x = [0, 1] on every row, query points in [0, 1]:
    ynew[d, p] = y[d, 0] + (y[d, 1] - y[d, 0]) / (eps + 1) * xnew[d, p]."""

    target = "sleap_nn.inference.utils.interp1d"
    props = ("C03",)
    trusted = True
    functional = True
    cases = ()

    def requires(self, c, x, y, xnew, out=None):
        ok = [("two-knots-per-row", x.rank == 2 and y.rank == 2 and xnew.rank == 2 and V.i_eq(x.shape[1], 2) is not False and V.i_eq(y.shape[1], 2) is not False)]
        return ok

    def spec(self, c, x, y, xnew, out=None):
        yr, nr = y.reader(), xnew.reader()
        return T.from_fn([y.shape[0], xnew.shape[1]], FLOAT,
                         lambda idx: V.f_add(yr([idx[0], 0]), V.f_mul(V.f_div(V.f_sub(yr([idx[0], 1]), yr([idx[0], 0])), 1.0 + EPS32), nr([idx[0], idx[1]]))))


@contract
class MakeLineSubs(Contract):
    target = PG + "make_line_subs"
    props = ("C03",)
    level = "property"
    functional = False
    no_crosscheck = True
    cases = ("n2", "n3", "n5")
    thorough_cases = ("n2", "n3", "n5", "n10")
    dims = ("P", "K", "H", "W")
    dim_ranges = {"P": (1, 3), "K": (1, 2), "H": (1, 3), "W": (1, 3)}
    rand_ranges = {"P": (2, 4), "K": (1, 4), "H": (2, 8), "W": (2, 8), "peaks": (-3.0, 20.0), "edge_peak_inds": (0, 1), "edge_inds": (0, 3), "pafs_stride": (1, 4)}
    bounded = ("the number of sample points along a line is unrolled (quick 2,3,5; thorough 10); peaks, candidates, PAF size and stride are symbolic",)

    def inputs(self, c, case):
        n = int(case[1:])
        P, K, H, W = c.dim("P", lo=1), c.dim("K", lo=0), c.dim("H", lo=1), c.dim("W", lo=1)
        epi = c.tensor("edge_peak_inds", [K, 2], INT, lo=0)
        er = epi.reader()
        if c.symbolic:
            k, j = z3.Int("qk"), z3.Int("qj")
            c.fact(z3.ForAll([k, j], V.zbool(V.b_implies(V.b_and(k >= 0, V.i_lt(k, K), j >= 0, j < 2), V.i_lt(er([k, j]), P)))))
        return dict(peaks_sample=c.tensor("peaks", [P, 2], FLOAT, nan_ok=False), edge_peak_inds=epi, edge_inds=c.tensor("edge_inds", [K], INT, lo=0),
                    n_line_points=n, pafs_stride=c.int("pafs_stride", lo=1), pafs_hw=(H, W))

    def requires(self, c, peaks_sample, edge_peak_inds, edge_inds, n_line_points, pafs_stride, pafs_hw):
        er = edge_peak_inds.reader()
        return [("peak-indices-in-range", Forall([edge_peak_inds.shape[0], 2], lambda k, j: V.b_and(V.i_le(0, er([k, j])), V.i_lt(er([k, j]), peaks_sample.shape[0])))),
                ("stride>=1", V.i_le(1, pafs_stride))]

    def ensures(self, c, result, peaks_sample, edge_peak_inds, edge_inds, n_line_points, pafs_stride, pafs_hw):
        H, W = pafs_hw
        K, n = edge_peak_inds.shape[0], n_line_points
        if not (isinstance(result, STensor) and result.rank == 4):
            return [("PL/returns-a-rank-4-tensor", False)]
        rr, pr, er, ei = result.reader(), peaks_sample.reader(), edge_peak_inds.reader(), edge_inds.reader()
        cl = [("PL/shape-(candidates,points,2,3)", V.b_and(V.i_eq(result.shape[0], K), V.i_eq(result.shape[1], n), V.i_eq(result.shape[2], 2), V.i_eq(result.shape[3], 3)))]
        clipi = lambda v, hi: V.ite(V.i_lt(v, 0), 0, V.ite(V.i_lt(hi, v), hi, v)) if not (isinstance(v, int) and isinstance(hi, int)) else max(0, min(hi, v))
        st = T.cast_scalar(pafs_stride, FLOAT)

        def at_source(k):
            # the first sample point (t = 0) is the source peak itself: its cell is
            # (round(y / stride), round(x / stride)) clipped into the PAF tensor
            sx, sy = pr([er([k, 0]), 0]), pr([er([k, 0]), 1])
            row = clipi(V.f_round_to_int(V.f_div(sy, st)), V.i_sub(H, 1))
            col = clipi(V.f_round_to_int(V.f_div(sx, st)), V.i_sub(W, 1))
            return V.b_and(*[V.b_and(V.i_eq(rr([k, 0, comp, 0]), row), V.i_eq(rr([k, 0, comp, 1]), col)) for comp in (0, 1)])

        def channels(k, p):
            e = ei([k])
            return V.b_and(V.i_eq(rr([k, p, 0, 2]), V.i_mul(2, e)), V.i_eq(rr([k, p, 1, 2]), V.i_add(V.i_mul(2, e), 1)),
                           V.i_eq(rr([k, p, 0, 0]), rr([k, p, 1, 0])), V.i_eq(rr([k, p, 0, 1]), rr([k, p, 1, 1])))

        def in_bounds(k, p):
            return V.b_and(V.i_le(0, rr([k, p, 0, 0])), V.i_lt(rr([k, p, 0, 0]), H), V.i_le(0, rr([k, p, 0, 1])), V.i_lt(rr([k, p, 0, 1]), W))

        cl.append(("PL/first-sample-point-addresses-the-source-peak-cell-[row=y/stride,col=x/stride]", Forall([K], at_source)))
        cl.append(("PL/channels-are-2*edge-(x-component)-and-2*edge+1-(y-component)-at-the-same-cell", Forall([K, n], channels)))
        cl.append(("PL/every-subscript-lies-inside-the-PAF-tensor", Forall([K, n], in_bounds)))
        return cl


# ------------------------------------------------------------------------ the inference model
class TwoHeadNet:
    """Ghost network: returns the prepared confidence maps and PAFs (channel-first)."""

    __pyvc_native__ = True

    def __init__(self, cms, pafs):
        self.cms, self.pafs = cms, pafs

    def __call__(self, image):
        return {"MultiInstanceConfmapsHead": self.cms, "PartAffinityFieldsHead": self.pafs}

    def __pyvc_getattr__(self, interp, name):
        raise Unsupported("attribute %s of the ghost network" % name)


class RecordingScorer:
    """Ghost PAFScorer: records what predict() is given, returns prepared per-sample instances."""

    __pyvc_native__ = True

    def __init__(self, instances):
        self.instances = instances
        self.got = None

    def predict(self, pafs=None, peaks=None, peak_vals=None, peak_channel_inds=None):
        from pyvc.lib_torch import NestedTensor

        self.got = dict(pafs=pafs, peaks=peaks, peak_vals=peak_vals, peak_channel_inds=peak_channel_inds)
        n = len(self.instances)
        return (NestedTensor(list(self.instances)), NestedTensor([None] * n), NestedTensor([None] * n), "edge_inds", "edge_peak_inds", "line_scores")


@contract
class BottomUpForward(Contract):
    target = "sleap_nn.inference.bottomup.BottomUpInferenceModel.forward"
    props = ("C03",)
    level = "property"
    functional = False
    pure = False
    no_crosscheck = True
    cases = ("B1", "B2")
    rand_ranges = {"N": (1, 2), "H": (3, 6), "W": (3, 6), "E": (1, 2), "Hp": (2, 4), "Wp": (2, 4), "I0": (0, 2), "I1": (0, 2), "Hi": (4, 8), "Wi": (4, 8), "cms": (0.0, 1.0), "pafs": (-1.0, 1.0),
                   "instances0": (0.0, 20.0), "instances1": (0.0, 20.0), "eff_scale": (0.5, 2.0), "input_scale": (0.5, 1.0), "peak_threshold": (0.2, 0.8), "cms_output_stride": (1, 4),
                   "pafs_output_stride": (1, 4), "image": (0.0, 1.0)}
    dims = ()
    bounded = ("BottomUpInferenceModel.forward / _generate_cms_peaks: batch size 1..2 (python loop over samples); map sizes, channel counts, numbers of peaks and instances, strides and scales symbolic",)
    not_decided = ("the analytic core of C03: that on ideal confidence maps / PAFs the true edge of an animal outscores every false candidate (score_paf_lines on sampled Gaussians) -- no claim",
                   "score_paf_lines / get_paf_lines / compute_distance_penalty values; refinement='integral' in the bottom-up chain; interp1d is an ASSUMED contract (vendored torchinterp1d)",
                   "the grouping itself is decided under C08 (bounded), the confidence-map peak characterisation under C06")

    def inputs(self, c, case):
        B = int(case[1:])
        N, H, W, E, Hp, Wp = c.dim("N", lo=1), c.dim("H", lo=1), c.dim("W", lo=1), c.dim("E", lo=1), c.dim("Hp", lo=1), c.dim("Wp", lo=1)
        cms = c.tensor("cms", [B, N, H, W], FLOAT, nan_ok=False)
        pafs = c.tensor("pafs", [B, V.i_mul(2, E), Hp, Wp], FLOAT, nan_ok=False)
        inst = [c.tensor("instances%d" % b, [c.dim("I%d" % b, lo=0), N, 2], FLOAT, nan_ok=True) for b in range(B)]
        eff = c.tensor("eff_scale", [B], FLOAT, nan_ok=False)
        er = eff.reader()
        for b in range(B):
            c.assume(V.f_lt(0.0, er([b])))
        isc, thr = c.real("input_scale"), c.real("peak_threshold")
        c.assume(V.f_lt(0.0, isc), V.f_le(0.0, thr))
        return dict(cms=cms, pafs=pafs, inst=inst, eff=eff, input_scale=isc, thr=thr, cms_stride=c.int("cms_output_stride", lo=1), pafs_stride=c.int("pafs_output_stride", lo=1),
                    image=c.tensor("image", [B, 1, c.dim("Hi", lo=1), c.dim("Wi", lo=1)], FLOAT, nan_ok=False))

    def run(self, interp, a):
        cv = interp.resolve_dotted("sleap_nn.inference.bottomup.BottomUpInferenceModel")
        obj = Obj(cv)
        self._scorer = RecordingScorer(a["inst"])
        obj.attrs.update(torch_model=TwoHeadNet(a["cms"], a["pafs"]), paf_scorer=self._scorer, peak_threshold=a["thr"], refinement=None, integral_patch_size=5,
                         cms_output_stride=a["cms_stride"], pafs_output_stride=a["pafs_stride"], return_confmaps=False, return_pafs=False, return_paf_graph=False,
                         input_scale=a["input_scale"])
        m, _ = cv.lookup("forward")
        self._inputs = {"image": a["image"], "eff_scale": a["eff"], "frame_idx": "frame_idx", "video_idx": "video_idx"}
        return interp.call(m, [obj, self._inputs], {})

    def real_call(self, ra):
        """(replay side) the real BottomUpInferenceModel with a stub network and a recording stub scorer."""
        import torch
        from pyvc.concrete import from_real
        from sleap_nn.inference.bottomup import BottomUpInferenceModel

        cms, pafs, inst = ra["cms"].float(), ra["pafs"].float(), [t.float() for t in ra["inst"]]

        class Net(torch.nn.Module):
            def forward(self, image):
                return {"MultiInstanceConfmapsHead": cms, "PartAffinityFieldsHead": pafs}

        outer = self

        class Scorer:
            got = None

            def predict(self, pafs=None, peaks=None, peak_vals=None, peak_channel_inds=None):
                un = lambda t: [from_real(x) for x in t.unbind()]
                Scorer.got = dict(pafs=from_real(pafs), peaks=un(peaks), peak_vals=un(peak_vals), peak_channel_inds=un(peak_channel_inds))
                nt = torch.nested.nested_tensor
                z = [torch.zeros(0) for _ in inst]
                return nt(list(inst)), nt(z), nt(z), None, None, None

        self._scorer = Scorer
        m = BottomUpInferenceModel(torch_model=Net(), paf_scorer=Scorer(), cms_output_stride=int(ra["cms_stride"]), pafs_output_stride=int(ra["pafs_stride"]),
                                   peak_threshold=float(ra["thr"]), refinement=None, input_scale=float(ra["input_scale"]))
        out = m.forward({"image": ra["image"].float(), "eff_scale": ra["eff"].float(), "frame_idx": "frame_idx", "video_idx": "video_idx"})
        out[0]["pred_instance_peaks"] = list(out[0]["pred_instance_peaks"].unbind())
        for k in ("pred_peak_values", "instance_scores"):
            out[0].pop(k, None)
        return out

    def ensures(self, c, result, cms, pafs, inst, eff, input_scale, thr, cms_stride, pafs_stride, image):
        from contracts.c06_local_peaks import is_peak

        if not (isinstance(result, list) and len(result) == 1 and isinstance(result[0], dict)):
            return [("PL/returns-[dict]", False)]
        out, got = result[0], self._scorer.got
        B = cms.shape[0]
        cl = [("PL/frame-and-video-indices-pass-through", out.get("frame_idx") == "frame_idx" and out.get("video_idx") == "video_idx")]
        if got is None:
            return cl + [("PL/the-scorer-is-called", False)]
        # (a) the PAF tensor handed to the scorer is the channel-last view of the network output
        gp = got["pafs"]
        if not (isinstance(gp, STensor) and gp.rank == 4):
            return cl + [("PL/scorer-gets-a-rank-4-PAF-tensor", False)]
        gr, pr = gp.reader(), pafs.reader()
        cl.append(("PL/scorer-reads-PAFs-channel-last:[sample,row,col,channel]", V.b_and(
            V.i_eq(gp.shape[0], pafs.shape[0]), V.i_eq(gp.shape[1], pafs.shape[2]), V.i_eq(gp.shape[2], pafs.shape[3]), V.i_eq(gp.shape[3], pafs.shape[1]))))
        cl.append(("PL/scorer-reads-PAFs-channel-last:values", Forall([pafs.shape[0], pafs.shape[2], pafs.shape[3], pafs.shape[1]], lambda s, i, j, ch: V.f_same(gr([s, i, j, ch]), pr([s, ch, i, j])))))
        # (b) per sample: the peaks given to the scorer are cells of THAT sample's maps, times the
        # confidence-map stride, each a strict local maximum above threshold, with its channel
        peaks, chans, vals = got["peaks"], got["peak_channel_inds"], got["peak_vals"]
        ok_lists = all(isinstance(x, list) and len(x) == B for x in (peaks, chans, vals))
        cl.append(("PL/one-peak-list-per-sample", ok_lists))
        if not ok_lists:
            return cl
        cr = cms.reader()
        S_, C_, H_, W_ = cms.shape
        st = T.cast_scalar(cms_stride, FLOAT)
        sels = c.path.ghosts.get("selections", []) if c.symbolic else []
        sel4 = [x for x in sels if x.m == 4]
        for b in range(B):
            pk, chn, vl = peaks[b], chans[b], vals[b]
            if not (isinstance(pk, STensor) and pk.rank == 2 and isinstance(chn, STensor) and isinstance(vl, STensor)):
                cl.append(("PL/sample%d/peak-list-is-a-tensor" % b, False))
                continue
            kr, hr, vr = pk.reader(), chn.reader(), vl.reader()
            cl.append(("PL/sample%d/points-channels-values-have-one-row-per-peak" % b, V.b_and(V.i_eq(pk.shape[0], chn.shape[0]), V.i_eq(pk.shape[0], vl.shape[0]), V.i_eq(pk.shape[1], 2))))
            if c.symbolic:
                # witnesses: the per-sample selection (rows of the detector's output with sample
                # index b) and the detector's own selection of map cells
                sel1 = [x for x in sels if x.m == 1 and V.same_term(x.N, pk.shape[0])]
                if len(sel1) != 1 or len(sel4) != 1:
                    raise Unsupported("expected one per-sample selection and one detector selection in the verified code")
                s1, s4 = sel1[0], sel4[0]

                def sound(r, b=b, kr=kr, hr=hr, vr=vr, s1=s1, s4=s4):
                    q = s1.sel_at(r)[0]
                    s, i, j, ch = s4.sel_at(q)      # the detector's mask is laid out (sample, row, col, channel)
                    return V.b_and(V.i_eq(s, b), V.i_le(0, ch), V.i_lt(ch, C_), V.i_le(0, i), V.i_lt(i, H_), V.i_le(0, j), V.i_lt(j, W_),
                                   V.f_eq(kr([r, 0]), V.f_mul(T.cast_scalar(j, FLOAT), st)), V.f_eq(kr([r, 1]), V.f_mul(T.cast_scalar(i, FLOAT), st)),
                                   V.i_eq(hr([r]), ch), is_peak(cr, H_, W_, thr, b, ch, i, j), V.f_same(vr([r]), cr([b, ch, i, j])))
            else:
                def sound(r, b=b, kr=kr, hr=hr, vr=vr):
                    ch = hr([r])
                    x, y = kr([r, 0]), kr([r, 1])
                    j, i = int(round(x / cms_stride)), int(round(y / cms_stride))
                    return V.b_and(0 <= ch < C_, 0 <= i < H_, 0 <= j < W_, V.f_eq(x, j * float(cms_stride)), V.f_eq(y, i * float(cms_stride)),
                                   is_peak(cr, H_, W_, thr, b, ch, i, j), V.f_same(vr([r]), cr([b, ch, i, j])))

            cl.append(("PL/sample%d/every-peak-given-to-the-scorer-is-stride-x-a-local-maximum-of-this-sample-with-its-channel-and-value" % b, Forall([pk.shape[0]], sound)))
        # (c) decoded instances: the scorer's instances of sample b divided by input_scale and eff_scale[b]
        res = out.get("pred_instance_peaks")
        ok_res = isinstance(res, list) and len(res) == B and all(isinstance(x, STensor) for x in res)
        cl.append(("PL/one-instance-tensor-per-sample", ok_res))
        if ok_res:
            er = eff.reader()
            for b in range(B):
                rr_, ir_ = res[b].reader(), inst[b].reader()
                cl.append(("PL/sample%d/instances-are-the-scorer-instances-divided-by-input_scale-and-this-sample's-eff_scale" % b,
                           V.b_and(*[V.i_eq(x, y) for x, y in zip(res[b].shape, inst[b].shape)]) if True else True))
                cl.append(("PL/sample%d/decoded-values" % b, Forall(list(inst[b].shape), lambda i_, n_, k_, b=b, rr_=rr_, ir_=ir_: V.f_same(rr_([i_, n_, k_]), V.f_div(V.f_div(ir_([i_, n_, k_]), input_scale), er([b]))))))
        return cl


# ------------------------------------------------------- the scorer's per-sample wiring
@contract
class ScorePafLinesBatchWiring(Contract):
    """score_paf_lines_batch with its three callees (get_connection_candidates, get_paf_lines,
    score_paf_lines) replaced by recording ghosts: what is decided is the wiring -- each sample's
    PAFs / peaks / channel indices go to that sample's calls, the PAF stride and the number of
    line points are passed through, and the edge-length limit handed to score_paf_lines is
    max_edge_length_ratio x the image extent (max(height, width) x stride, at least)."""

    target = PG + "score_paf_lines_batch"
    props = ("C03",)
    level = "property"
    functional = False
    pure = False
    no_crosscheck = True
    no_replay = True
    cases = ("B1", "B2")
    dims = ()
    bounded = ("score_paf_lines_batch: batch size 1..2 (python loop over samples); PAF size, edge count, stride, ratio symbolic",)

    def inputs(self, c, case):
        B = int(case[1:])
        H, W, E = c.dim("H", lo=1), c.dim("W", lo=1), c.dim("E", lo=1)
        ratio = c.real("max_edge_length_ratio")
        c.assume(V.f_lt(0.0, ratio))
        return dict(pafs=c.tensor("pafs", [B, H, W, V.i_mul(2, E)], FLOAT, nan_ok=False), B=B, stride=c.int("pafs_stride", lo=1), ratio=ratio, n_points=c.int("n_line_points", lo=1),
                    weight=c.real("dist_penalty_weight"))

    def run(self, interp, a):
        from pyvc.lib_torch import NestedTensor

        self._calls = {"cand": [], "lines": [], "score": []}
        B = a["B"]
        peaks = NestedTensor(["peaks%d" % b for b in range(B)])
        chans = NestedTensor(["chan%d" % b for b in range(B)])

        def cand(chan, skel, n_nodes):
            self._calls["cand"].append((chan, skel, n_nodes))
            k = len(self._calls["cand"]) - 1
            return ("edge_inds%d" % k, "edge_peak_inds%d" % k)

        def lines(pafs_sample, peaks_sample, epi, ei, n_line_points, pafs_stride):
            self._calls["lines"].append((pafs_sample, peaks_sample, epi, ei, n_line_points, pafs_stride))
            return "paf_lines%d" % (len(self._calls["lines"]) - 1)

        def score(paf_lines, peaks_sample, epi, max_edge_length, dist_penalty_weight=1.0):
            self._calls["score"].append((paf_lines, peaks_sample, epi, max_edge_length, dist_penalty_weight))
            return T.from_flat([0], [], FLOAT)

        interp.overrides = {PG + "get_connection_candidates": cand, PG + "get_paf_lines": lines, PG + "score_paf_lines": score}
        try:
            f = interp.resolve_dotted(PG + "score_paf_lines_batch")
            return interp.call(f, [a["pafs"], peaks, chans, "skeleton_edges", a["n_points"], a["stride"], a["ratio"], a["weight"], 3], {})
        finally:
            interp.overrides = {}

    def ensures(self, c, result, pafs, B, stride, ratio, n_points, weight):
        calls = self._calls
        cl = [("PL/one-call-of-each-stage-per-sample", all(len(calls[k]) == B for k in calls))]
        if not cl[0][1]:
            return cl
        H, W = pafs.shape[1], pafs.shape[2]
        pr = pafs.reader()
        for b in range(B):
            chan, skel, n_nodes = calls["cand"][b]
            ps, pk, epi, ei, npts, st = calls["lines"][b]
            pl, pk2, epi2, mel, w = calls["score"][b]
            cl.append(("PL/sample%d/each-stage-gets-this-sample's-peaks-channels-and-candidates" % b,
                       chan == "chan%d" % b and skel == "skeleton_edges" and pk == "peaks%d" % b and pk2 == "peaks%d" % b and epi == "edge_peak_inds%d" % b and epi2 == "edge_peak_inds%d" % b
                       and ei == "edge_inds%d" % b and pl == "paf_lines%d" % b))
            ok_p = isinstance(ps, STensor) and ps.rank == 3
            cl.append(("PL/sample%d/PAFs-of-this-sample-stride-and-line-points-passed-through" % b, ok_p and V.b_and(V.i_eq(npts, n_points), V.i_eq(st, stride), V.f_same(w, weight))))
            if ok_p:
                sr = ps.reader()
                cl.append(("PL/sample%d/PAF-values" % b, Forall([H, W, pafs.shape[3]], lambda i, j, ch, b=b, sr=sr: V.f_same(sr([i, j, ch]), pr([b, i, j, ch])))))
            ext = V.f_mul(V.f_mul(ratio, T.cast_scalar(V.i_max(H, W), FLOAT)), T.cast_scalar(stride, FLOAT))
            cl.append(("PL/sample%d/edge-length-limit-is-at-least-ratio-x-max(height,width)-x-stride" % b, V.f_le(ext, mel)))
        return cl
