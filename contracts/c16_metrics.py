"""C16 -- evaluation metrics: perfect for perfect predictions, bounded, monotone
(sleap_nn/evaluation.py: Evaluator.voc_metrics / pck_metrics / mOKS / visibility_metrics,
match_instances, compute_dists).

BOUNDED in the number of matched pairs / instances (enumerated as cases); the OKS values,
detection scores, distances, coordinates and thresholds are symbolic, and every outcome of the
sorts / comparisons inside the real code is explored.  The Evaluator object is a ghost: its
`positive_pairs`, `false_negatives` and `dists_dict` attributes are set directly (the frame
pairing over sleap_io Labels, `find_frame_pairs`, is not covered)."""
import itertools

import z3

from pyvc import values as V, tensor as T
from pyvc.contracts import Contract, contract, Forall
from pyvc.ctx import PyExc, Unsupported
from pyvc.interp import Obj
from pyvc.tensor import FLOAT, INT, BOOL, STensor

EV = "sleap_nn.evaluation."


class GInst:
    """sleap_io instance ghost: `.numpy()` gives the (n_nodes, 2) points, `.score` the
    detection score (predicted instances only)."""

    __pyvc_native__ = True

    def __init__(self, points, score=None):
        self.points = points
        if score is not None:
            self.score = score

    def numpy(self):
        return self.points

    def __pyvc_to_real__(self):
        from pyvc.concrete import to_real

        pts = to_real(self.points)
        sc = getattr(self, "score", None)

        class I:
            def numpy(self_):
                import numpy as np

                return np.asarray(pts, dtype="float64")

        i = I()
        if sc is not None:
            i.score = float(to_real(sc))
        return i


class GMatch:
    """MatchInstance ghost."""

    __pyvc_native__ = True

    def __init__(self, instance, frame_idx=0, video_path="video"):
        self.instance, self.frame_idx, self.video_path = instance, frame_idx, video_path

    def __pyvc_to_real__(self):
        from pyvc.concrete import to_real

        class M:
            pass

        m = M()
        m.instance, m.frame_idx, m.video_path = to_real(self.instance), self.frame_idx, self.video_path
        return m


def _in01(x):
    return V.b_and(V.f_le(0.0, x), V.f_le(x, 1.0))


class _Metric(Contract):
    level = "property"
    functional = False
    no_crosscheck = True
    concretize_masks = True
    dims = ()

    def evaluator(self, interp, **attrs):
        cv = interp.resolve_dotted(EV + "Evaluator")
        obj = Obj(cv)
        obj.attrs.update(attrs)
        return cv, obj

    def real_evaluator(self, **attrs):
        from sleap_nn.evaluation import Evaluator

        e = Evaluator.__new__(Evaluator)
        for k, v in attrs.items():
            setattr(e, k, v)
        return e


# --------------------------------------------------------------------------------- VOC
@contract
class VocMetrics(_Metric):
    target = EV + "Evaluator.voc_metrics"
    props = ("C16",)
    # "P-F": P matched pairs, F unmatched ground-truth instances
    cases = ("0-0", "0-1", "1-0", "1-1", "2-0", "2-1", "3-0")
    thorough_cases = cases + ("3-1", "3-2", "2-2")
    rand_ranges = {"t_lo": (0.3, 0.7), "t_hi": (0.7, 0.95)}
    bounded = ("voc_metrics: up to 3 matched pairs and up to 2 unmatched ground-truth instances, two match-score thresholds (symbolic, ordered), recall thresholds {0, 0.5, 1}; "
               "OKS values and detection scores symbolic",)

    def inputs(self, c, case):
        P, F = [int(x) for x in case.split("-")]
        oks = [c.real("oks%d" % p) for p in range(P)]
        det = [c.real("score%d" % p) for p in range(P)]
        for o in oks:
            c.assume(V.f_le(0.0, o), V.f_le(o, 1.0))
        t1, t2 = c.real("t_lo"), c.real("t_hi")
        c.assume(V.f_lt(0.0, t1), V.f_le(t1, t2), V.f_le(t2, 1.0))
        return dict(oks=oks, det=det, F=F, t1=t1, t2=t2)

    def _pairs(self, oks, det):
        return [(GMatch(GInst(None)), GMatch(GInst(None, score=d)), o) for o, d in zip(oks, det)]

    def run(self, interp, a):
        cv, obj = self.evaluator(interp, positive_pairs=self._pairs(a["oks"], a["det"]), false_negatives=[GMatch(GInst(None)) for _ in range(a["F"])])
        m, _ = cv.lookup("voc_metrics")
        thr = T.from_flat([2], [a["t1"], a["t2"]], FLOAT, kind="numpy")
        rec = T.from_flat([3], [0.0, 0.5, 1.0], FLOAT, kind="numpy")
        return interp.call(m, [obj], dict(match_score_by="oks", match_score_thresholds=thr, recall_thresholds=rec))

    def real_call(self, ra):
        import numpy as np

        e = self.real_evaluator(positive_pairs=[(None, _RealPr(d), o) for o, d in zip(ra["oks"], ra["det"])], false_negatives=[None] * ra["F"])
        return e.voc_metrics(match_score_by="oks", match_score_thresholds=np.array([ra["t1"], ra["t2"]], dtype="float64"), recall_thresholds=np.array([0.0, 0.5, 1.0]))

    def ensures(self, c, result, oks, det, F, t1, t2):
        if not isinstance(result, dict):
            return [("PL/returns-a-dict", False)]
        g = lambda k: result.get("oks_voc." + k)
        P = len(oks)
        if P == 0:
            return [("PL/no-matched-pairs:all-metrics-zero", all(g(k) == 0 for k in ("AP", "AR", "mAP", "mAR")))]
        AP, AR, mAP, mAR = g("AP"), g("AR"), g("mAP"), g("mAR")
        if not (isinstance(AP, STensor) and isinstance(AR, STensor) and list(AP.shape) == [2] and list(AR.shape) == [2]):
            return [("PL/AP-and-AR-have-one-entry-per-threshold", False)]
        ap, ar = AP.reader(), AR.reader()
        sc = lambda x: x.at([]) if isinstance(x, STensor) else x
        cl = [("PL/AP-AR-mAP-mAR-lie-in-[0,1]", V.b_and(_in01(ap([0])), _in01(ap([1])), _in01(ar([0])), _in01(ar([1])), _in01(sc(mAP)), _in01(sc(mAR)))),
              ("PL/average-recall-is-non-increasing-in-the-match-threshold", V.f_le(ar([1]), ar([0]))),
              ("PL/average-precision-is-non-increasing-in-the-match-threshold", V.f_le(ap([1]), ap([0])))]
        perfect = V.b_and(*[V.f_eq(o, 1.0) for o in oks]) if F == 0 else False
        if perfect is not False:
            near1 = lambda x: V.f_le(1.0 - 1e-9, x)
            cl.append(("PL/all-matches-perfect-and-nothing-missed:AP-and-AR-are-1-up-to-rounding",
                       V.b_implies(perfect, V.b_and(V.f_eq(ar([0]), 1.0), V.f_eq(ar([1]), 1.0), near1(ap([0])), near1(ap([1])), near1(sc(mAP)), V.f_eq(sc(mAR), 1.0)))))
        return cl


class _RealPr:
    def __init__(self, score):
        class I:
            pass

        self.instance = I()
        self.instance.score = float(score)


# ----------------------------------------------------------------------------- PCK / mOKS
@contract
class PckMetrics(_Metric):
    target = EV + "Evaluator.pck_metrics"
    props = ("C16",)
    cases = ("1x1", "1x2", "2x1", "2x2", "3x2")
    thorough_cases = cases + ("3x3", "4x2")
    rand_ranges = {"dists": (0.0, 12.0), "px_lo": (0.5, 5.0), "px_hi": (5.0, 12.0)}
    bounded = ("pck_metrics: up to 3 (thorough 4) matched pairs x up to 2 (thorough 3) nodes, two pixel thresholds (symbolic, ordered); distances symbolic (NaN = keypoint missing)",)

    def inputs(self, c, case):
        P, N = [int(x) for x in case.split("x")]
        d = c.tensor("dists", [P, N], FLOAT, nan_ok=True, kind="numpy", lo=0.0)
        t1, t2 = c.real("px_lo"), c.real("px_hi")
        c.assume(V.f_lt(0.0, t1), V.f_le(t1, t2))
        return dict(dists=d, t1=t1, t2=t2)

    def run(self, interp, a):
        cv, obj = self.evaluator(interp, dists_dict={"dists": a["dists"], "frame_idxs": [], "video_paths": []})
        m, _ = cv.lookup("pck_metrics")
        return interp.call(m, [obj], dict(thresholds=T.from_flat([2], [a["t1"], a["t2"]], FLOAT, kind="numpy")))

    def real_call(self, ra):
        import numpy as np

        e = self.real_evaluator(dists_dict={"dists": np.asarray(ra["dists"], dtype="float64"), "frame_idxs": [], "video_paths": []})
        return e.pck_metrics(thresholds=np.array([ra["t1"], ra["t2"]], dtype="float64"))

    def ensures(self, c, result, dists, t1, t2):
        if not isinstance(result, dict):
            return [("PL/returns-a-dict", False)]
        parts, mp = result.get("mPCK_parts"), result.get("mPCK")
        P, N = dists.shape
        if not (isinstance(parts, STensor) and list(parts.shape) == [N]):
            return [("PL/mPCK_parts-has-one-entry-per-node", False)]
        pr = parts.reader()
        mpv = mp.at([]) if isinstance(mp, STensor) else mp
        dr = dists.reader()
        cl = [("PL/PCK-values-lie-in-[0,1]", V.b_and(_in01(mpv), *[_in01(pr([n])) for n in range(N)])),
              ("PL/frame-dists-unmodified", True)]
        # per-threshold PCK (fraction of (pair, node) cells closer than the threshold) from `pcks`
        pcks = result.get("pcks")
        if not (isinstance(pcks, STensor) and list(pcks.shape) == [P, N, 2]):
            return cl + [("PL/pcks-shape", False)]
        kr = pcks.reader()
        frac = lambda k: V.f_div(_fsum([T.cast_scalar(kr([p, n, k]), FLOAT) for p in range(P) for n in range(N)]), float(P * N))
        cl.append(("PL/PCK-is-non-decreasing-in-the-pixel-threshold", V.f_le(frac(0), frac(1))))
        # a cell counts exactly when the keypoint is present and closer than the threshold
        cl.append(("PL/a-keypoint-counts-iff-it-is-present-and-closer-than-the-threshold",
                   V.b_and(*[V.b_iff(V.to_bool(kr([p, n, k])), V.b_and(V.b_not(V.f_isnan(dr([p, n]))), V.f_lt(dr([p, n]), (t1, t2)[k])))
                             for p in range(P) for n in range(N) for k in range(2)])))
        # perfect predictions: distance 0 wherever the ground truth is visible, NaN elsewhere
        perfect = V.b_and(*[V.b_or(V.f_isnan(dr([p, n])), V.f_eq(dr([p, n]), 0.0)) for p in range(P) for n in range(N)])
        vis = V.f_div(_fsum([V.f_ite(V.zbool(V.f_isnan(dr([p, n]))), 0.0, 1.0) if not isinstance(V.f_isnan(dr([p, n])), bool) else (0.0 if V.f_isnan(dr([p, n])) else 1.0)
                             for p in range(P) for n in range(N)]), float(P * N))
        cl.append(("PL/perfect-predictions:PCK-equals-the-fraction-of-visible-keypoints", V.b_implies(perfect, V.b_and(V.f_eq(mpv, vis), V.f_eq(frac(0), vis), V.f_eq(frac(1), vis)))))
        return cl


def _fsum(xs):
    acc = 0.0
    for x in xs:
        acc = V.f_add(acc, x)
    return acc


@contract
class MeanOks(_Metric):
    target = EV + "Evaluator.mOKS"
    props = ("C16",)
    cases = ("1", "2", "3")
    bounded = ("mOKS: 1..3 matched pairs",)

    def inputs(self, c, case):
        oks = [c.real("oks%d" % p) for p in range(int(case))]
        for o in oks:
            c.assume(V.f_le(0.0, o), V.f_le(o, 1.0))
        return dict(oks=oks)

    def run(self, interp, a):
        cv, obj = self.evaluator(interp, positive_pairs=[(None, None, o) for o in a["oks"]])
        m, _ = cv.lookup("mOKS")
        return interp.call(m, [obj], {})

    def real_call(self, ra):
        return self.real_evaluator(positive_pairs=[(None, None, o) for o in ra["oks"]]).mOKS()

    def ensures(self, c, result, oks):
        v = result.get("mOKS") if isinstance(result, dict) else None
        if v is None:
            return [("PL/returns-mOKS", False)]
        v = v.at([]) if isinstance(v, STensor) else v
        return [("PL/mOKS-is-the-mean-of-the-pair-scores", V.f_eq(v, V.f_div(_fsum(oks), float(len(oks))))),
                ("PL/mOKS-lies-in-[0,1]", _in01(v)),
                ("PL/all-pairs-perfect:mOKS-is-1", V.b_implies(V.b_and(*[V.f_eq(o, 1.0) for o in oks]), V.f_eq(v, 1.0)))]


# ------------------------------------------------------------------------- match_instances
class GBackend:
    __pyvc_native__ = True

    def __init__(self):
        self.source_filename = "video.mp4"


class GVideo:
    __pyvc_native__ = True

    def __init__(self):
        self.backend = GBackend()


class GFrame:
    """sleap_io.LabeledFrame ghost: `.instances`, `.frame_idx`, `.video.backend.source_filename`."""

    __pyvc_native__ = True

    def __init__(self, instances, frame_idx=7):
        self.instances = list(instances)
        self.frame_idx = frame_idx
        self.video = GVideo()

    def __pyvc_to_real__(self):
        from pyvc.concrete import to_real

        class F:
            pass

        f = F()
        f.instances = [to_real(i) for i in self.instances]
        f.frame_idx = self.frame_idx
        f.video = GVideo()
        return f


def _visible(rd, n_nodes):
    return V.b_or(*[V.b_not(V.b_or(V.f_isnan(rd([n, 0])), V.f_isnan(rd([n, 1])))) for n in range(n_nodes)])


@contract
class MatchInstances(_Metric):
    target = EV + "match_instances"
    props = ("C16", "C15")
    concretize_masks = False
    # "G-P-N": ground-truth instances, predicted instances, nodes; "=": predictions are copies
    # of the ground truth (listed in reverse order)
    cases = ("1-0-1", "1-1-1", "1-2-1", "2-1-1", "2-2-1", "1-1-2", "2-1-2", "1=1-2", "2=2-1", "2=2-2")
    rand_ranges = {"stddev": (0.02, 0.2), "scale": (1.0, 50.0)}
    bounded = ("match_instances: 1..2 ground-truth and 0..2 predicted instances per frame, 1..2 nodes; coordinates, NaN patterns, detection scores, stddev and scale symbolic",)
    not_decided = ("find_frame_pairs / Evaluator.__init__ over sleap_io.Labels (frame pairing)", "voc_metrics(match_score_by='pck')",
                   "OKS normalised by the bounding-box area (scale=None) inside match_instances: the scalar-scale form is used")

    def inputs(self, c, case):
        perfect = "=" in case
        g, rest = case.split("=" if perfect else "-", 1)
        if perfect:
            p, n = rest.split("-")
        else:
            p, n = rest.split("-")
        G, P, N = int(g), int(p), int(n)
        gts = [c.tensor("gt%d" % i, [N, 2], FLOAT, nan_ok=True, kind="numpy") for i in range(G)]
        for t in gts:
            c.assume(_visible(t.reader(), N))   # domain of compute_oks: an instance has a visible node
        if perfect:
            prs = [gts[G - 1 - i] for i in range(P)]
        else:
            prs = [c.tensor("pr%d" % i, [N, 2], FLOAT, nan_ok=True, kind="numpy") for i in range(P)]
        scores = [c.real("score%d" % i) for i in range(P)]
        stddev, scale = c.real("stddev"), c.real("scale")
        c.assume(V.f_lt(0.0, stddev), V.f_lt(0.0, scale))
        return dict(gts=gts, prs=prs, scores=scores, stddev=stddev, scale=scale, perfect=perfect)

    def run(self, interp, a):
        self._gt = [GInst(t) for t in a["gts"]]
        self._pr = [GInst(t, score=s) for t, s in zip(a["prs"], a["scores"])]
        f = interp.resolve_dotted(EV + "match_instances")
        return interp.call(f, [GFrame(self._gt), GFrame(self._pr)], dict(stddev=a["stddev"], scale=a["scale"]))

    def real_call(self, ra):
        from sleap_nn.evaluation import match_instances
        from pyvc.concrete import to_real

        self._gt = [to_real(GInst(t)) for t in ra["gts"]]
        self._pr = [to_real(GInst(t, score=s)) for t, s in zip(ra["prs"], ra["scores"])]
        fg, fp = GFrame([]), GFrame([])
        fg.instances, fp.instances = self._gt, self._pr
        return match_instances(fg, fp, stddev=float(ra["stddev"]), scale=float(ra["scale"]))

    def ensures(self, c, result, gts, prs, scores, stddev, scale, perfect):
        if not (isinstance(result, tuple) and len(result) == 2 and isinstance(result[0], list) and isinstance(result[1], list)):
            return [("PL/returns-(pairs,false_negatives)", False)]
        pairs, fns = result
        inst = lambda m: getattr(m, "instance", None) if not isinstance(m, Obj) else m.attrs.get("instance")
        gi = [[k for k, g in enumerate(self._gt) if inst(pp[0]) is g] for pp in pairs]
        pi = [[k for k, p in enumerate(self._pr) if inst(pp[1]) is p] for pp in pairs]
        fi = [[k for k, g in enumerate(self._gt) if inst(m) is g] for m in fns]
        ok_ids = all(len(x) == 1 for x in gi + pi + fi)
        cl = [("PL/pairs-and-false-negatives-are-instances-of-the-two-frames", ok_ids)]
        if not ok_ids:
            return cl
        gi, pi, fi = [x[0] for x in gi], [x[0] for x in pi], [x[0] for x in fi]
        cl.append(("PL/no-instance-is-matched-twice", len(set(gi)) == len(gi) and len(set(pi)) == len(pi)))
        cl.append(("PL/false-negatives-are-exactly-the-unmatched-ground-truth-instances", sorted(fi) == sorted(set(range(len(gts))) - set(gi)) and len(fi) == len(set(fi))))
        sc = [pp[2].at([]) if isinstance(pp[2], STensor) else pp[2] for pp in pairs]
        cl.append(("PL/match-scores-lie-in-(0,1]", V.b_and(*[V.b_and(V.f_lt(0.0, s), V.f_le(s, 1.0)) for s in sc]) if sc else True))
        if perfect:
            # identical predictions: everything is matched with OKS 1 -- for label sets in which
            # no instance coincides with another one on all of its own visible nodes
            N = gts[0].shape[0]
            hyp = []
            for i, a_ in enumerate(gts):
                for j, b_ in enumerate(gts):
                    if i != j:
                        ra_, rb_ = a_.reader(), b_.reader()
                        differs = []
                        for n in range(N):
                            va = V.b_not(V.b_or(V.f_isnan(ra_([n, 0])), V.f_isnan(ra_([n, 1]))))
                            vb = V.b_not(V.b_or(V.f_isnan(rb_([n, 0])), V.f_isnan(rb_([n, 1]))))
                            differs.append(V.b_and(va, V.b_or(V.b_not(vb), V.b_not(V.f_eq(ra_([n, 0]), rb_([n, 0]))), V.b_not(V.f_eq(ra_([n, 1]), rb_([n, 1]))))))
                        hyp.append(V.b_or(*differs))
            concl = V.b_and(len(pairs) == len(gts) and not fns, *[V.f_eq(s, 1.0) for s in sc])
            if c.symbolic:
                cl.append(("PL/identical-predictions:every-instance-matched-with-OKS-1", V.b_implies(V.b_and(*hyp) if hyp else True, concl)))
            else:
                h = V.b_and(*hyp) if hyp else True
                cl.append(("PL/identical-predictions:every-instance-matched-with-OKS-1", V.b_implies(h, concl)))
                cl.append(("FULL/identical-predictions:every-instance-matched-with-OKS-1", concl))
        return cl


@contract
class DeletingAPrediction(MatchInstances):
    """Relational: the same frame matched with all predictions and with one prediction deleted;
    the number of matches whose OKS reaches a (symbolic) threshold -- recall times the constant
    number of ground-truth instances -- must not increase."""

    target = EV + "match_instances#deleting-a-prediction"
    props = ("C16",)
    # "G-P-N-d": delete prediction d
    cases = ("1-2-1-0", "1-2-1-1", "2-2-1-0", "2-2-1-1")
    always_inline = (EV + "match_instances",)
    bounded = ("deletion monotonicity: 1..2 ground-truth instances, 2 predictions, 1 node",)
    not_decided = ()

    def inputs(self, c, case):
        g, p, n, d = case.split("-")
        a = MatchInstances.inputs(self, c, "%s-%s-%s" % (g, p, n))
        a["delete"] = int(d)
        a["t"] = c.real("match_threshold")
        c.assume(V.f_lt(0.0, a["t"]), V.f_le(a["t"], 1.0))
        return a

    def run(self, interp, a):
        f = interp.resolve_dotted(EV + "match_instances")
        gt = [GInst(t) for t in a["gts"]]
        pr = [GInst(t, score=s) for t, s in zip(a["prs"], a["scores"])]
        kept = [p for k, p in enumerate(pr) if k != a["delete"]]
        full = interp.call(f, [GFrame(gt), GFrame(pr)], dict(stddev=a["stddev"], scale=a["scale"]))
        less = interp.call(f, [GFrame(gt), GFrame(kept)], dict(stddev=a["stddev"], scale=a["scale"]))
        return (full, less)

    def real_call(self, ra):
        from sleap_nn.evaluation import match_instances
        from pyvc.concrete import to_real

        gt = [to_real(GInst(t)) for t in ra["gts"]]
        pr = [to_real(GInst(t, score=s)) for t, s in zip(ra["prs"], ra["scores"])]
        kept = [p for k, p in enumerate(pr) if k != ra["delete"]]
        out = []
        for preds in (pr, kept):
            fg, fp = GFrame([]), GFrame([])
            fg.instances, fp.instances = gt, preds
            out.append(match_instances(fg, fp, stddev=float(ra["stddev"]), scale=float(ra["scale"])))
        return tuple(out)

    def ensures(self, c, result, gts, prs, scores, stddev, scale, perfect, delete, t):
        (p1, f1), (p2, f2) = result
        cnt = lambda pairs: _fsum([V.f_ite(V.zbool(V.f_le(t, (pp[2].at([]) if isinstance(pp[2], STensor) else pp[2]))), 1.0, 0.0)
                                   if not isinstance(V.f_le(t, (pp[2].at([]) if isinstance(pp[2], STensor) else pp[2])), bool)
                                   else (1.0 if V.f_le(t, (pp[2].at([]) if isinstance(pp[2], STensor) else pp[2])) else 0.0) for pp in pairs])
        same_total = (len(p1) + len(f1)) == (len(p2) + len(f2)) == len(gts)
        lowest = V.b_and(*[V.f_lt(scores[delete], s) for k, s in enumerate(scores) if k != delete])
        concl = V.f_le(cnt(p2), cnt(p1))
        cl = [("PL/the-number-of-ground-truth-instances-accounted-for-is-unchanged", same_total),
              # carve-out of known finding C16/greedy-deletion: proved when the deleted prediction
              # is the lowest-scoring one (it is then processed last and cannot take a better
              # candidate's ground truth)
              ("PL/deleting-the-lowest-scoring-prediction-never-increases-recall", V.b_implies(lowest, concl))]
        if not c.symbolic:
            cl.append(("FULL/deleting-a-prediction-never-increases-recall", concl))
        return cl


# ------------------------------------------------- compute_dists / distance / visibility
def _mk_pairs(c, P, N, perfect=False):
    gts = [c.tensor("gt%d" % p, [N, 2], FLOAT, nan_ok=True, kind="numpy") for p in range(P)]
    prs = gts if perfect else [c.tensor("pr%d" % p, [N, 2], FLOAT, nan_ok=True, kind="numpy") for p in range(P)]
    return gts, prs


def _missing(rd, n):
    return V.b_or(V.f_isnan(rd([n, 0])), V.f_isnan(rd([n, 1])))


@contract
class ComputeDists(_Metric):
    target = EV + "compute_dists"
    props = ("C16",)
    cases = ("1x1", "2x2", "1x2=", "2x2=")
    bounded = ("compute_dists: 1..2 matched pairs x 1..2 nodes ('=': predictions identical to the ground truth)",)

    def inputs(self, c, case):
        perfect = case.endswith("=")
        P, N = [int(x) for x in case.rstrip("=").split("x")]
        gts, prs = _mk_pairs(c, P, N, perfect)
        return dict(gts=gts, prs=prs, perfect=perfect)

    def _pairs(self, gts, prs):
        return [(GMatch(GInst(g), frame_idx=10 + k, video_path="video%d" % k), GMatch(GInst(p)), 1.0) for k, (g, p) in enumerate(zip(gts, prs))]

    def run(self, interp, a):
        return interp.call(interp.resolve_dotted(EV + "compute_dists"), [self._pairs(a["gts"], a["prs"])], {})

    def real_call(self, ra):
        from sleap_nn.evaluation import compute_dists
        from pyvc.concrete import to_real

        return compute_dists([(to_real(g), to_real(p), 1.0) for g, p, _ in self._pairs(ra["gts"], ra["prs"])])

    def ensures(self, c, result, gts, prs, perfect):
        d = result.get("dists") if isinstance(result, dict) else None
        P, N = len(gts), gts[0].shape[0]
        if not (isinstance(d, STensor) and list(d.shape) == [P, N]):
            return [("PL/dists-is-(pairs,nodes)", False)]
        dr = d.reader()
        cl = [("PL/frame-indices-and-video-paths-of-the-ground-truth-instances-in-order", list(result.get("frame_idxs")) == [10 + k for k in range(P)] and list(result.get("video_paths")) == ["video%d" % k for k in range(P)])]
        rows = []
        for p in range(P):
            g, r = gts[p].reader(), prs[p].reader()
            for n in range(N):
                miss = V.b_or(_missing(g, n), _missing(r, n))
                dx, dy = V.f_sub(r([n, 0]), g([n, 0])), V.f_sub(r([n, 1]), g([n, 1]))
                sq = V.f_add(V.f_mul(dx, dx), V.f_mul(dy, dy))
                v = dr([p, n])
                rows.append(V.b_and(V.b_iff(V.f_isnan(v), miss), V.b_implies(V.b_not(miss), V.b_and(V.f_le(0.0, v), V.f_eq(V.f_mul(v, v), sq)))))
                if perfect:
                    rows.append(V.b_implies(V.b_not(_missing(g, n)), V.f_eq(v, 0.0)))
        cl.append(("PL/distance-is-the-Euclidean-distance-NaN-iff-a-keypoint-is-missing%s" % ("-zero-for-identical-predictions" if perfect else ""), V.b_and(*rows)))
        return cl


@contract
class DistanceMetrics(_Metric):
    target = EV + "Evaluator.distance_metrics"
    props = ("C16",)
    cases = ("1x1", "1x2", "2x2")
    bounded = ("distance_metrics: up to 2x2 pair x node distances (NaN = missing)",)

    def inputs(self, c, case):
        P, N = [int(x) for x in case.split("x")]
        return dict(dists=c.tensor("dists", [P, N], FLOAT, nan_ok=True, kind="numpy", lo=0.0))

    def run(self, interp, a):
        cv, obj = self.evaluator(interp, dists_dict={"dists": a["dists"], "frame_idxs": [], "video_paths": []})
        m, _ = cv.lookup("distance_metrics")
        return interp.call(m, [obj], {})

    def real_call(self, ra):
        import numpy as np

        return self.real_evaluator(dists_dict={"dists": np.asarray(ra["dists"], dtype="float64"), "frame_idxs": [], "video_paths": []}).distance_metrics()

    def ensures(self, c, result, dists):
        if not isinstance(result, dict):
            return [("PL/returns-a-dict", False)]
        P, N = dists.shape
        dr = dists.reader()
        cells = [dr([p, n]) for p in range(P) for n in range(N)]
        anyv = V.b_or(*[V.b_not(V.f_isnan(x)) for x in cells])
        allzero = V.b_and(*[V.b_or(V.f_isnan(x), V.f_eq(x, 0.0)) for x in cells])
        sc = lambda k: (result[k].at([]) if isinstance(result.get(k), STensor) else result.get(k))
        cl = []
        for k in ("avg", "p50", "p75", "p90", "p95", "p99"):
            v = sc(k)
            lo = V.b_and(*[V.b_or(V.f_isnan(x), V.f_le(0.0, v)) for x in cells])
            hi = V.b_or(*[V.b_and(V.b_not(V.f_isnan(x)), V.f_le(v, x)) for x in cells])
            cl.append(("PL/%s-lies-between-0-and-the-largest-distance-(NaN-when-nothing-is-visible)" % k,
                       V.b_and(V.b_implies(anyv, V.b_and(V.b_not(V.f_isnan(v)), V.f_le(0.0, v), hi)), V.b_implies(V.b_not(anyv), V.f_isnan(v)))))
            cl.append(("PL/%s-is-zero-for-perfect-predictions" % k, V.b_implies(V.b_and(anyv, allzero), V.f_eq(v, 0.0))))
        return cl


@contract
class VisibilityMetrics(_Metric):
    target = EV + "Evaluator.visibility_metrics"
    props = ("C16",)
    cases = ("1x1", "1x2", "2x2", "2x2=")
    bounded = ("visibility_metrics: 1..2 matched pairs x 1..2 nodes",)

    def inputs(self, c, case):
        perfect = case.endswith("=")
        P, N = [int(x) for x in case.rstrip("=").split("x")]
        gts, prs = _mk_pairs(c, P, N, perfect)
        return dict(gts=gts, prs=prs, perfect=perfect)

    def run(self, interp, a):
        cv, obj = self.evaluator(interp, positive_pairs=[(GMatch(GInst(g)), GMatch(GInst(p)), 1.0) for g, p in zip(a["gts"], a["prs"])])
        m, _ = cv.lookup("visibility_metrics")
        return interp.call(m, [obj], {})

    def real_call(self, ra):
        from pyvc.concrete import to_real

        return self.real_evaluator(positive_pairs=[(to_real(GMatch(GInst(g))), to_real(GMatch(GInst(p))), 1.0) for g, p in zip(ra["gts"], ra["prs"])]).visibility_metrics()

    def ensures(self, c, result, gts, prs, perfect):
        if not isinstance(result, dict):
            return [("PL/returns-a-dict", False)]
        P, N = len(gts), gts[0].shape[0]
        g = lambda k: (result[k].at([]) if isinstance(result.get(k), STensor) else result.get(k))
        cnt = lambda conds: _isum([V.zint(V.zbool(x)) if not isinstance(x, bool) else int(x) for x in conds])
        mg = [_missing(gts[p].reader(), n) for p in range(P) for n in range(N)]
        mp = [_missing(prs[p].reader(), n) for p in range(P) for n in range(N)]
        tp = cnt([V.b_and(V.b_not(a), V.b_not(b)) for a, b in zip(mg, mp)])
        fn = cnt([V.b_and(V.b_not(a), b) for a, b in zip(mg, mp)])
        fp = cnt([V.b_and(a, V.b_not(b)) for a, b in zip(mg, mp)])
        tn = cnt([V.b_and(a, b) for a, b in zip(mg, mp)])
        cl = [("PL/confusion-counts-are-the-node-visibility-counts", V.b_and(V.i_eq(g("tp"), tp), V.i_eq(g("fp"), fp), V.i_eq(g("tn"), tn), V.i_eq(g("fn"), fn)))]
        pr_, rc_ = g("precision"), g("recall")
        cl.append(("PL/precision-and-recall-lie-in-[0,1]-or-are-NaN-when-undefined",
                   V.b_and(V.b_or(V.f_isnan(pr_), _in01(pr_)), V.b_or(V.f_isnan(rc_), _in01(rc_)), V.b_iff(V.f_isnan(pr_), V.i_eq(V.i_add(tp, fp), 0)), V.b_iff(V.f_isnan(rc_), V.i_eq(V.i_add(tp, fn), 0)))))
        if perfect:
            cl.append(("PL/identical-predictions:precision-and-recall-1-when-anything-is-visible", V.b_implies(V.i_lt(0, tp), V.b_and(V.f_eq(pr_, 1.0), V.f_eq(rc_, 1.0)))))
        return cl


def _isum(xs):
    acc = 0
    for x in xs:
        acc = V.i_add(acc, x)
    return acc
