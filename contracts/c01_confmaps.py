"""C01 -- confidence-map training targets (sleap_nn/data/confidence_maps.py, utils.py)."""
import z3

from pyvc import values as V, tensor as T
from pyvc.contracts import Contract, Invariant, contract, invariant, Forall
from pyvc.tensor import FLOAT, INT, STensor

from .common import gaussian, grid_len, sqdist, in_unit_interval, finite, exists_below, forall_below


@contract
class MakeGridVectors(Contract):
    target = "sleap_nn.data.utils.make_grid_vectors"
    props = ("C01", "C05")
    dims = ("H", "W", "stride")
    dim_ranges = {"stride": (1, 3)}

    def inputs(self, c, case):
        return dict(image_height=c.dim("H"), image_width=c.dim("W"), output_stride=c.int("stride", lo=1))

    def requires(self, c, image_height, image_width, output_stride=1):
        return [("stride>=1", V.i_le(1, output_stride)), ("H>=0", V.i_le(0, image_height)), ("W>=0", V.i_le(0, image_width))]

    def spec(self, c, image_height, image_width, output_stride=1):
        s = output_stride
        xv = T.from_fn([grid_len(image_width, s)], FLOAT, lambda idx: T.cast_scalar(V.i_mul(idx[0], s), FLOAT))
        yv = T.from_fn([grid_len(image_height, s)], FLOAT, lambda idx: T.cast_scalar(V.i_mul(idx[0], s), FLOAT))
        return (xv, yv)


def _conf_inputs(c, rank4=False, multi=False):
    S = 1 if multi else c.dim("S")
    N = c.dim("N")
    shape = [S, c.dim("I"), N, 2] if (rank4 or multi) else [S, N, 2]
    pts = c.tensor("points", shape, FLOAT, nan_ok=True)
    return pts


@contract
class MakeConfmaps(Contract):
    rand_ranges = {"S": (1, 2), "N": (1, 3), "Hg": (2, 8), "Wg": (2, 8), "sigma": (0.6, 3.0), "points": (-2.0, 9.0), "xv": (0.0, 8.0), "yv": (0.0, 8.0)}
    target = "sleap_nn.data.confidence_maps.make_confmaps"
    props = ("C01", "C18", "C11")
    dims = ("S", "N", "Hg", "Wg")

    def inputs(self, c, case):
        S, N = c.dim("S"), c.dim("N")
        sigma = c.real("sigma")
        return dict(
            points_batch=c.tensor("points", [S, N, 2], FLOAT, nan_ok=True),
            xv=c.tensor("xv", [c.dim("Wg")], FLOAT, nan_ok=False),
            yv=c.tensor("yv", [c.dim("Hg")], FLOAT, nan_ok=False),
            sigma=sigma,
        )

    def requires(self, c, points_batch, xv, yv, sigma):
        ok = [("rank3", points_batch.rank == 3 and xv.rank == 1 and yv.rank == 1)]
        if points_batch.rank == 3:
            ok.append(("xy", V.i_eq(points_batch.shape[2], 2)))
        ok.append(("sigma>0", V.f_lt(0.0, sigma)))
        return ok

    def spec(self, c, points_batch, xv, yv, sigma):
        S, N = points_batch.shape[0], points_batch.shape[1]
        p, gx, gy = points_batch.reader(), xv.reader(), yv.reader()

        def fn(idx):
            s, n, i, j = idx
            return gaussian(gx([j]), gy([i]), p([s, n, 0]), p([s, n, 1]), sigma)

        return T.from_fn([S, N, yv.shape[0], xv.shape[0]], FLOAT, fn)


def multi_clauses(out, pts, gx, gy, sigma, k):
    """out[0,n,i,j] == max(0, max_{m<k} gaussian(point (m,n)))  -- stated without a max
    operator: (lower) >= 0, (upper) >= every term, (attained) equals 0 or one term."""
    N = pts.shape[2]
    p = pts.reader()
    o = out.reader()

    def g(m, n, i, j):
        return gaussian(gx(j), gy(i), p([0, m, n, 0]), p([0, m, n, 1]), sigma)

    def lower(n, i, j):
        v = o([0, n, i, j])
        return V.b_and(V.f_le(0.0, v), V.f_le(v, 1.0))

    def upper(n, i, j):
        v = o([0, n, i, j])
        return forall_below(k, lambda m: V.f_le(g(m, n, i, j), v))

    def attained(n, i, j):
        v = o([0, n, i, j])
        return V.b_or(V.f_same(v, 0.0), exists_below(k, lambda m: V.f_same(v, g(m, n, i, j))))

    sh = [N, out.shape[2], out.shape[3]]
    return [("range", Forall(sh, lower)), ("upper", Forall(sh, upper)), ("attained", Forall(sh, attained))]


@contract
class MakeMultiConfmaps(Contract):
    rand_ranges = {"I": (0, 3), "N": (1, 3), "Hg": (2, 8), "Wg": (2, 8), "sigma": (0.6, 3.0), "points": (-2.0, 9.0), "xv": (0.0, 8.0), "yv": (0.0, 8.0)}
    level = "property"   # its ensures clauses are the property's "per-cell maximum over animals"
    target = "sleap_nn.data.confidence_maps.make_multi_confmaps"
    props = ("C01", "C18", "C11")
    functional = False
    dims = ("I", "N", "Hg", "Wg")

    def inputs(self, c, case):
        I, N = c.dim("I"), c.dim("N")
        return dict(
            points_batch=c.tensor("points", [1, I, N, 2], FLOAT, nan_ok=True),
            xv=c.tensor("xv", [c.dim("Wg")], FLOAT, nan_ok=False),
            yv=c.tensor("yv", [c.dim("Hg")], FLOAT, nan_ok=False),
            sigma=c.real("sigma"),
        )

    def requires(self, c, points_batch, xv, yv, sigma):
        # derived from the code: with more than one sample the loop broadcasts every
        # sample's instances into every sample's map; all call sites pass one sample.
        ok = [("rank4", points_batch.rank == 4 and xv.rank == 1 and yv.rank == 1)]
        if points_batch.rank == 4:
            ok.append(("one-sample", V.i_eq(points_batch.shape[0], 1)))
            ok.append(("xy", V.i_eq(points_batch.shape[3], 2)))
        ok.append(("sigma>0", V.f_lt(0.0, sigma)))
        return ok

    def ensures(self, c, result, points_batch, xv, yv, sigma):
        if not isinstance(result, STensor) or result.rank != 4:
            return [("is-rank4-tensor", False)]
        gx, gy = xv.reader(), yv.reader()
        cl = [("shape", V.b_and(V.i_eq(result.shape[0], 1), V.i_eq(result.shape[1], points_batch.shape[2]),
                                 V.i_eq(result.shape[2], yv.shape[0]), V.i_eq(result.shape[3], xv.shape[0])))]
        cl += multi_clauses(result, points_batch, lambda j: gx([j]), lambda i: gy([i]), sigma, points_batch.shape[1])
        return cl

    def post(self, c, points_batch, xv, yv, sigma):
        from pyvc.contracts import assume_clause

        out = T.sym_tensor(V.fresh_name("mcm"), [1, points_batch.shape[2], yv.shape[0], xv.shape[0]], FLOAT, nan_ok=True)
        gx, gy = xv.reader(), yv.reader()
        for name, cl in multi_clauses(out, points_batch, lambda j: gx([j]), lambda i: gy([i]), sigma, points_batch.shape[1]):
            assume_clause(c.path, cl)
        return out


@invariant
class MakeMultiConfmapsLoop(Invariant):
    target = "sleap_nn.data.confidence_maps.make_multi_confmaps"
    ordinal = 0

    def inv(self, c, k, n, env):
        cms, pts = env["cms"], env["points_batch"]
        gx, gy = env["xv"].reader(), env["yv"].reader()
        return multi_clauses(cms, pts, lambda j: gx([j]), lambda i: gy([i]), env["sigma"], k)


RAND = {"S": (1, 2), "I": (0, 3), "N": (1, 3), "H": (4, 12), "W": (4, 12), "Hg": (2, 8), "Wg": (2, 8), "stride": (1, 3), "sigma": (0.6, 3.0),
        "points": (-2.0, 11.0), "instance": (-2.0, 11.0), "instances": (-2.0, 11.0), "xv": (0.0, 8.0), "yv": (0.0, 8.0), "num_instances": (0, 4)}


class _GenBase(Contract):
    level = "property"
    props = ("C01", "C11")
    dims = ("S", "I", "N", "H", "W", "stride")
    dim_ranges = {"stride": (1, 3)}
    rand_ranges = RAND


@contract
class GenerateConfmaps(_GenBase):
    """Property-level: C01 for the single-instance / centred-instance variant."""

    target = "sleap_nn.data.confidence_maps.generate_confmaps"
    cases = ("rank3", "rank4")

    def inputs(self, c, case):
        S, N = c.dim("S"), c.dim("N")
        shape = [S, N, 2] if case == "rank3" else [S, c.dim("I"), N, 2]
        return dict(
            instance=c.tensor("instance", shape, FLOAT, nan_ok=True),
            img_hw=(c.dim("H"), c.dim("W")),
            sigma=c.real("sigma"),
            output_stride=c.int("stride", lo=1),
        )

    def requires(self, c, instance, img_hw, sigma=1.5, output_stride=2):
        ok = [("sigma>0", V.f_lt(0.0, sigma)), ("stride>=1", V.i_le(1, output_stride)),
              ("H>=0", V.i_le(0, img_hw[0])), ("W>=0", V.i_le(0, img_hw[1]))]
        if instance.rank not in (3, 4):
            ok.append(("rank", False))
        else:
            ok.append(("xy", V.i_eq(instance.shape[-1], 2)))
        if instance.rank == 4:
            # domain: at least one sample.  The batch axis is not in the property's quantifier
            # (every call site passes exactly one sample); with zero samples the rank-4 branch's
            # view(n, -1, 2) is ambiguous and torch raises.
            ok.append(("samples>=1", V.i_le(1, instance.shape[0])))
        return ok

    def spec(self, c, instance, img_hw, sigma=1.5, output_stride=2):
        H, W = img_hw
        s = output_stride
        S = instance.shape[0]
        p = instance.reader()
        if instance.rank == 3:
            NN = instance.shape[1]
            kp = lambda s_, m, xy: p([s_, m, xy])
        else:
            I, N = instance.shape[1], instance.shape[2]
            NN = V.i_mul(I, N)
            kp = lambda s_, m, xy: p([s_, V.i_floordiv(m, N), V.i_mod(m, N), xy])
        sg = V.f_mul(sigma, s)

        def fn(idx):
            b, m, i, j = idx
            return gaussian(T.cast_scalar(V.i_mul(j, s), FLOAT), T.cast_scalar(V.i_mul(i, s), FLOAT), kp(b, m, 0), kp(b, m, 1), sg)

        return T.from_fn([S, NN, grid_len(H, s), grid_len(W, s)], FLOAT, fn)

    def ensures(self, c, result, instance, img_hw, sigma=1.5, output_stride=2):
        if not isinstance(result, STensor) or result.rank != 4:
            return [("is-rank4-tensor", False)]
        r = result.reader()
        H, W = img_hw
        s = output_stride
        out = [
            ("PL/in[0,1]-finite", Forall(result.shape, lambda b, m, i, j: V.b_and(in_unit_interval(r([b, m, i, j])), finite(r([b, m, i, j]))))),
            ("PL/shape-H/stride-when-divisible", V.b_implies(V.b_and(V.i_eq(V.i_mod(H, s), 0), V.i_eq(V.i_mod(W, s), 0)),
                                                              V.b_and(V.i_eq(result.shape[2], V.i_floordiv(H, s)), V.i_eq(result.shape[3], V.i_floordiv(W, s))))),
        ]
        # nearest grid cell carries the largest value (monotone in the distance)
        p = instance.reader()
        if instance.rank == 3:
            kp = lambda b, m, xy: p([b, m, xy])
        else:
            N = instance.shape[2]
            kp = lambda b, m, xy: p([b, V.i_floordiv(m, N), V.i_mod(m, N), xy])

        def nearest(b, m, i, j, i2, j2):
            x, y = kp(b, m, 0), kp(b, m, 1)
            vis = V.b_and(V.b_not(V.f_isnan(x)), V.b_not(V.f_isnan(y)))
            f = lambda a: T.cast_scalar(V.i_mul(a, s), FLOAT)
            d1 = sqdist(f(j), f(i), x, y)
            d2 = sqdist(f(j2), f(i2), x, y)
            return V.b_implies(V.b_and(vis, V.f_le(d1, d2)), V.f_le(r([b, m, i2, j2]), r([b, m, i, j])))

        sh = result.shape
        out.append(("PL/largest-at-nearest-cell", Forall([sh[0], sh[1], sh[2], sh[3], sh[2], sh[3]], nearest)))

        def missing(b, m, i, j):
            x, y = kp(b, m, 0), kp(b, m, 1)
            return V.b_implies(V.b_or(V.f_isnan(x), V.f_isnan(y)), V.f_same(r([b, m, i, j]), 0.0))

        out.append(("PL/missing-keypoint-zero-channel", Forall(sh, missing)))
        return out


@contract
class GenerateMulticonfmaps(_GenBase):
    """Property-level: C01 for the multi-instance and centroid variants."""

    target = "sleap_nn.data.confidence_maps.generate_multiconfmaps"
    cases = ("instances", "centroids")
    functional = False

    def inputs(self, c, case):
        I, N = c.dim("I"), c.dim("N")
        cent = case == "centroids"
        shape = [1, I, 2] if cent else [1, I, N, 2]
        return dict(
            instances=c.tensor("instances", shape, FLOAT, nan_ok=True),
            img_hw=(c.dim("H"), c.dim("W")),
            num_instances=c.int("num_instances", lo=0),
            sigma=c.real("sigma"),
            output_stride=c.int("stride", lo=1),
            is_centroids=cent,
        )

    def requires(self, c, instances, img_hw, num_instances, sigma=1.5, output_stride=2, is_centroids=False):
        ok = [("sigma>0", V.f_lt(0.0, sigma)), ("stride>=1", V.i_le(1, output_stride)),
              ("H>=0", V.i_le(0, img_hw[0])), ("W>=0", V.i_le(0, img_hw[1])), ("num_instances>=0", V.i_le(0, num_instances)),
              ("one-sample", V.i_eq(instances.shape[0], 1)), ("xy", V.i_eq(instances.shape[-1], 2)),
              ("rank", instances.rank == (3 if is_centroids else 4))]
        return ok

    def _clauses(self, out, instances, img_hw, num_instances, sigma, s, is_centroids):
        p = instances.reader()
        I = instances.shape[1]
        k = V.simplify_scalar(V.i_min(num_instances, I))
        if is_centroids:
            N = 1
            kp = lambda m, n, xy: p([0, m, xy])
        else:
            N = instances.shape[2]
            kp = lambda m, n, xy: p([0, m, n, xy])
        sg = V.f_mul(sigma, s)
        o = out.reader()
        f = lambda a: T.cast_scalar(V.i_mul(a, s), FLOAT)

        def g(m, n, i, j):
            return gaussian(f(j), f(i), kp(m, n, 0), kp(m, n, 1), sg)

        def rng(n, i, j):
            v = o([0, n, i, j])
            return V.b_and(in_unit_interval(v), finite(v))

        def upper(n, i, j):
            v = o([0, n, i, j])
            return forall_below(k, lambda m: V.f_le(g(m, n, i, j), v))

        def attained(n, i, j):
            v = o([0, n, i, j])
            return V.b_or(V.f_same(v, 0.0), exists_below(k, lambda m: V.f_same(v, g(m, n, i, j))))

        H, W = img_hw
        sh = [N, grid_len(H, s), grid_len(W, s)]
        return N, sh, [("PL/in[0,1]-finite", Forall(sh, rng)),
                       ("PL/cell-max-over-animals/upper", Forall(sh, upper)),
                       ("PL/cell-max-over-animals/attained", Forall(sh, attained))]

    def ensures(self, c, result, instances, img_hw, num_instances, sigma=1.5, output_stride=2, is_centroids=False):
        if not isinstance(result, STensor) or result.rank != 4:
            return [("is-rank4-tensor", False)]
        N, sh, cl = self._clauses(result, instances, img_hw, num_instances, sigma, output_stride, is_centroids)
        shape = ("PL/shape", V.b_and(V.i_eq(result.shape[0], 1), V.i_eq(result.shape[1], N),
                                      V.i_eq(result.shape[2], sh[1]), V.i_eq(result.shape[3], sh[2])))
        return [shape] + cl

    def post(self, c, instances, img_hw, num_instances, sigma=1.5, output_stride=2, is_centroids=False):
        from pyvc.contracts import assume_clause

        N, sh, _ = self._clauses(T.full([1, 1, 1, 1], 0.0), instances, img_hw, num_instances, sigma, output_stride, is_centroids)
        out = T.sym_tensor(V.fresh_name("gmc"), [1] + sh, FLOAT, nan_ok=True)
        _, _, cl = self._clauses(out, instances, img_hw, num_instances, sigma, output_stride, is_centroids)
        for name, x in cl:
            assume_clause(c.path, x)
        return out
