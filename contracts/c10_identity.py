"""C10 -- well-separated animals keep their identity across frames
(sleap_nn/tracking/tracker.py, candidates/*.py).

BOUNDED, on top of the C09 harness: the real Tracker is driven from its initial state through
every admissible scene of up to 2 animals over up to 3 frames (window 1) / 4 frames (window 2)
-- every presence pattern the property allows (a new animal only appears while all previously
seen animals are detected; absences shorter than the window), every order of the detections
within a frame -- for both candidate methods and both matching algorithms.  "Far apart
compared with how far they move" is formalised on the association scores the (abstracted)
feature/scoring functions return: every same-animal score is at least `hi`, every
different-animal score at most `lo`, lo < hi (both symbolic)."""
import itertools

from pyvc import values as V
from pyvc.contracts import Contract, contract
from contracts.c09_tracking import GhostDetection, GhostFeature, ghost_feature_method, CONFIGS


class SeparatedScoring:
    """Association score of two features: >= hi for the same animal, <= lo otherwise."""

    __pyvc_lib__ = True

    def __init__(self, c, lo, hi):
        self.c, self.lo, self.hi, self.n = c, lo, hi, 0

    def __call__(self, a, b):
        self.n += 1
        v = self.c.real("assoc_%d" % self.n)
        same = a.det.animal == b.det.animal
        if not self.c.symbolic:
            # concrete (replay / random search) side: clamp into the assumed range
            return max(float(v), float(self.hi)) if same else min(float(v), float(self.lo))
        if same:
            self.c.assume(V.f_le(self.hi, v))
        else:
            self.c.assume(V.f_le(v, self.lo))
        return v


def _admissible(frames, window):
    seen, last = set(), {}
    for f, fr in enumerate(frames):
        for a in fr:
            if a not in seen and not seen <= set(fr):
                return False          # a newcomer while a known animal is undetected
            if a in last and f - last[a] > window:
                return False          # re-detected after an absence of `window` frames or more
        for a in fr:
            seen.add(a)
            last[a] = f
    return bool(seen)


def _scenes(F, K, window):
    per_frame = [p for r in range(K + 1) for s in itertools.combinations(range(K), r) for p in itertools.permutations(s)]
    out = []
    for frames in itertools.product(per_frame, repeat=F):
        if frames[0] and _admissible(frames, window) and any(len(set(x for fr in frames for x in fr)) > 0 for _ in [0]):
            out.append("-".join("".join(map(str, fr)) or "_" for fr in frames))
    return out


def _cases(F, K, window, greedy_max_F=2):
    out = []
    for cand, match in CONFIGS:
        if match == "greedy" and F > greedy_max_F:
            continue
        for sc in _scenes(F, K, window):
            out.append("%s|%s|w%d|%s" % (cand, match, window, sc))
    return tuple(out)


@contract
class IdentityContinuity(Contract):
    target = "sleap_nn.tracking.tracker.Tracker.track#identity"
    props = ("C10",)
    level = "property"
    functional = False
    pure = False
    no_crosscheck = True
    dims = ()
    always_inline = ("sleap_nn.tracking.tracker.Tracker.track",)
    cases = _cases(2, 2, 1) + _cases(3, 2, 1)
    thorough_cases = cases + _cases(3, 2, 2) + tuple(c for c in _cases(4, 2, 2) if "hungarian" in c)
    rand_ranges = {"instance_score_threshold": (0.0, 0.3)}
    bounded = ("scenes of up to 2 animals over up to 3 frames with window 1 (thorough: window 2, 4 frames for Hungarian) from the initial tracker state; every admissible presence pattern "
               "and detection order; separation formalised on the association scores (same animal >= hi > lo >= different animal); bounded stand-in, not an unbounded proof",)
    not_decided = ("the real feature/scoring functions (keypoints+oks, centroids+euclidean, bboxes+iou): 'far apart compared with how far they move' is assumed to yield separated association scores",
                   "more than 2 animals, longer histories, larger windows")

    def inputs(self, c, case):
        cand, match, w, scene = case.split("|")
        frames = []
        for f, s in enumerate(scene.split("-")):
            dets = []
            for k, ch in enumerate("" if s == "_" else s):
                d = GhostDetection(c, f, k)
                d.animal = int(ch)
                dets.append(d)
            frames.append(dets)
        thr = c.real("instance_score_threshold")
        for fr in frames:
            for d in fr:
                c.assume(V.f_lt(thr, d.score))     # every detection is confident enough to be tracked
        lo, hi = c.real("lo"), c.real("hi")
        c.assume(V.f_lt(lo, hi))
        return dict(cand=cand, match=match, window=int(w[1:]), frames=frames, thr=thr, scoring=SeparatedScoring(c, lo, hi))

    def run(self, interp, args):
        cv = interp.resolve_dotted("sleap_nn.tracking.tracker.Tracker")
        fc, _ = cv.lookup("from_config")
        tracker = interp.call(fc, [cv], dict(window_size=args["window"], instance_score_threshold=args["thr"], candidates_method=args["cand"],
                                             features="keypoints", scoring_method="oks", scoring_reduction="mean", track_matching_method=args["match"]))
        tracker.attrs["_feature_methods"] = {"keypoints": ghost_feature_method}
        tracker.attrs["_scoring_functions"] = {"oks": args["scoring"]}
        tracker.attrs["_track_objects"] = {}
        m, _ = cv.lookup("track")
        return [interp.call(m, [tracker, list(dets), f], {}) for f, dets in enumerate(args["frames"])]

    def real_call(self, ra):
        from sleap_nn.tracking.tracker import Tracker

        t = Tracker.from_config(window_size=ra["window"], instance_score_threshold=ra["thr"], candidates_method=ra["cand"],
                                features="keypoints", scoring_method="oks", scoring_reduction="mean", track_matching_method=ra["match"])
        t._feature_methods = {"keypoints": ghost_feature_method}
        t._scoring_functions = {"oks": ra["scoring"]}
        t._track_objects = {}
        return [t.track(list(dets), f) for f, dets in enumerate(ra["frames"])]

    def ensures(self, c, result, cand, match, window, frames, thr, scoring):
        ids = {}
        ok_tracked = True
        for f, dets in enumerate(frames):
            for d in dets:
                tr = getattr(d, "track", None)
                if tr is None:
                    ok_tracked = False
                    continue
                ids.setdefault(d.animal, []).append((f, str(tr.name)))
        out = [("PL/every-detection-is-tracked", ok_tracked)]
        for a, lst in sorted(ids.items()):
            out.append(("PL/animal%d-keeps-one-identity-on-every-frame-it-is-detected" % a, len(set(n for _, n in lst)) == 1))
        names = {a: set(n for _, n in lst) for a, lst in ids.items()}
        out.append(("PL/no-two-animals-ever-hold-the-same-identity", all(not (names[a] & names[b]) for a in names for b in names if a < b)))
        return out
