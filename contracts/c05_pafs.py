"""C05 -- part-affinity-field targets (sleap_nn/data/edge_maps.py)."""
import z3

from pyvc import values as V, tensor as T
from pyvc.contracts import Contract, Invariant, contract, invariant, Forall
from pyvc.ghost import FoldSum, get_ghost
from pyvc.tensor import FLOAT, INT, BOOL, STensor

from .common import grid_len


# ----------------------------------------------------------------------------- spec functions


def _sym(*xs):
    return any(V.is_symbolic(x) for x in xs)


def _strip(x):
    """The real value of a float term, dropping its NaN/inf flags (symbolic mode only)."""
    return V.finite_real(V.sfloat(x).val)


def _anynan(*xs):
    return V.b_or(*[V.f_isnan(x) for x in xs])


def sumsq(a, b):
    return V.f_add(V.f_add(0.0, V.f_mul(a, a)), V.f_mul(b, b))


def seg_dist2_raw(px, py, sx, sy, ex, ey):
    """The code's `distance_to_edge` formula: squared distance from p to
    s + clamp(t,0,1)*(e-s) with t = ((p-s).(e-s)) / max(|e-s|^2, 1)."""
    dx, dy = V.f_sub(ex, sx), V.f_sub(ey, sy)
    L = V.f_max(sumsq(dx, dy), 1.0)
    rx, ry = V.f_sub(px, sx), V.f_sub(py, sy)
    t = V.f_div(V.f_add(V.f_add(0.0, V.f_mul(rx, dx)), V.f_mul(ry, dy)), L)
    t = V.f_clamp(t, 0, 1)
    ax, ay = V.f_sub(V.f_mul(t, dx), rx), V.f_sub(V.f_mul(t, dy), ry)
    return sumsq(ax, ay)


def seg_dist2(px, py, sx, sy, ex, ey):
    """Clean form: NaN exactly when a coordinate is NaN, otherwise the real formula."""
    if not _sym(px, py, sx, sy, ex, ey):
        return seg_dist2_raw(px, py, sx, sy, ex, ey)
    v = seg_dist2_raw(*[_strip(x) for x in (px, py, sx, sy, ex, ey)])
    return V.SFloat(_anynan(px, py, sx, sy, ex, ey), False, v.val)


def weight_arg(D, sigma):
    return V.f_div(V.f_neg(V.f_mul(D, D)), V.f_mul(2, V.f_mul(sigma, sigma)))


def edge_weight(px, py, sx, sy, ex, ey, sigma):
    """gaussian_pdf(distance_to_edge(...), sigma) = exp(-(D^2) / (2 sigma^2))."""
    D = seg_dist2(px, py, sx, sy, ex, ey)
    return V.f_exp(weight_arg(D, sigma))


def paf_value(c, px, py, sx, sy, ex, ey, sigma, comp):
    """One animal's PAF component: weight * (e-s)_comp / |e-s|; NaN exactly when an endpoint
    is missing or the edge has zero length (0/0)."""
    dx, dy = V.f_sub(ex, sx), V.f_sub(ey, sy)
    w = edge_weight(px, py, sx, sy, ex, ey, sigma)
    if isinstance(comp, int):
        dc = dx if comp == 0 else dy
    else:
        dc = V.f_ite(V.zbool(V.i_eq(comp, 0)), dx, dy)
    if not _sym(px, py, sx, sy, ex, ey, sigma):
        return V.f_mul(w, V.f_div(dc, V.f_sqrt(sumsq(dx, dy))))
    sdx, sdy, sdc = _strip(dx), _strip(dy), _strip(dc)
    nrm = V.f_sqrt(sumsq(sdx, sdy))
    if c is not None and c.symbolic:
        c.apply_lemma("sum-of-squares-zero", 2, lambda a, b: V.b_iff(V.f_eq(sumsq(a, b), 0.0), V.b_and(V.f_eq(a, 0.0), V.f_eq(b, 0.0))), [(sdx, sdy)])
        c.apply_lemma("sum-of-squares-nonneg", 2, lambda a, b: V.f_le(0.0, sumsq(a, b)), [(sdx, sdy)])
    bad = V.b_or(_anynan(px, py, sx, sy, ex, ey), V.b_and(V.f_eq(sdx, 0.0), V.f_eq(sdy, 0.0)))
    return V.SFloat(bad, False, _strip(w).val * (sdc.val / nrm.val))


def nan0(v):
    n = V.f_isnan(v)
    if isinstance(n, bool):
        return 0.0 if n else v
    return V.f_ite(V.zbool(n), 0.0, v)


def _with_D(lemma, D, *a):
    """Concrete (replay) evaluation of a distance lemma with the real output D in place of
    the spec value: the lemma's conclusion compares seg_dist2(...) -- replaced here by D."""
    global seg_dist2
    saved = seg_dist2
    try:
        seg_dist2 = lambda *x: D
        return lemma(*a)
    finally:
        seg_dist2 = saved


# ----------------------------------------------------------------------------- contracts


@contract
class DistanceToEdge(Contract):
    level = "property"   # carries property-level lemmas (stated on the spec, tied to the code by post/value)
    target = "sleap_nn.data.edge_maps.distance_to_edge"
    props = ("C05", "C11")
    dims = ("Hg", "Wg", "E")

    def inputs(self, c, case):
        Hg, Wg, E = c.dim("Hg"), c.dim("Wg"), c.dim("E")
        c.g = dict(t=c.real("ghost_t"), gi=c.int("ghost_i"), gj=c.int("ghost_j"), ge=c.int("ghost_e"),
                   gi2=c.int("ghost_i2"), gj2=c.int("ghost_j2"))
        return dict(
            points=c.tensor("points", [Hg, Wg, 2], FLOAT, nan_ok=False),
            edge_source=c.tensor("edge_source", [E, 2], FLOAT, nan_ok=True),
            edge_destination=c.tensor("edge_destination", [E, 2], FLOAT, nan_ok=True),
        )

    def requires(self, c, points, edge_source, edge_destination):
        ok = [("ranks", points.rank == 3 and edge_source.rank == 2 and edge_destination.rank == 2)]
        if ok[0][1]:
            ok += [("xy", V.b_and(V.i_eq(points.shape[2], 2), V.i_eq(edge_source.shape[1], 2), V.i_eq(edge_destination.shape[1], 2))),
                   ("same-edges", V.i_eq(edge_source.shape[0], edge_destination.shape[0]))]
        return ok

    def spec(self, c, points, edge_source, edge_destination):
        p, s, d = points.reader(), edge_source.reader(), edge_destination.reader()

        def fn(idx):
            i, j, e = idx
            return seg_dist2(p([i, j, 0]), p([i, j, 1]), s([e, 0]), s([e, 1]), d([e, 0]), d([e, 1]))

        return T.from_fn([points.shape[0], points.shape[1], edge_source.shape[0]], FLOAT, fn)

    def ensures(self, c, result, points, edge_source, edge_destination):
        """Property-level lemmas about the distance the weight is computed from.  Each is a
        generic real-arithmetic lemma (proved once over fresh reals) instantiated at the
        symbolic grid point / edge; stated on the spec, which `post` shows equal to the
        result."""
        if not isinstance(result, STensor) or result.rank != 3:
            return [("is-rank3", False)]
        p, s, d = points.reader(), edge_source.reader(), edge_destination.reader()
        r = (self.spec(c, points, edge_source, edge_destination) if c.symbolic else result).reader()
        g = getattr(c, "g", None)

        def nonneg(i, j, e):
            args = (p([i, j, 0]), p([i, j, 1]), s([e, 0]), s([e, 1]), d([e, 0]), d([e, 1]))
            c.apply_lemma("seg-dist-nonneg", 6, lambda *a: V.f_le(0.0, seg_dist2(*a)), [tuple(V.finite_real(V.sfloat(x).val) for x in args)])
            return V.b_or(V.f_isnan(r([i, j, e])), V.f_le(0.0, r([i, j, e])))

        out = [("PL/distance-nonnegative-or-nan", Forall(result.shape, nonneg))]
        if g is None:
            return out
        i, j, e, t = g["gi"], g["gj"], g["ge"], g["t"]
        inr = V.b_and(V.i_le(0, i), V.i_lt(i, result.shape[0]), V.i_le(0, j), V.i_lt(j, result.shape[1]), V.i_le(0, e), V.i_lt(e, result.shape[2]))
        sx, sy, ex, ey = s([e, 0]), s([e, 1]), d([e, 0]), d([e, 1])
        px, py = p([i, j, 0]), p([i, j, 1])
        vis = V.b_and(*[V.b_not(V.f_isnan(v)) for v in (sx, sy, ex, ey)])

        def lb(px, py, sx, sy, ex, ey, t):
            dx, dy = V.f_sub(ex, sx), V.f_sub(ey, sy)
            len2 = V.f_add(V.f_mul(dx, dx), V.f_mul(dy, dy))
            t01 = V.b_and(V.f_le(0.0, t), V.f_le(t, 1.0))
            qx, qy = V.f_sub(px, V.f_add(sx, V.f_mul(t, dx))), V.f_sub(py, V.f_add(sy, V.f_mul(t, dy)))
            f_t = V.f_add(V.f_mul(qx, qx), V.f_mul(qy, qy))
            return V.b_implies(V.b_and(V.f_le(1.0, len2), t01), V.f_le(seg_dist2(px, py, sx, sy, ex, ey), f_t))

        def zs(px, py, sx, sy, ex, ey, t):
            dx, dy = V.f_sub(ex, sx), V.f_sub(ey, sy)
            len2 = V.f_add(V.f_mul(dx, dx), V.f_mul(dy, dy))
            t01 = V.b_and(V.f_le(0.0, t), V.f_le(t, 1.0))
            on_seg = V.b_and(V.f_eq(px, V.f_add(sx, V.f_mul(t, dx))), V.f_eq(py, V.f_add(sy, V.f_mul(t, dy))))
            return V.b_implies(V.b_and(V.f_le(1.0, len2), t01, on_seg), V.f_eq(seg_dist2(px, py, sx, sy, ex, ey), 0.0))

        strip = lambda x: V.finite_real(V.sfloat(x).val) if c.symbolic else x
        inst = tuple(strip(x) for x in (px, py, sx, sy, ex, ey, t))
        if c.symbolic:
            c.apply_lemma("seg-dist-lower-bound", 7, lb, [inst])
            c.apply_lemma("seg-dist-zero-on-segment", 7, zs, [inst])
        # (a) D is a lower bound of the squared distance to every point s + t*(e-s), 0<=t<=1,
        #     of the segment (and is attained at the clamped projection: post/value) ...
        out.append(("PL/distance-is-min-over-segment/lower-bound", V.b_implies(V.b_and(inr, vis), lb(px, py, sx, sy, ex, ey, t)) if c.symbolic
                    else V.b_implies(V.b_and(inr, vis), _with_D(lb, r([i, j, e]), px, py, sx, sy, ex, ey, t))))
        # (b) ... and zero for a grid point lying on the segment (weight 1 there)
        out.append(("PL/zero-on-the-segment", V.b_implies(V.b_and(inr, vis), zs(px, py, sx, sy, ex, ey, t)) if c.symbolic
                    else V.b_implies(V.b_and(inr, vis), _with_D(zs, r([i, j, e]), px, py, sx, sy, ex, ey, t))))
        if not c.symbolic:
            # un-carved forms of the two clauses (no |e-s|^2 >= 1 hypothesis): only evaluated
            # when replaying the recorded witness of the known finding C05/short-edge
            def full(lemma):
                def f(px, py, sx, sy, ex, ey, t):
                    dx, dy = V.f_sub(ex, sx), V.f_sub(ey, sy)
                    len2 = V.f_add(V.f_mul(dx, dx), V.f_mul(dy, dy))
                    # force the lemma's own length hypothesis to hold, keeping its conclusion
                    return lemma(px, py, sx, sy, ex, ey, t)
                return f

            def zs_full(px, py, sx, sy, ex, ey, t, D):
                dx, dy = V.f_sub(ex, sx), V.f_sub(ey, sy)
                t01 = V.b_and(V.f_le(0.0, t), V.f_le(t, 1.0))
                on_seg = V.b_and(V.f_eq(px, V.f_add(sx, V.f_mul(t, dx))), V.f_eq(py, V.f_add(sy, V.f_mul(t, dy))))
                return V.b_implies(V.b_and(t01, on_seg), V.f_eq(D, 0.0))

            out.append(("FULL/zero-on-the-segment", V.b_implies(V.b_and(inr, vis), zs_full(px, py, sx, sy, ex, ey, t, r([i, j, e])))))
        return out

    # Carve-out of the known finding C05/short-edge: the two clauses above carry the hypothesis
    # |dst-src|^2 >= 1.  For shorter edges `max(|d|^2, 1)` makes the clamped projection differ
    # from the true one, so a grid cell on the segment gets a weight slightly below 1.
    regions = {"short-edge": "edges with |dst-src|^2 < 1"}


@contract
class MakeEdgeMaps(Contract):
    level = "property"   # carries property-level lemmas (stated on the spec, tied to the code by post/value)
    target = "sleap_nn.data.edge_maps.make_edge_maps"
    props = ("C05", "C11")
    dims = ("Hg", "Wg", "E")

    def inputs(self, c, case):
        E = c.dim("E")
        return dict(
            xv=c.tensor("xv", [c.dim("Wg")], FLOAT, nan_ok=False),
            yv=c.tensor("yv", [c.dim("Hg")], FLOAT, nan_ok=False),
            edge_source=c.tensor("edge_source", [E, 2], FLOAT, nan_ok=True),
            edge_destination=c.tensor("edge_destination", [E, 2], FLOAT, nan_ok=True),
            sigma=c.real("sigma"),
        )

    def requires(self, c, xv, yv, edge_source, edge_destination, sigma):
        ok = [("ranks", xv.rank == 1 and yv.rank == 1 and edge_source.rank == 2 and edge_destination.rank == 2)]
        if ok[0][1]:
            ok += [("xy", V.b_and(V.i_eq(edge_source.shape[1], 2), V.i_eq(edge_destination.shape[1], 2))),
                   ("same-edges", V.i_eq(edge_source.shape[0], edge_destination.shape[0]))]
        ok.append(("sigma>0", V.f_lt(0.0, sigma)))
        return ok

    def spec(self, c, xv, yv, edge_source, edge_destination, sigma):
        gx, gy, s, d = xv.reader(), yv.reader(), edge_source.reader(), edge_destination.reader()

        def fn(idx):
            i, j, e = idx
            return edge_weight(gx([j]), gy([i]), s([e, 0]), s([e, 1]), d([e, 0]), d([e, 1]), sigma)

        return T.from_fn([yv.shape[0], xv.shape[0], edge_source.shape[0]], FLOAT, fn)

    def ensures(self, c, result, xv, yv, edge_source, edge_destination, sigma):
        if not isinstance(result, STensor) or result.rank != 3:
            return [("is-rank3", False)]
        r = (self.spec(c, xv, yv, edge_source, edge_destination, sigma) if c.symbolic else result).reader()
        gx, gy, s, d = xv.reader(), yv.reader(), edge_source.reader(), edge_destination.reader()

        def rng(i, j, e):
            v = r([i, j, e])
            ends = (s([e, 0]), s([e, 1]), d([e, 0]), d([e, 1]))
            vis = V.b_and(*[V.b_not(V.f_isnan(x)) for x in ends])
            if c.symbolic:
                D = seg_dist2(gx([j]), gy([i]), *ends)
                c.apply_lemma("weight-arg-nonpositive", 2, lambda x, sg: V.b_implies(V.f_lt(0.0, sg), V.f_le(weight_arg(x, sg), 0.0)),
                              [(V.finite_real(V.sfloat(D).val), sigma)])
            return V.b_implies(vis, V.b_and(V.f_le(0.0, v), V.f_le(v, 1.0)))

        def mono(i, j, i2, j2, e):
            ends = (s([e, 0]), s([e, 1]), d([e, 0]), d([e, 1]))
            vis = V.b_and(*[V.b_not(V.f_isnan(x)) for x in ends])
            D1 = seg_dist2(gx([j]), gy([i]), *ends)
            D2 = seg_dist2(gx([j2]), gy([i2]), *ends)
            if c.symbolic:
                st = lambda x: V.finite_real(V.sfloat(x).val)
                c.apply_lemma("weight-arg-antitone", 3,
                              lambda a, b, sg: V.b_implies(V.b_and(V.f_lt(0.0, sg), V.f_le(0.0, a), V.f_le(a, b)), V.f_le(weight_arg(b, sg), weight_arg(a, sg))),
                              [(st(D1), st(D2), sigma)])
                for (pp, qq) in ((gx([j]), gy([i])), (gx([j2]), gy([i2]))):
                    c.apply_lemma("seg-dist-nonneg", 6, lambda *a: V.f_le(0.0, seg_dist2(*a)), [tuple(st(x) for x in (pp, qq) + ends)])
            # farther from the edge (in the distance the weight is computed from) => no larger weight
            return V.b_implies(V.b_and(vis, V.f_le(D1, D2)), V.f_le(r([i2, j2, e]), r([i, j, e])))

        sh = result.shape
        return [("PL/weight-in-[0,1]", Forall(result.shape, rng)),
                ("PL/weight-non-increasing-with-distance", Forall([sh[0], sh[1], sh[0], sh[1], sh[2]], mono))]


@contract
class MakePafs(Contract):
    level = "property"   # carries property-level lemmas (stated on the spec, tied to the code by post/value)
    target = "sleap_nn.data.edge_maps.make_pafs"
    props = ("C05", "C11")
    dims = ("Hg", "Wg", "E")

    inputs = MakeEdgeMaps.inputs
    requires = MakeEdgeMaps.requires

    def spec(self, c, xv, yv, edge_source, edge_destination, sigma):
        gx, gy, s, d = xv.reader(), yv.reader(), edge_source.reader(), edge_destination.reader()

        def fn(idx):
            e, comp, i, j = idx
            return paf_value(c, gx([j]), gy([i]), s([e, 0]), s([e, 1]), d([e, 0]), d([e, 1]), sigma, comp)

        return T.from_fn([edge_source.shape[0], 2, yv.shape[0], xv.shape[0]], FLOAT, fn)

    def ensures(self, c, result, xv, yv, edge_source, edge_destination, sigma):
        """Property-level lemmas on one animal's field: unit vector source->destination times
        a weight in [0,1]; NaN (later zeroed) exactly when an endpoint is missing or the edge
        has zero length."""
        if not isinstance(result, STensor) or result.rank != 4:
            return [("is-rank4", False)]
        r = (self.spec(c, xv, yv, edge_source, edge_destination, sigma) if c.symbolic else result).reader()
        gx, gy, s, d = xv.reader(), yv.reader(), edge_source.reader(), edge_destination.reader()
        strip = lambda x: V.finite_real(V.sfloat(x).val)

        def parts(e, i, j):
            sx, sy, ex, ey = s([e, 0]), s([e, 1]), d([e, 0]), d([e, 1])
            vis = V.b_and(*[V.b_not(V.f_isnan(x)) for x in (sx, sy, ex, ey)])
            dx, dy = V.f_sub(ex, sx), V.f_sub(ey, sy)
            zero_len = V.b_and(V.f_eq(dx, 0.0), V.f_eq(dy, 0.0))
            return sx, sy, ex, ey, vis, dx, dy, zero_len

        def degenerate(e, i, j):
            sx, sy, ex, ey, vis, dx, dy, zero_len = parts(e, i, j)
            bad = V.b_or(V.b_not(vis), zero_len)
            return V.b_and(V.b_iff(bad, V.f_isnan(r([e, 0, i, j]))), V.b_iff(bad, V.f_isnan(r([e, 1, i, j]))))

        def direction(e, i, j):
            sx, sy, ex, ey, vis, dx, dy, zero_len = parts(e, i, j)
            w = edge_weight(gx([j]), gy([i]), sx, sy, ex, ey, sigma)
            vx, vy = r([e, 0, i, j]), r([e, 1, i, j])
            if c.symbolic:
                D = seg_dist2(gx([j]), gy([i]), sx, sy, ex, ey)
                c.apply_lemma("weight-arg-nonpositive", 2, lambda x, sg: V.b_implies(V.f_lt(0.0, sg), V.f_le(weight_arg(x, sg), 0.0)),
                              [(strip(D), sigma)])
                nrm = V.f_sqrt(sumsq(strip(dx), strip(dy)))

                def dirlem(w_, dx_, dy_, n_):
                    R = V.finite_real
                    vx_, vy_ = R(w_.val * (dx_.val / n_.val)), R(w_.val * (dy_.val / n_.val))
                    hyp = V.b_and(V.f_lt(0.0, n_), V.f_eq(V.f_mul(n_, n_), sumsq(dx_, dy_)), V.f_le(0.0, w_))
                    return V.b_implies(hyp, V.b_and(V.f_eq(V.f_mul(vx_, dy_), V.f_mul(vy_, dx_)),
                                                    V.f_le(0.0, V.f_add(V.f_mul(vx_, dx_), V.f_mul(vy_, dy_))),
                                                    V.f_eq(V.f_add(V.f_mul(vx_, vx_), V.f_mul(vy_, vy_)), V.f_mul(w_, w_))))

                c.apply_lemma("unit-vector-times-weight", 4, dirlem, [(strip(w), strip(dx), strip(dy), strip(nrm))])
            # (vx, vy) = w * u with |u| = 1 and u parallel to (dx, dy), same sense:
            #   vx*dy == vy*dx,  vx*dx + vy*dy >= 0,  vx^2 + vy^2 == w^2
            par = V.f_eq(V.f_mul(vx, dy), V.f_mul(vy, dx))
            sense = V.f_le(0.0, V.f_add(V.f_mul(vx, dx), V.f_mul(vy, dy)))
            mag = V.f_eq(V.f_add(V.f_mul(vx, vx), V.f_mul(vy, vy)), V.f_mul(w, w))
            return V.b_implies(V.b_and(vis, V.b_not(zero_len)), V.b_and(par, sense, mag, V.f_le(0.0, w), V.f_le(w, 1.0)))

        sh = [result.shape[0], result.shape[2], result.shape[3]]
        return [("PL/nan-iff-missing-endpoint-or-zero-length", Forall(sh, degenerate)),
                ("PL/unit-vector-times-weight", Forall(sh, direction))]


def paf_fold(c, xv, yv, edge_sources, edge_destinations, sigma, n):
    """Ghost: F(k; e,c,i,j) = sum over the first k instances of nan0(one-animal field)."""
    gx, gy, s, d = xv.reader(), yv.reader(), edge_sources.reader(), edge_destinations.reader()

    def term(k, idx):
        e, comp, i, j = idx
        v = paf_value(c, gx([j]), gy([i]), s([k, e, 0]), s([k, e, 1]), d([k, e, 0]), d([k, e, 1]), sigma, comp)
        return nan0(v)

    return get_ghost(c, "paf_fold", lambda: FoldSum("PAFSUM", n, 4, term, concrete=(not c.symbolic)))


@contract
class MakeMultiPafs(Contract):
    target = "sleap_nn.data.edge_maps.make_multi_pafs"
    props = ("C05", "C11")
    functional = False
    dims = ("Hg", "Wg", "E", "K")

    def inputs(self, c, case):
        E, K = c.dim("E"), c.dim("K")
        return dict(
            xv=c.tensor("xv", [c.dim("Wg")], FLOAT, nan_ok=False),
            yv=c.tensor("yv", [c.dim("Hg")], FLOAT, nan_ok=False),
            edge_sources=c.tensor("edge_sources", [K, E, 2], FLOAT, nan_ok=True),
            edge_destinations=c.tensor("edge_destinations", [K, E, 2], FLOAT, nan_ok=True),
            sigma=c.real("sigma"),
        )

    def requires(self, c, xv, yv, edge_sources, edge_destinations, sigma):
        ok = [("ranks", xv.rank == 1 and yv.rank == 1 and edge_sources.rank == 3 and edge_destinations.rank == 3)]
        if ok[0][1]:
            ok += [("xy", V.b_and(V.i_eq(edge_sources.shape[2], 2), V.i_eq(edge_destinations.shape[2], 2))),
                   ("same-shape", V.b_and(V.i_eq(edge_sources.shape[0], edge_destinations.shape[0]), V.i_eq(edge_sources.shape[1], edge_destinations.shape[1])))]
        ok.append(("sigma>0", V.f_lt(0.0, sigma)))
        return ok

    def ensures(self, c, result, xv, yv, edge_sources, edge_destinations, sigma):
        if not isinstance(result, STensor) or result.rank != 4:
            return [("is-rank4", False)]
        K = edge_sources.shape[0]
        F = paf_fold(c, xv, yv, edge_sources, edge_destinations, sigma, K)
        r = result.reader()
        shape = ("shape", V.b_and(V.i_eq(result.shape[0], edge_sources.shape[1]), V.i_eq(result.shape[1], 2),
                                   V.i_eq(result.shape[2], yv.shape[0]), V.i_eq(result.shape[3], xv.shape[0])))
        val = ("sum-over-instances", Forall(result.shape, lambda e, cc, i, j: V.f_same(r([e, cc, i, j]), F.at(K, [e, cc, i, j]))))
        return [shape, val]

    def post(self, c, xv, yv, edge_sources, edge_destinations, sigma):
        K = edge_sources.shape[0]
        F = paf_fold(c, xv, yv, edge_sources, edge_destinations, sigma, K)
        return T.from_fn([edge_sources.shape[1], 2, yv.shape[0], xv.shape[0]], FLOAT, lambda idx: F.at(K, idx))


@invariant
class MakeMultiPafsLoop(Invariant):
    target = "sleap_nn.data.edge_maps.make_multi_pafs"
    ordinal = 0

    def inv(self, c, k, n, env):
        F = paf_fold(c, env["xv"], env["yv"], env["edge_sources"], env["edge_destinations"], env["sigma"], n)
        pafs = env["pafs"]
        r = pafs.reader()
        return [("pafs==partial-sum", Forall(pafs.shape, lambda e, cc, i, j: V.f_same(r([e, cc, i, j]), F.at(k, [e, cc, i, j]))))]


@contract
class GetEdgePoints(Contract):
    target = "sleap_nn.data.edge_maps.get_edge_points"
    props = ("C05", "C11")
    dims = ("K", "N", "E")

    def inputs(self, c, case):
        K, N, E = c.dim("K"), c.dim("N", lo=1), c.dim("E")
        ei = c.tensor("edge_inds", [E, 2], INT)
        return dict(instances=c.tensor("instances", [K, N, 2], FLOAT, nan_ok=True), edge_inds=ei)

    def requires(self, c, instances, edge_inds):
        ok = [("ranks", instances.rank == 3 and isinstance(edge_inds, STensor) and edge_inds.rank == 2)]
        if ok[0][1]:
            N = instances.shape[1]
            er = edge_inds.reader()
            ok.append(("pairs", V.i_eq(edge_inds.shape[1], 2)))
            ok.append(("node-indices-in-range", Forall([edge_inds.shape[0], 2], lambda e, k: V.b_and(V.i_le(0, er([e, k])), V.i_lt(er([e, k]), N)))))
        return ok

    def spec(self, c, instances, edge_inds):
        p, er = instances.reader(), edge_inds.reader()
        sh = [instances.shape[0], edge_inds.shape[0], instances.shape[2]]
        return (T.from_fn(sh, FLOAT, lambda idx: p([idx[0], er([idx[1], 0]), idx[2]])),
                T.from_fn(sh, FLOAT, lambda idx: p([idx[0], er([idx[1], 1]), idx[2]])))


def exists_below(n, pred):
    """exists 0 <= q < n . pred(q)   (z3 quantifier, or a loop in concrete mode)."""
    if isinstance(n, int):
        return V.b_or(*[pred(q) for q in range(n)])
    q = z3.Int(V.fresh_name("ex"))
    return z3.Exists([q], V.zbool(V.b_and(q >= 0, V.i_lt(q, n), pred(q))))


@contract
class GeneratePafs(Contract):
    """Property-level contract for C05."""

    target = "sleap_nn.data.edge_maps.generate_pafs"
    props = ("C05", "C11", "C18")
    level = "property"
    functional = False
    cases = ("nested", "flat")
    dims = ("I", "N", "E", "H", "W", "stride")
    dim_ranges = {"stride": (1, 2), "H": (1, 3), "W": (1, 3), "N": (1, 2), "E": (0, 2), "I": (0, 2)}
    rand_ranges = {"H": (3, 10), "W": (3, 10), "N": (1, 3), "E": (0, 3), "I": (0, 3), "instances": (-2.0, 10.0), "edge_inds": (0, 2)}

    def inputs(self, c, case):
        I, N, E = c.dim("I"), c.dim("N", lo=1), c.dim("E")
        return dict(
            instances=c.tensor("instances", [1, I, N, 2], FLOAT, nan_ok=True),
            img_hw=(c.dim("H", lo=1), c.dim("W", lo=1)),
            sigma=c.real("sigma"),
            output_stride=c.int("stride", lo=1),
            edge_inds=c.tensor("edge_inds", [E, 2], INT, lo=0, hi=None),
            flatten_channels=(case == "flat"),
        )

    def requires(self, c, instances, img_hw, sigma=1.5, output_stride=2, edge_inds=None, flatten_channels=False):
        ok = [("sigma>0", V.f_lt(0.0, sigma)), ("stride>=1", V.i_le(1, output_stride)),
              ("H>=1", V.i_le(1, img_hw[0])), ("W>=1", V.i_le(1, img_hw[1])),
              ("rank4-one-sample", instances.rank == 4 and V.i_eq(instances.shape[0], 1)),
              ("xy", V.i_eq(instances.shape[3], 2)), ("edge-pairs", isinstance(edge_inds, STensor) and edge_inds.rank == 2 and V.i_eq(edge_inds.shape[1], 2))]
        if isinstance(edge_inds, STensor) and edge_inds.rank == 2:
            er = edge_inds.reader()
            N = instances.shape[2]
            ok.append(("node-indices-in-range", Forall([edge_inds.shape[0], 2], lambda e, k: V.b_and(V.i_le(0, er([e, k])), V.i_lt(er([e, k]), N)))))
        return ok

    # -- the property's reading of "which animals contribute" and "what they contribute" --
    def _pl(self, c, instances, img_hw, sigma, s, edge_inds):
        H, W = img_hw
        Hg, Wg = grid_len(H, s), grid_len(W, s)
        p, er = instances.reader(), edge_inds.reader()
        I, N, E = instances.shape[1], instances.shape[2], edge_inds.shape[0]
        xmax = T.cast_scalar(V.i_mul(V.i_sub(Wg, 1), s), FLOAT)   # xv[-1]
        ymax = T.cast_scalar(V.i_mul(V.i_sub(Hg, 1), s), FLOAT)   # yv[-1]

        def inside(a, n):
            x, y = p([0, a, n, 0]), p([0, a, n, 1])
            return V.b_and(V.f_lt(0.0, x), V.f_lt(x, xmax), V.f_lt(0.0, y), V.f_lt(y, ymax))

        def kept(a):
            return exists_below(N, lambda n: inside(a, n))

        def term(a, idx):
            e, comp, i, j = idx
            gx = T.cast_scalar(V.i_mul(j, s), FLOAT)
            gy = T.cast_scalar(V.i_mul(i, s), FLOAT)
            ns, nd = er([e, 0]), er([e, 1])
            v = paf_value(c, gx, gy, p([0, a, ns, 0]), p([0, a, ns, 1]), p([0, a, nd, 0]), p([0, a, nd, 1]), sigma, comp)
            return nan0(v)

        def masked_term(a, idx):
            k = kept(a)
            if isinstance(k, bool):
                return term(a, idx) if k else 0.0
            return V.f_ite(V.zbool(k), term(a, idx), 0.0)

        return dict(Hg=Hg, Wg=Wg, I=I, N=N, E=E, inside=inside, kept=kept, term=term, masked_term=masked_term, xmax=xmax, ymax=ymax)

    def ensures(self, c, result, instances, img_hw, sigma=1.5, output_stride=2, edge_inds=None, flatten_channels=False):
        from pyvc.ctx import Unsupported

        s = output_stride
        pl = self._pl(c, instances, img_hw, sigma, s, edge_inds)
        Hg, Wg, I, N, E = pl["Hg"], pl["Wg"], pl["I"], pl["N"], pl["E"]
        want_rank = 3 if flatten_channels else 4
        if not isinstance(result, STensor) or result.rank != want_rank:
            return [("PL/rank", False)]
        r = result.reader()
        if flatten_channels:
            shape = V.b_and(V.i_eq(result.shape[0], V.i_mul(E, 2)), V.i_eq(result.shape[1], Hg), V.i_eq(result.shape[2], Wg))
            at = lambda e, cc, i, j: r([V.i_add(V.i_mul(2, e), cc), i, j])   # channels edge0.x, edge0.y, edge1.x, ...
        else:
            shape = V.b_and(V.i_eq(result.shape[0], E), V.i_eq(result.shape[1], 2), V.i_eq(result.shape[2], Hg), V.i_eq(result.shape[3], Wg))
            at = lambda e, cc, i, j: r([e, cc, i, j])
        out = [("PL/shape-(2*edges,ceil(H/stride),ceil(W/stride))", shape)]
        idx_shape = [E, 2, Hg, Wg]
        G = FoldSum("ALLSUM", I, 4, pl["masked_term"], concrete=(not c.symbolic))
        if c.symbolic:
            F = c.path.ghosts.get("paf_fold")
            sels = c.path.ghosts.get("selections", [])
            sels = [x for x in sels if x.m == 1 and x.concrete is None]
            if F is None or len(sels) != 1:
                raise Unsupported("generate_pafs: the ghost fold-sum / animal selection of the verified structure was not found (%s, %d selections)" % (F is not None, len(sels)))
            sel = sels[0]
            Nk = sel.N
            # induction over the animals: G(a) = F(rank(a))   (sum over kept rows == masked sum)
            c.lemma("PL/sum-over-kept-animals==masked-sum-over-all/base",
                    Forall(idx_shape, lambda e, cc, i, j: V.f_same(G.at(0, [e, cc, i, j]), F.at(sel.rank_at([0]), [e, cc, i, j]))))

            def step(a, e, cc, i, j):
                idx = [e, cc, i, j]
                ra = sel.rank_at([a])
                ra1 = sel.rank_at([V.i_add(a, 1)])
                ih = V.f_same(G.at(a, idx), F.at(ra, idx))
                V.sink().add(V.zbool(G.unfold(a, idx)))
                V.sink().add(V.zbool(F.unfold(ra, idx)))
                # the code's mask for animal a is the property's `kept(a)`
                return V.b_implies(ih, V.f_same(G.at(V.i_add(a, 1), idx), F.at(ra1, idx)))

            c.lemma("PL/sum-over-kept-animals==masked-sum-over-all/step", Forall([I] + idx_shape, step),
                    then=Forall(idx_shape, lambda e, cc, i, j: V.f_same(G.at(I, [e, cc, i, j]), F.at(Nk, [e, cc, i, j]))))
        out.append(("PL/value==sum-over-animals-of-unit-vector-times-weight", Forall(idx_shape, lambda e, cc, i, j: V.f_same(at(e, cc, i, j), G.at(I, [e, cc, i, j])))))
        out.append(("PL/never-NaN-or-infinite", Forall(idx_shape, lambda e, cc, i, j: V.f_isfinite(at(e, cc, i, j)))))
        # animals wholly outside the image are dropped: kept(a) needs a node strictly inside
        p = instances.reader()
        H, W = img_hw

        def outside(a):
            def node_in_image(n):
                x, y = p([0, a, n, 0]), p([0, a, n, 1])
                return V.b_and(V.f_le(0.0, x), V.f_le(x, T.cast_scalar(W, FLOAT)), V.f_le(0.0, y), V.f_le(y, T.cast_scalar(H, FLOAT)))

            # kept(a) ==> some node lies in the closed image rectangle (contrapositive of
            # "wholly outside contributes exactly zero")
            if c.symbolic:
                c.apply_lemma("last-grid-coordinate-inside-image", 3,
                              lambda L, st, g: V.b_implies(V.b_and(V.i_le(1, L), V.i_le(1, st), V.i_eq(g, grid_len(L, st))),
                                                           V.b_and(V.i_le(1, g), V.i_lt(V.i_mul(V.i_sub(g, 1), st), L))),
                              [(W, s, Wg), (H, s, Hg)], kinds=["int", "int", "int"])
            return V.b_implies(pl["kept"](a), exists_below(N, node_in_image))

        out.append(("PL/animals-wholly-outside-the-image-contribute-zero", Forall([I], outside)))
        return out

    def post(self, c, instances, img_hw, sigma=1.5, output_stride=2, edge_inds=None, flatten_channels=False):
        s = output_stride
        pl = self._pl(c, instances, img_hw, sigma, s, edge_inds)
        G = FoldSum("ALLSUM", pl["I"], 4, pl["masked_term"], concrete=(not c.symbolic))
        E, Hg, Wg, I = pl["E"], pl["Hg"], pl["Wg"], pl["I"]
        if flatten_channels:
            return T.from_fn([V.i_mul(E, 2), Hg, Wg], FLOAT, lambda idx: G.at(I, [V.i_floordiv(idx[0], 2), V.i_mod(idx[0], 2), idx[1], idx[2]]))
        return T.from_fn([E, 2, Hg, Wg], FLOAT, lambda idx: G.at(I, idx))
