"""Spec functions shared by several contract files (pure mathematics over the engine's
symbolic scalars; evaluated concretely during replay)."""
from pyvc import values as V, tensor as T
from pyvc.tensor import FLOAT, INT, BOOL, STensor


def ceil_div(a, b):
    """ceil(a / b) for integers, b > 0."""
    return V.i_floordiv(V.i_add(a, V.i_sub(b, 1)), b)


def grid_len(size, stride):
    """len(torch.arange(0, size, stride)) = max(0, ceil(size/stride))."""
    return V.simplify_scalar(V.ite(V.i_le(size, 0), 0, ceil_div(size, stride)))


def sqdist(gx, gy, x, y):
    dx = V.f_sub(gx, x)
    dy = V.f_sub(gy, y)
    return V.f_add(V.f_mul(dx, dx), V.f_mul(dy, dy))


def gaussian(gx, gy, x, y, sigma):
    """exp(-d^2 / (2 sigma^2)) of the distance between grid point (gx,gy) and keypoint (x,y);
    0 when the keypoint is missing (either coordinate NaN)."""
    d2 = sqdist(gx, gy, x, y)
    val = V.f_exp(V.f_div(V.f_neg(d2), V.f_mul(2.0, V.f_mul(sigma, sigma))))
    missing = V.b_or(V.f_isnan(x), V.f_isnan(y))
    return V.f_ite(V.zbool(missing), 0.0, val) if not isinstance(missing, bool) else (0.0 if missing else val)


def in_unit_interval(v):
    return V.b_and(V.f_le(0.0, v), V.f_le(v, 1.0))


def finite(v):
    return V.f_isfinite(v)


import z3 as _z3


def exists_below(n, pred):
    """exists 0 <= q < n . pred(q)   (z3 quantifier, or a loop when n is concrete)."""
    n = V.simplify_scalar(n) if not isinstance(n, int) else n
    if isinstance(n, int):
        return V.b_or(*[pred(q) for q in range(n)])
    q = _z3.Int(V.fresh_name("ex"))
    return _z3.Exists([q], V.zbool(V.b_and(q >= 0, V.i_lt(q, n), pred(q))))


def forall_below(n, pred):
    n = V.simplify_scalar(n) if not isinstance(n, int) else n
    if isinstance(n, int):
        return V.b_and(*[pred(q) for q in range(n)])
    q = _z3.Int(V.fresh_name("fa"))
    return _z3.ForAll([q], V.zbool(V.b_implies(V.b_and(q >= 0, V.i_lt(q, n)), pred(q))))
