"""C14 (UNet family) -- every valid model configuration yields outputs of the contracted shape
(sleap_nn/architectures/{model,unet,encoder_decoder,common,heads,utils}.py).

The real constructors (Model.__init__, get_head, get_backbone, UNet.from_config, Encoder,
Decoder, SimpleConvBlock, SimpleUpsamplingBlock, Head.make_head, MaxPool2dWithSamePadding) are
executed for each configuration of a finite grid (the property's quantifier is a finite grid),
then the real forward() is symbolically executed TWICE on the same model object, on inputs of
different symbolic sizes  B x C x (max_stride*h) x (max_stride*w): torch.nn layers enter
through shape contracts (channel-count precondition + documented output size).  Obligations:
no layer rejects its input (channel bookkeeping of encoder/decoder/heads lines up), there is
one output per head named after it, with (parts | 2*edges) channels and spatial size
input / head stride -- on the first and on the second call (layer state such as the padding
attribute MaxPool2dWithSamePadding overwrites must not change the result)."""
import itertools

from pyvc import values as V, tensor as T
from pyvc.contracts import Contract, contract
from pyvc.ctx import Unsupported
from pyvc.tensor import FLOAT, INT, STensor

A = "sleap_nn.architectures."


class Cfg(dict):
    """OmegaConf DictConfig stand-in: mapping with attribute access (concrete values)."""

    __pyvc_native__ = True

    def __getattr__(self, k):
        try:
            return self[k]
        except KeyError:
            raise AttributeError(k)

    def __hash__(self):
        return id(self)


PARTS = ["a", "b", "c"]
EDGES = [("a", "b"), ("b", "c")]


def head_cfg(model_type, strides):
    if model_type == "single_instance":
        return Cfg(confmaps=Cfg(part_names=PARTS, sigma=1.5, output_stride=strides[0], loss_weight=1.0)), {"SingleInstanceConfmapsHead": (len(PARTS), strides[0])}
    if model_type == "centered_instance":
        return Cfg(confmaps=Cfg(part_names=PARTS, anchor_part=None, sigma=1.5, output_stride=strides[0], loss_weight=1.0)), {"CenteredInstanceConfmapsHead": (len(PARTS), strides[0])}
    if model_type == "centroid":
        return Cfg(confmaps=Cfg(anchor_part=None, sigma=1.5, output_stride=strides[0], loss_weight=1.0)), {"CentroidConfmapsHead": (1, strides[0])}
    return (Cfg(confmaps=Cfg(part_names=PARTS, sigma=1.5, output_stride=strides[0], loss_weight=1.0), pafs=Cfg(edges=EDGES, sigma=4.0, output_stride=strides[1], loss_weight=1.0)),
            {"MultiInstanceConfmapsHead": (len(PARTS), strides[0]), "PartAffinityFieldsHead": (2 * len(EDGES), strides[1])})


def _grid(max_strides, out_strides, stems, rates, convs, interps, middles, types, filters=(16,)):
    out = []
    for ms, os_, stem, rate, cv, up, mid, mt, fl in itertools.product(max_strides, out_strides, stems, rates, convs, interps, middles, types, filters):
        if os_ > ms or (stem is not None and stem >= ms):
            continue
        # head strides strictly below max_stride: carve-out of known finding C14/head-at-max-stride
        if os_ >= ms:
            continue
        heads = [(os_,)] if mt != "bottomup" else [(os_, os_), (os_, os_ * 2)] if os_ * 2 < ms else [(os_, os_)]
        for hs in heads:
            out.append("ms%d|os%d|stem%s|r%s|c%d|%s|%s|%s|h%s|f%d" % (ms, os_, stem, rate, cv, "interp" if up else "convT", "mid" if mid else "nomid", mt, "-".join(map(str, hs)), fl))
    return tuple(out)


@contract
class UNetModelShapes(Contract):
    target = A + "model.Model.forward"
    props = ("C14",)
    level = "property"
    functional = False
    pure = False
    no_crosscheck = True
    dims = ()
    rand_ranges = {"B": (1, 2), "h1": (1, 2), "w1": (1, 2), "h2": (1, 2), "w2": (1, 2), "x1": (0.0, 1.0), "x2": (0.0, 1.0)}
    # convs_per_block >= 2: carve-out of known finding C14/convs-per-block-1 (see known_findings.txt)
    cases = (_grid([16], [2], [None], [1.5, 2], [2], [True, False], [True], ["single_instance", "bottomup"])
             + _grid([8, 32], [1, 4], [None, 2], [2], [2, 3], [True, False], [True], ["centroid", "centered_instance"])[::3]
             # non-integer filter products (filters * 1.5**k): rounding in the channel bookkeeping
             + _grid([16, 32], [2], [None], [1.5], [2], [True], [True], ["single_instance", "bottomup"], filters=(8, 24, 16))
             # two and three stem blocks (stem_stride 4, 8): the stem's pooling layers on the SECOND call
             + _grid([16, 32], [2], [4, 8], [2], [2], [True, False], [True], ["single_instance", "centroid"]))
    # middle_block=True: carve-out of known finding C14/no-middle-block
    thorough_cases = _grid([8, 16, 32], [1, 2, 4], [None, 2, 4, 8], [1.5, 2], [2, 3], [True, False], [True], ["single_instance", "centroid", "centered_instance", "bottomup"], filters=(8, 16, 24))
    bounded = ("UNet family only; the configuration grid (max_stride x output_stride x stem_stride x filters_rate x convs_per_block x up_interpolate x middle_block x filters x head type/strides) is finite "
               "by the property and enumerated (quick: a sample; thorough: the full grid listed in the contract); input sizes and batch are symbolic",)
    not_decided = ("ConvNeXt and Swin-T backbones (torchvision model internals are outside the modelled library subset)",
                   "'in evaluation mode the output for a frame is deterministic and independent of the other frames in the batch': layer VALUES are not modelled (shape contracts only); "
                   "what is decided about call sequences is that a second call on a different input size still yields the contracted shapes",
                   "agreement with the shapes the data pipeline produces for the targets is by the shape clauses of C01/C05 (ceil(H/stride)); not re-proved here")

    def inputs(self, c, case):
        parts = case.split("|")
        ms, os_, stem, rate, cv, up, mid, mt, hs = parts[:9]
        filters = int(parts[9][1:]) if len(parts) > 9 else 16
        ms, os_, cv = int(ms[2:]), int(os_[2:]), int(cv[1:])
        stem = None if stem == "stemNone" else int(stem[4:])
        rate = float(rate[1:])
        strides = [int(x) for x in hs[1:].split("-")]
        in_ch = 1
        bcfg = Cfg(in_channels=in_ch, kernel_size=3, filters=filters, filters_rate=(int(rate) if rate == int(rate) else rate), max_stride=ms, stem_stride=stem, middle_block=(mid == "mid"),
                   up_interpolate=(up == "interp"), stacks=1, convs_per_block=cv, output_stride=min(strides))
        hcfg, expect = head_cfg(mt, strides)
        B = c.dim("B", lo=1)
        h1, w1, h2, w2 = c.int("h1", lo=1), c.int("w1", lo=1), c.int("h2", lo=1), c.int("w2", lo=1)
        x1 = c.tensor("x1", [B, in_ch, V.i_mul(ms, h1), V.i_mul(ms, w1)], FLOAT, nan_ok=False)
        x2 = c.tensor("x2", [B, in_ch, V.i_mul(ms, h2), V.i_mul(ms, w2)], FLOAT, nan_ok=False)
        return dict(backbone_config=bcfg, head_configs=hcfg, model_type=mt, x1=x1, x2=x2, expect=expect, in_ch=in_ch)

    def run(self, interp, a):
        cv = interp.resolve_dotted(A + "model.Model")
        model = interp.call(cv, [], dict(backbone_type="unet", backbone_config=a["backbone_config"], head_configs=a["head_configs"],
                                         input_expand_channels=a["in_ch"], model_type=a["model_type"]))
        m, _ = cv.lookup("forward")
        return [interp.call(m, [model, a["x1"]], {}), interp.call(m, [model, a["x2"]], {})]

    def real_call(self, ra):
        from omegaconf import OmegaConf
        from sleap_nn.architectures.model import Model

        plain = lambda d: {k: (plain(v) if isinstance(v, dict) else v) for k, v in d.items()}
        m = Model(backbone_type="unet", backbone_config=OmegaConf.create(plain(ra["backbone_config"])), head_configs=OmegaConf.create(plain(ra["head_configs"])),
                  input_expand_channels=ra["in_ch"], model_type=ra["model_type"]).eval()
        return [m(ra["x1"].float()), m(ra["x2"].float())]

    def ensures(self, c, result, backbone_config, head_configs, model_type, x1, x2, expect, in_ch):
        cl = []
        for k, (out, x) in enumerate(zip(result, (x1, x2))):
            tag = "call%d" % (k + 1)
            if not isinstance(out, dict):
                cl.append(("PL/%s/returns-a-dict" % tag, False))
                continue
            cl.append(("PL/%s/one-output-per-head-named-after-it" % tag, sorted(out.keys()) == sorted(expect.keys())))
            for name, (ch, stride) in expect.items():
                o = out.get(name)
                if not (isinstance(o, STensor) and o.rank == 4):
                    cl.append(("PL/%s/%s/is-a-4D-tensor" % (tag, name), False))
                    continue
                H, W = x.shape[-2], x.shape[-1]
                cl.append(("PL/%s/%s/shape-is-(batch,channels,H/stride,W/stride)" % (tag, name),
                           V.b_and(V.i_eq(o.shape[0], x.shape[0]), V.i_eq(o.shape[1], ch), V.i_eq(V.i_mul(o.shape[2], stride), H), V.i_eq(V.i_mul(o.shape[3], stride), W))))
        return cl
