"""C09 -- tracking never drops, duplicates or double-assigns detections, never crashes
(sleap_nn/tracking/tracker.py, candidates/*.py, tracking/utils.py).

BOUNDED: the real Tracker is driven from its initial state through every history of up to F
frames with up to 2 detections per frame (per-frame counts enumerated as cases); within a case
the instance scores, the threshold and all association scores are symbolic, the outcome of the
matching step is explored exhaustively (Hungarian: every optimal assignment; greedy: every
order of the symbolic costs).  Feature extraction and the scoring functions are abstracted to
arbitrary finite values of the right form (safety depends on them only through the data flow)."""
import itertools

import z3

from pyvc import values as V, tensor as T
from pyvc.contracts import Contract, contract, Forall
from pyvc.ctx import PyExc, Unsupported
from pyvc.interp import Obj
from pyvc.tensor import FLOAT, INT, BOOL, STensor


class GhostDetection:
    """A predicted instance: symbolic score; `track` / `tracking_score` are set by the tracker."""

    __pyvc_native__ = True

    def __init__(self, c, frame, k):
        self.frame, self.k = frame, k
        self.score = c.real("score_f%d_d%d" % (frame, k))
        self.track = None
        self.tracking_score = None

    def __repr__(self):
        return "<detection %d of frame %d>" % (self.k, self.frame)


class GhostFeature:
    __pyvc_native__ = True

    def __init__(self, det):
        self.det = det


def ghost_feature_method(det):
    return GhostFeature(det)


ghost_feature_method.__pyvc_lib__ = True


class GhostScoring:
    """Association score of (current feature, candidate feature): an arbitrary finite value."""

    __pyvc_lib__ = True

    def __init__(self, c):
        self.c = c
        self.n = 0

    def __call__(self, a, b):
        self.n += 1
        return self.c.real("assoc_%d" % self.n)


CONFIGS = [(cand, match) for cand in ("fixed_window", "local_queues") for match in ("hungarian", "greedy")]


def _cases(F, maxd, w=1):
    out = []
    for cand, match in CONFIGS:
        for counts in itertools.product(range(maxd + 1), repeat=F):
            if sum(counts) == 0:
                continue
            if match == "greedy" and F > 2:
                continue
            out.append("%s|%s|w%d|%s" % (cand, match, w, "-".join(map(str, counts))))
    return tuple(out)


@contract
class TrackerHistory(Contract):
    target = "sleap_nn.tracking.tracker.Tracker.track"
    props = ("C09",)
    level = "property"
    functional = False
    pure = False
    no_crosscheck = True
    max_paths = 40000       # greedy matching of 3 x 2 symbolic costs: every order of the edges
    dims = ()
    rand_ranges = {"instance_score_threshold": (0.0, 0.6)}
    # plus frames with 3 detections followed by fewer (more live tracks than detections, >= 2 detections)
    cases = _cases(2, 2) + _cases(3, 2) + tuple("%s|%s|w1|%s" % (cand, match, h) for cand, match in CONFIGS for h in ("3-2", "3-1", "2-3") if not (match == "greedy" and h != "3-1"))
    thorough_cases = cases + tuple("%s|greedy|w1|3-2" % cand for cand in ("fixed_window", "local_queues")) + _cases(2, 2, w=2) + _cases(3, 2, w=2) + tuple(c for c in _cases(4, 2, w=2) if "fixed_window" in c)
    bounded = ("histories of up to 3 frames (greedy: 2) (quick) / 4 frames with window 2 (thorough) from the initial tracker state, up to 2 detections per frame (plus the 3-2, 3-1, 2-3 histories), window sizes 1 (quick) and 2; "
               "feature and scoring functions abstracted to arbitrary finite values; reported as a bounded stand-in, not an unbounded proof",)

    def inputs(self, c, case):
        cand, match, w, counts = case.split("|")
        counts = [int(x) for x in counts.split("-")]
        frames = [[GhostDetection(c, f, k) for k in range(n)] for f, n in enumerate(counts)]
        thr = c.real("instance_score_threshold")
        return dict(cand=cand, match=match, window=int(w[1:]), frames=frames, thr=thr, scoring=GhostScoring(c))

    def run(self, interp, args):
        cv = interp.resolve_dotted("sleap_nn.tracking.tracker.Tracker")
        fc, _ = cv.lookup("from_config")
        tracker = interp.call(fc, [cv], dict(window_size=args["window"], instance_score_threshold=args["thr"], candidates_method=args["cand"],
                                             features="keypoints", scoring_method="oks", scoring_reduction="mean", track_matching_method=args["match"]))
        # abstraction of feature extraction / association scores (see module docstring)
        tracker.attrs["_feature_methods"] = {"keypoints": ghost_feature_method}
        tracker.attrs["_scoring_functions"] = {"oks": args["scoring"]}
        tracker.attrs["_track_objects"] = {}
        m, _ = cv.lookup("track")
        outs = []
        for f, dets in enumerate(args["frames"]):
            outs.append(interp.call(m, [tracker, list(dets), f], {}))
        return outs

    def real_call(self, ra):
        """(replay side) the real Tracker with the same abstraction of features / scores."""
        from sleap_nn.tracking.tracker import Tracker

        t = Tracker.from_config(window_size=ra["window"], instance_score_threshold=ra["thr"], candidates_method=ra["cand"],
                                features="keypoints", scoring_method="oks", scoring_reduction="mean", track_matching_method=ra["match"])
        t._feature_methods = {"keypoints": ghost_feature_method}
        t._scoring_functions = {"oks": ra["scoring"]}
        t._track_objects = {}
        return [t.track(list(dets), f) for f, dets in enumerate(ra["frames"])]

    def ensures(self, c, result, cand, match, window, frames, thr, scoring):
        out = []
        for f, (dets, res) in enumerate(zip(frames, result)):
            if not isinstance(res, list):
                out.append(("PL/frame%d/returns-a-list" % f, False))
                continue
            out.append(("PL/frame%d/returns-only-detections-it-was-given" % f, all(any(r is d for d in dets) for r in res)))
            out.append(("PL/frame%d/no-detection-returned-twice" % f, all(sum(1 for r in res if r is d) <= 1 for d in dets)))
            for k, d in enumerate(dets):
                inres = any(r is d for r in res)
                has_track = inres and d.track is not None
                out.append(("PL/frame%d/detection%d-above-the-new-track-threshold-is-returned-with-a-track" % (f, k),
                            V.b_implies(V.f_lt(thr, d.score), has_track)))
            tracks = [r.track for r in res if getattr(r, "track", None) is not None]
            names = [t.name for t in tracks]
            out.append(("PL/frame%d/no-two-detections-share-a-track" % f, len(set(map(str, names))) == len(names)))
        return out
