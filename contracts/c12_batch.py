"""C12 -- a frame's predictions are independent of its batch-mates and carry its indices.

Relational ("two-run") contracts: the real function is executed twice in one symbolic state,
on batch A (SA samples) and on batch B (SB samples, SB != SA allowed) where sample b of B is
sample a of A and every other sample of B is arbitrary.  The obligation is that everything the
function reports for sample a in run A equals what it reports for sample b in run B -- which
covers the batch-mates' contents, the batch size and the position within the batch at once.

The network itself enters through the assumption that in eval mode it maps each sample
independently of the rest of the batch (ghost TableNet; the layer-level side is C14)."""
import z3

from pyvc import values as V, tensor as T
from pyvc.contracts import Contract, contract, Forall
from pyvc.ctx import Unsupported
from pyvc.interp import Obj
from pyvc.tensor import FLOAT, INT, BOOL, STensor

PF = "sleap_nn.inference.peak_finding."


def _pair(c, name, SA, SB, a, b, tail, nan_ok=False, lo=None):
    """(A, B): B[b] is A[a], every other sample of B is arbitrary."""
    A = c.tensor(name + "_A", [SA] + list(tail), FLOAT, nan_ok=nan_ok, lo=lo)
    B0 = c.tensor(name + "_B", [SB] + list(tail), FLOAT, nan_ok=nan_ok, lo=lo)
    ra, rb = A.reader(), B0.reader()

    def fn(idx):
        same = V.i_eq(idx[0], b)
        if same is True:
            return ra([a] + list(idx[1:]))
        if same is False:
            return rb(list(idx))
        return V.f_ite(V.zbool(same), ra([a] + list(idx[1:])), rb(list(idx)))

    Bt = T.from_fn([SB] + list(tail), FLOAT, fn)
    return A, Bt


def _batch_dims(c):
    SA, SB = c.dim("SA", lo=1), c.dim("SB", lo=1)
    a, b = c.int("a", lo=0), c.int("b", lo=0)
    c.assume(V.i_lt(a, SA), V.i_lt(b, SB))
    return SA, SB, a, b


def _rows_equal(name, t1, t2, a, b):
    """t1[a, ...] and t2[b, ...] agree elementwise (NaN == NaN)."""
    if not (isinstance(t1, STensor) and isinstance(t2, STensor) and t1.rank == t2.rank and t1.rank >= 1):
        return [(name + "/same-kind", False)]
    tail_ok = V.b_and(*[V.i_eq(x, y) for x, y in zip(t1.shape[1:], t2.shape[1:])])
    r1, r2 = t1.reader(), t2.reader()
    cl = [(name + "/same-per-sample-shape", tail_ok)]
    cl.append((name + "/equal", Forall(list(t1.shape[1:]), lambda *ix: V.f_same(r1([a] + list(ix)), r2([b] + list(ix))) if t1.dtype == FLOAT else V.i_eq(r1([a] + list(ix)), r2([b] + list(ix))))
              if t1.rank > 1 else (V.f_same(r1([a]), r2([b])) if t1.dtype == FLOAT else V.i_eq(r1([a]), r2([b])))))
    return cl


class _TwoRun(Contract):
    level = "property"
    functional = False
    no_crosscheck = True
    first_index_tie_rule = True   # torch docs: argmax / max(dim) return the FIRST maximal index
    dims = ("SA", "SB", "C", "H", "W")
    dim_ranges = {"SA": (1, 2), "SB": (1, 2), "C": (1, 2), "H": (1, 2), "W": (1, 2)}
    # batch-mates are drawn dimmer than the frame so that mixed batches (a detected frame next
    # to an empty one) are common in the concrete search
    rand_ranges = {"SA": (1, 3), "SB": (1, 3), "a": (0, 2), "b": (0, 2), "C": (1, 2), "H": (2, 5), "W": (2, 5), "cms_A": (0.0, 1.0), "cms_B": (0.0, 0.5), "threshold": (0.2, 0.9)}


@contract
class GlobalPeaksBatchIndependence(_TwoRun):
    target = PF + "find_global_peaks#batch-independence"
    props = ("C12",)
    always_inline = (PF + "find_global_peaks", PF + "find_global_peaks_rough")
    # "integralP:C:b": integral refinement, the frame alone (batch of 1) against the frame as
    # sample b of a batch of 2, C channels -- bounded in batch/channel count like C07's
    # refinement cases; map size, values and threshold symbolic
    cases = ("rough", "none", "integral5:1:0", "integral5:1:1", "integral3:1:1")
    thorough_cases = cases + ("integral3:1:0", "integral2:1:1")
    bounded = ("the relational form of integral refinement is decided for a frame alone vs. as one of 2 samples, 1 channel, patch sizes 3 and 5 (thorough: 2); "
               "with 2 channels the 16 validity patterns x crop batches exceed the time budget and are not claimed",)
    not_decided = ("CentroidCrop.forward / _generate_crops: per-sample split of the peak list, top-k by value when max_instances is set, NaN padding and the skip of all-NaN samples "
                   "(python loops over a symbolic number of peaks; outside the verifier's subset) -- so 'the instances kept are the highest-scoring ones' is NOT decided",
                   "BottomUpInferenceModel._generate_cms_peaks / forward (split by sample index; nested tensors) and PAFScorer.predict batch glue",
                   "Predictor._predict_generator: alignment of the frame_idx / video_idx / orig_size / eff_scale lists with the image batch (consumer loop, see C13)",
                   "integral refinement in relational form (per-sample characterisations of the refined detectors are proved under C06/C07 for the listed patch sizes)",
                   "the network itself: per-sample independence of the model in eval mode is an ASSUMPTION of these contracts (ghost TableNet)")

    def inputs(self, c, case):
        if case.startswith("integral"):
            P, C, b = case[len("integral"):].split(":")
            SA, SB, a, b, C = 1, 2, 0, int(b), int(C)
            H, W = c.dim("H", lo=2), c.dim("W", lo=2)
            A, B = _pair(c, "cms", SA, SB, a, b, [C, H, W], lo=0.0)
            thr = c.real("threshold")
            c.assume(V.f_lt(0.0, thr))
            # the valid-peak mask has S*C <= 4 cells: decide them by path forks so that the rows
            # of the crop batch are concrete on every path
            c.path.concretize_masks = True
            return dict(cms_a=A, cms_b=B, a=a, b=b, threshold=thr, which="integral", patch=int(P))
        SA, SB, a, b = _batch_dims(c)
        C, H, W = c.dim("C", lo=1), c.dim("H", lo=1), c.dim("W", lo=1)
        A, B = _pair(c, "cms", SA, SB, a, b, [C, H, W])
        return dict(cms_a=A, cms_b=B, a=a, b=b, threshold=c.real("threshold"), which=case, patch=5)

    def run(self, interp, args):
        if args["which"] == "rough":
            f = interp.resolve_dotted(PF + "find_global_peaks_rough")
            kw = dict(threshold=args["threshold"])
        else:
            f = interp.resolve_dotted(PF + "find_global_peaks")
            kw = dict(threshold=args["threshold"], refinement=("integral" if args["which"] == "integral" else None), integral_patch_size=args["patch"])
        self._rough = None
        if args["which"] == "integral":
            # ghost calls: the rough detector on both batches (max/argmax of the same storage is
            # memoised, so these are the very peaks the refinement starts from); their
            # batch-independence is proved first and then available as a lemma
            fr = interp.resolve_dotted(PF + "find_global_peaks_rough")
            self._rough = (interp.call(fr, [args["cms_a"]], dict(threshold=args["threshold"])), interp.call(fr, [args["cms_b"]], dict(threshold=args["threshold"])))
        return (interp.call(f, [args["cms_a"]], dict(kw)), interp.call(f, [args["cms_b"]], dict(kw)))

    def real_call(self, ra):
        from sleap_nn.inference import peak_finding as pf

        if ra["which"] == "rough":
            return (pf.find_global_peaks_rough(ra["cms_a"], threshold=ra["threshold"]), pf.find_global_peaks_rough(ra["cms_b"], threshold=ra["threshold"]))
        kw = dict(threshold=ra["threshold"], refinement=("integral" if ra["which"] == "integral" else None), integral_patch_size=int(ra["patch"]))
        return (pf.find_global_peaks(ra["cms_a"], **kw), pf.find_global_peaks(ra["cms_b"], **kw))

    def ensures(self, c, result, cms_a, cms_b, a, b, threshold, which, patch=5):
        (p1, v1), (p2, v2) = result
        if which == "integral" and c.symbolic and getattr(self, "_rough", None):
            (rp1, rv1), (rp2, rv2) = self._rough
            for nm, cl in _rows_equal("step/rough-peak-points-do-not-depend-on-the-batch", rp1, rp2, a, b) + _rows_equal("step/rough-peak-values-do-not-depend-on-the-batch", rv1, rv2, a, b):
                c.lemma(nm, cl, then=cl, level="helper")
        return _rows_equal("PL/peak-points-of-the-frame-do-not-depend-on-its-batch", p1, p2, a, b) + \
            _rows_equal("PL/peak-values-of-the-frame-do-not-depend-on-its-batch", v1, v2, a, b)


class TableNet:
    """Ghost network for the relational contracts: returns the prepared output tensor.  The
    assumption it encodes -- in eval mode the network maps sample k of its input to sample k of
    its output independently of the other samples -- is stated by how the two tables are built
    (B's row b is A's row a)."""

    __pyvc_native__ = True

    def __init__(self, table):
        self.table = table

    def __call__(self, image):
        return self.table

    def __pyvc_getattr__(self, interp, name):
        raise Unsupported("attribute %s of the ghost network" % name)

    def __pyvc_to_real__(self):
        import torch
        from pyvc.concrete import to_real

        tab = to_real(self.table)

        class Net(torch.nn.Module):
            def forward(self, image):
                return tab

        return Net()


class _ForwardTwoRun(_TwoRun):
    rand_ranges = dict(_TwoRun.rand_ranges, N=(1, 2), Hm=(2, 5), Wm=(2, 5), net_A=(0.0, 1.0), net_B=(0.0, 1.0), eff_A=(0.5, 1.5), eff_B=(0.5, 1.5), input_scale=(0.5, 1.0),
                       peak_threshold=(0.05, 0.5), image_A=(0.0, 1.0), image_B=(0.0, 1.0), bbox_A=(0.0, 20.0), bbox_B=(0.0, 20.0))
    dims = ("SA", "SB", "N", "Hm", "Wm")
    dim_ranges = {"SA": (1, 2), "SB": (1, 2), "N": (1, 2), "Hm": (1, 2), "Wm": (1, 2)}

    def _common(self, c):
        SA, SB, a, b = _batch_dims(c)
        N, Hm, Wm = c.dim("N", lo=1), c.dim("Hm", lo=1), c.dim("Wm", lo=1)
        netA, netB = _pair(c, "net", SA, SB, a, b, [N, Hm, Wm])
        effA, effB = _pair(c, "eff", SA, SB, a, b, [])
        for e in (effA,):
            q = z3.Int("qe")
            c.fact(z3.ForAll([q], V.sfloat(e.reader()([q])).val > 0))
        q = z3.Int("qe2")
        c.fact(z3.ForAll([q], V.sfloat(effB.reader()([q])).val > 0)) if c.symbolic else None
        thr, isc = c.real("peak_threshold"), c.real("input_scale")
        c.assume(V.f_lt(0.0, isc))
        stride = c.int("output_stride", lo=1)
        return SA, SB, a, b, netA, netB, effA, effB, thr, isc, stride


@contract
class SingleInstanceBatchIndependence(_ForwardTwoRun):
    target = "sleap_nn.inference.single_instance.SingleInstanceInferenceModel.forward#batch-independence"
    props = ("C12",)
    always_inline = (PF + "find_global_peaks", PF + "find_global_peaks_rough")
    CLS = "sleap_nn.inference.single_instance.SingleInstanceInferenceModel"

    def inputs(self, c, case):
        SA, SB, a, b, netA, netB, effA, effB, thr, isc, stride = self._common(c)
        Ci, H, W = c.dim("Ci", lo=1), c.dim("Hi", lo=1), c.dim("Wi", lo=1)
        imgA, imgB = _pair(c, "image", SA, SB, a, b, [Ci, H, W])
        self._stride = stride
        return dict(a=a, b=b, runs=[dict(net=TableNet(netA), image=imgA, eff_scale=effA, tag="A"), dict(net=TableNet(netB), image=imgB, eff_scale=effB, tag="B")],
                    thr=thr, input_scale=isc, stride=stride)

    def run(self, interp, args):
        cv = interp.resolve_dotted(self.CLS)
        m, _ = cv.lookup("forward")
        outs = []
        for r in args["runs"]:
            obj = Obj(cv)
            obj.attrs.update(torch_model=r["net"], peak_threshold=args["thr"], refinement=None, integral_patch_size=5,
                             output_stride=args["stride"], return_confmaps=False, input_scale=args["input_scale"])
            outs.append(interp.call(m, [obj, {"image": r["image"], "eff_scale": r["eff_scale"], "frame_idx": "frame_idx-" + r["tag"], "video_idx": "video_idx-" + r["tag"]}], {}))
        return outs

    def real_call(self, ra):
        from sleap_nn.inference.single_instance import SingleInstanceInferenceModel

        outs = []
        for r in ra["runs"]:
            m = SingleInstanceInferenceModel(torch_model=r["net"], output_stride=int(ra["stride"]), peak_threshold=ra["thr"], refinement=None, input_scale=ra["input_scale"])
            outs.append(m.forward({"image": r["image"], "eff_scale": r["eff_scale"], "frame_idx": "frame_idx-" + r["tag"], "video_idx": "video_idx-" + r["tag"]}))
        return outs

    def ensures(self, c, result, a, b, runs, thr, input_scale, stride):
        if not (isinstance(result, list) and len(result) == 2 and all(isinstance(r, list) and len(r) == 1 and isinstance(r[0], dict) for r in result)):
            return [("PL/each-run-returns-[dict]", False)]
        o1, o2 = result[0][0], result[1][0]
        cl = [("PL/outputs-carry-the-index-tensors-of-their-own-batch",
               o1.get("frame_idx") == "frame_idx-A" and o1.get("video_idx") == "video_idx-A" and o2.get("frame_idx") == "frame_idx-B" and o2.get("video_idx") == "video_idx-B")]
        cl += _rows_equal("PL/predicted-points-of-the-frame-do-not-depend-on-its-batch", o1.get("pred_instance_peaks"), o2.get("pred_instance_peaks"), a, b)
        cl += _rows_equal("PL/predicted-values-of-the-frame-do-not-depend-on-its-batch", o1.get("pred_peak_values"), o2.get("pred_peak_values"), a, b)
        return cl


@contract
class FindInstancePeaksBatchIndependence(_ForwardTwoRun):
    target = "sleap_nn.inference.topdown.FindInstancePeaks.forward#batch-independence"
    props = ("C12",)
    always_inline = (PF + "find_global_peaks", PF + "find_global_peaks_rough")
    CLS = "sleap_nn.inference.topdown.FindInstancePeaks"
    cases = ("stride1", "padded")

    def inputs(self, c, case):
        SA, SB, a, b, netA, netB, effA, effB, thr, isc, stride = self._common(c)
        Ci, H, W = c.dim("Ci", lo=1), c.dim("Hi", lo=1), c.dim("Wi", lo=1)
        imgA, imgB = _pair(c, "image", SA, SB, a, b, [1, Ci, H, W])
        bbA, bbB = _pair(c, "bbox", SA, SB, a, b, [1, 4, 2])
        return dict(a=a, b=b, runs=[dict(net=TableNet(netA), image=imgA, eff_scale=effA, bbox=bbA, tag="A"), dict(net=TableNet(netB), image=imgB, eff_scale=effB, bbox=bbB, tag="B")],
                    thr=thr, input_scale=isc, stride=stride, max_stride=(1 if case == "stride1" else c.int("max_stride", lo=2)))

    def _inp(self, r):
        return {"instance_image": r["image"], "instance_bbox": r["bbox"], "eff_scale": r["eff_scale"], "frame_idx": "frame_idx-" + r["tag"],
                "video_idx": "video_idx-" + r["tag"], "centroid": "centroid-" + r["tag"]}

    def run(self, interp, args):
        cv = interp.resolve_dotted(self.CLS)
        m, _ = cv.lookup("forward")
        outs = []
        for r in args["runs"]:
            obj = Obj(cv)
            obj.attrs.update(torch_model=r["net"], peak_threshold=args["thr"], refinement=None, integral_patch_size=5, output_stride=args["stride"],
                             return_confmaps=False, input_scale=args["input_scale"], max_stride=args["max_stride"])
            outs.append(interp.call(m, [obj, self._inp(r)], {}))
        return outs

    def real_call(self, ra):
        from sleap_nn.inference.topdown import FindInstancePeaks

        outs = []
        for r in ra["runs"]:
            m = FindInstancePeaks(torch_model=r["net"], output_stride=int(ra["stride"]), peak_threshold=ra["thr"], refinement=None,
                                  input_scale=ra["input_scale"], max_stride=int(ra["max_stride"]))
            outs.append(m.forward(self._inp(r)))
        return outs

    def ensures(self, c, result, a, b, runs, thr, input_scale, stride, max_stride):
        if not (isinstance(result, list) and len(result) == 2 and all(isinstance(r, dict) for r in result)):
            return [("PL/each-run-returns-a-dict", False)]
        o1, o2 = result
        cl = [("PL/outputs-carry-the-index-tensors-of-their-own-batch",
               all(o.get(k) == "%s-%s" % (k, t) for o, t in ((o1, "A"), (o2, "B")) for k in ("frame_idx", "video_idx", "centroid")))]
        for key, nm in (("pred_instance_peaks", "predicted-points"), ("pred_peak_values", "predicted-values"), ("instance_bbox", "crop-bounding-box")):
            cl += _rows_equal("PL/%s-of-the-crop-do-not-depend-on-its-batch" % nm, o1.get(key), o2.get(key), a, b)
        return cl
