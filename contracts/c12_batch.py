"""C12 -- a frame's predictions are independent of its batch-mates and carry its indices.

Relational ("two-run") contracts: the real function is executed twice in one symbolic state,
on batch A (SA samples) and on batch B (SB samples, SB != SA allowed) where sample b of B is
sample a of A and every other sample of B is arbitrary.  The obligation is that everything the
function reports for sample a in run A equals what it reports for sample b in run B -- which
covers the batch-mates' contents, the batch size and the position within the batch at once.

The network itself enters through the assumption that in eval mode it maps each sample
independently of the rest of the batch (ghost TableNet; the layer-level side is C14)."""
import z3

from pyvc import values as V, tensor as T
from pyvc.contracts import Contract, contract, Forall
from pyvc.ctx import Unsupported
from pyvc.interp import Obj
from pyvc.tensor import FLOAT, INT, BOOL, STensor

PF = "sleap_nn.inference.peak_finding."


def _pair(c, name, SA, SB, a, b, tail, nan_ok=False, lo=None):
    """(A, B): B[b] is A[a], every other sample of B is arbitrary."""
    A = c.tensor(name + "_A", [SA] + list(tail), FLOAT, nan_ok=nan_ok, lo=lo)
    B0 = c.tensor(name + "_B", [SB] + list(tail), FLOAT, nan_ok=nan_ok, lo=lo)
    ra, rb = A.reader(), B0.reader()

    def fn(idx):
        same = V.i_eq(idx[0], b)
        if same is True:
            return ra([a] + list(idx[1:]))
        if same is False:
            return rb(list(idx))
        return V.f_ite(V.zbool(same), ra([a] + list(idx[1:])), rb(list(idx)))

    Bt = T.from_fn([SB] + list(tail), FLOAT, fn)
    return A, Bt


def _batch_dims(c):
    SA, SB = c.dim("SA", lo=1), c.dim("SB", lo=1)
    a, b = c.int("a", lo=0), c.int("b", lo=0)
    c.assume(V.i_lt(a, SA), V.i_lt(b, SB))
    return SA, SB, a, b


def _rows_equal(name, t1, t2, a, b):
    """t1[a, ...] and t2[b, ...] agree elementwise (NaN == NaN)."""
    if not (isinstance(t1, STensor) and isinstance(t2, STensor) and t1.rank == t2.rank and t1.rank >= 1):
        return [(name + "/same-kind", False)]
    tail_ok = V.b_and(*[V.i_eq(x, y) for x, y in zip(t1.shape[1:], t2.shape[1:])])
    r1, r2 = t1.reader(), t2.reader()
    cl = [(name + "/same-per-sample-shape", tail_ok)]
    cl.append((name + "/equal", Forall(list(t1.shape[1:]), lambda *ix: V.f_same(r1([a] + list(ix)), r2([b] + list(ix))) if t1.dtype == FLOAT else V.i_eq(r1([a] + list(ix)), r2([b] + list(ix))))
              if t1.rank > 1 else (V.f_same(r1([a]), r2([b])) if t1.dtype == FLOAT else V.i_eq(r1([a]), r2([b])))))
    return cl


class _TwoRun(Contract):
    level = "property"
    functional = False
    no_crosscheck = True
    first_index_tie_rule = True   # torch docs: argmax / max(dim) return the FIRST maximal index
    dims = ("SA", "SB", "C", "H", "W")
    dim_ranges = {"SA": (1, 2), "SB": (1, 2), "C": (1, 2), "H": (1, 2), "W": (1, 2)}
    # batch-mates are drawn dimmer than the frame so that mixed batches (a detected frame next
    # to an empty one) are common in the concrete search
    rand_ranges = {"SA": (1, 3), "SB": (1, 3), "a": (0, 2), "b": (0, 2), "C": (1, 2), "H": (2, 5), "W": (2, 5), "cms_A": (0.0, 1.0), "cms_B": (0.0, 0.5), "threshold": (0.2, 0.9)}


@contract
class GlobalPeaksBatchIndependence(_TwoRun):
    target = PF + "find_global_peaks#batch-independence"
    props = ("C12",)
    always_inline = (PF + "find_global_peaks", PF + "find_global_peaks_rough")
    # "integralP:C:b": integral refinement, the frame alone (batch of 1) against the frame as
    # sample b of a batch of 2, C channels -- bounded in batch/channel count like C07's
    # refinement cases; map size, values and threshold symbolic
    cases = ("rough", "none", "integral5:1:0", "integral5:1:1", "integral3:1:1")
    thorough_cases = cases + ("integral3:1:0", "integral2:1:1")
    bounded = ("the relational form of integral refinement is decided for a frame alone vs. as one of 2 samples, 1 channel, patch sizes 3 and 5 (thorough: 2); "
               "with 2 channels the 16 validity patterns x crop batches exceed the time budget and are not claimed",)
    not_decided = ("CentroidCrop with use_gt_centroids; CentroidCrop.forward is decided for bounded peak counts only (see CentroidCropPerSample)",
                   "PAFScorer.predict batch glue (BottomUpInferenceModel._generate_cms_peaks / forward are decided under C03)",
                   "Predictor._predict_generator beyond the bounded consumer-loop contract shared with C13 (0..4 frames, batch size 1..3)",
                   "integral refinement in relational form beyond the bounded cases listed (2 channels, symbolic batch)",
                   "the network itself: per-sample independence of the model in eval mode is an ASSUMPTION of these contracts (ghost TableNet)")

    def inputs(self, c, case):
        if case.startswith("integral"):
            P, C, b = case[len("integral"):].split(":")
            SA, SB, a, b, C = 1, 2, 0, int(b), int(C)
            H, W = c.dim("H", lo=2), c.dim("W", lo=2)
            A, B = _pair(c, "cms", SA, SB, a, b, [C, H, W], lo=0.0)
            thr = c.real("threshold")
            c.assume(V.f_lt(0.0, thr))
            # the valid-peak mask has S*C <= 4 cells: decide them by path forks so that the rows
            # of the crop batch are concrete on every path
            c.path.concretize_masks = True
            return dict(cms_a=A, cms_b=B, a=a, b=b, threshold=thr, which="integral", patch=int(P))
        SA, SB, a, b = _batch_dims(c)
        C, H, W = c.dim("C", lo=1), c.dim("H", lo=1), c.dim("W", lo=1)
        A, B = _pair(c, "cms", SA, SB, a, b, [C, H, W])
        return dict(cms_a=A, cms_b=B, a=a, b=b, threshold=c.real("threshold"), which=case, patch=5)

    def run(self, interp, args):
        if args["which"] == "rough":
            f = interp.resolve_dotted(PF + "find_global_peaks_rough")
            kw = dict(threshold=args["threshold"])
        else:
            f = interp.resolve_dotted(PF + "find_global_peaks")
            kw = dict(threshold=args["threshold"], refinement=("integral" if args["which"] == "integral" else None), integral_patch_size=args["patch"])
        self._rough = None
        if args["which"] == "integral":
            # ghost calls: the rough detector on both batches (max/argmax of the same storage is
            # memoised, so these are the very peaks the refinement starts from); their
            # batch-independence is proved first and then available as a lemma
            fr = interp.resolve_dotted(PF + "find_global_peaks_rough")
            self._rough = (interp.call(fr, [args["cms_a"]], dict(threshold=args["threshold"])), interp.call(fr, [args["cms_b"]], dict(threshold=args["threshold"])))
        return (interp.call(f, [args["cms_a"]], dict(kw)), interp.call(f, [args["cms_b"]], dict(kw)))

    def real_call(self, ra):
        from sleap_nn.inference import peak_finding as pf

        if ra["which"] == "rough":
            return (pf.find_global_peaks_rough(ra["cms_a"], threshold=ra["threshold"]), pf.find_global_peaks_rough(ra["cms_b"], threshold=ra["threshold"]))
        kw = dict(threshold=ra["threshold"], refinement=("integral" if ra["which"] == "integral" else None), integral_patch_size=int(ra["patch"]))
        return (pf.find_global_peaks(ra["cms_a"], **kw), pf.find_global_peaks(ra["cms_b"], **kw))

    def ensures(self, c, result, cms_a, cms_b, a, b, threshold, which, patch=5):
        (p1, v1), (p2, v2) = result
        if which == "integral" and c.symbolic and getattr(self, "_rough", None):
            (rp1, rv1), (rp2, rv2) = self._rough
            for nm, cl in _rows_equal("step/rough-peak-points-do-not-depend-on-the-batch", rp1, rp2, a, b) + _rows_equal("step/rough-peak-values-do-not-depend-on-the-batch", rv1, rv2, a, b):
                c.lemma(nm, cl, then=cl, level="helper")
        return _rows_equal("PL/peak-points-of-the-frame-do-not-depend-on-its-batch", p1, p2, a, b) + \
            _rows_equal("PL/peak-values-of-the-frame-do-not-depend-on-its-batch", v1, v2, a, b)


class TableNet:
    """Ghost network for the relational contracts: returns the prepared output tensor.  The
    assumption it encodes -- in eval mode the network maps sample k of its input to sample k of
    its output independently of the other samples -- is stated by how the two tables are built
    (B's row b is A's row a)."""

    __pyvc_native__ = True

    def __init__(self, table):
        self.table = table

    def __call__(self, image):
        return self.table

    def __pyvc_getattr__(self, interp, name):
        raise Unsupported("attribute %s of the ghost network" % name)

    def __pyvc_to_real__(self):
        import torch
        from pyvc.concrete import to_real

        tab = to_real(self.table)

        class Net(torch.nn.Module):
            def forward(self, image):
                return tab

        return Net()


class _ForwardTwoRun(_TwoRun):
    rand_ranges = dict(_TwoRun.rand_ranges, N=(1, 2), Hm=(2, 5), Wm=(2, 5), net_A=(0.0, 1.0), net_B=(0.0, 1.0), eff_A=(0.5, 1.5), eff_B=(0.5, 1.5), input_scale=(0.5, 1.0),
                       peak_threshold=(0.05, 0.5), image_A=(0.0, 1.0), image_B=(0.0, 1.0), bbox_A=(0.0, 20.0), bbox_B=(0.0, 20.0))
    dims = ("SA", "SB", "N", "Hm", "Wm")
    dim_ranges = {"SA": (1, 2), "SB": (1, 2), "N": (1, 2), "Hm": (1, 2), "Wm": (1, 2)}

    def _common(self, c):
        SA, SB, a, b = _batch_dims(c)
        N, Hm, Wm = c.dim("N", lo=1), c.dim("Hm", lo=1), c.dim("Wm", lo=1)
        netA, netB = _pair(c, "net", SA, SB, a, b, [N, Hm, Wm])
        effA, effB = _pair(c, "eff", SA, SB, a, b, [])
        for e in (effA,):
            q = z3.Int("qe")
            c.fact(z3.ForAll([q], V.sfloat(e.reader()([q])).val > 0))
        q = z3.Int("qe2")
        c.fact(z3.ForAll([q], V.sfloat(effB.reader()([q])).val > 0)) if c.symbolic else None
        thr, isc = c.real("peak_threshold"), c.real("input_scale")
        c.assume(V.f_lt(0.0, isc))
        stride = c.int("output_stride", lo=1)
        return SA, SB, a, b, netA, netB, effA, effB, thr, isc, stride


@contract
class SingleInstanceBatchIndependence(_ForwardTwoRun):
    target = "sleap_nn.inference.single_instance.SingleInstanceInferenceModel.forward#batch-independence"
    props = ("C12",)
    always_inline = (PF + "find_global_peaks", PF + "find_global_peaks_rough")
    CLS = "sleap_nn.inference.single_instance.SingleInstanceInferenceModel"

    def inputs(self, c, case):
        SA, SB, a, b, netA, netB, effA, effB, thr, isc, stride = self._common(c)
        Ci, H, W = c.dim("Ci", lo=1), c.dim("Hi", lo=1), c.dim("Wi", lo=1)
        imgA, imgB = _pair(c, "image", SA, SB, a, b, [Ci, H, W])
        self._stride = stride
        return dict(a=a, b=b, runs=[dict(net=TableNet(netA), image=imgA, eff_scale=effA, tag="A"), dict(net=TableNet(netB), image=imgB, eff_scale=effB, tag="B")],
                    thr=thr, input_scale=isc, stride=stride)

    def run(self, interp, args):
        cv = interp.resolve_dotted(self.CLS)
        m, _ = cv.lookup("forward")
        outs = []
        for r in args["runs"]:
            obj = Obj(cv)
            obj.attrs.update(torch_model=r["net"], peak_threshold=args["thr"], refinement=None, integral_patch_size=5,
                             output_stride=args["stride"], return_confmaps=False, input_scale=args["input_scale"])
            outs.append(interp.call(m, [obj, {"image": r["image"], "eff_scale": r["eff_scale"], "frame_idx": "frame_idx-" + r["tag"], "video_idx": "video_idx-" + r["tag"]}], {}))
        return outs

    def real_call(self, ra):
        from sleap_nn.inference.single_instance import SingleInstanceInferenceModel

        outs = []
        for r in ra["runs"]:
            m = SingleInstanceInferenceModel(torch_model=r["net"], output_stride=int(ra["stride"]), peak_threshold=ra["thr"], refinement=None, input_scale=ra["input_scale"])
            outs.append(m.forward({"image": r["image"], "eff_scale": r["eff_scale"], "frame_idx": "frame_idx-" + r["tag"], "video_idx": "video_idx-" + r["tag"]}))
        return outs

    def ensures(self, c, result, a, b, runs, thr, input_scale, stride):
        if not (isinstance(result, list) and len(result) == 2 and all(isinstance(r, list) and len(r) == 1 and isinstance(r[0], dict) for r in result)):
            return [("PL/each-run-returns-[dict]", False)]
        o1, o2 = result[0][0], result[1][0]
        cl = [("PL/outputs-carry-the-index-tensors-of-their-own-batch",
               o1.get("frame_idx") == "frame_idx-A" and o1.get("video_idx") == "video_idx-A" and o2.get("frame_idx") == "frame_idx-B" and o2.get("video_idx") == "video_idx-B")]
        cl += _rows_equal("PL/predicted-points-of-the-frame-do-not-depend-on-its-batch", o1.get("pred_instance_peaks"), o2.get("pred_instance_peaks"), a, b)
        cl += _rows_equal("PL/predicted-values-of-the-frame-do-not-depend-on-its-batch", o1.get("pred_peak_values"), o2.get("pred_peak_values"), a, b)
        return cl


@contract
class FindInstancePeaksBatchIndependence(_ForwardTwoRun):
    target = "sleap_nn.inference.topdown.FindInstancePeaks.forward#batch-independence"
    props = ("C12",)
    always_inline = (PF + "find_global_peaks", PF + "find_global_peaks_rough")
    CLS = "sleap_nn.inference.topdown.FindInstancePeaks"
    cases = ("stride1", "padded")

    def inputs(self, c, case):
        SA, SB, a, b, netA, netB, effA, effB, thr, isc, stride = self._common(c)
        Ci, H, W = c.dim("Ci", lo=1), c.dim("Hi", lo=1), c.dim("Wi", lo=1)
        imgA, imgB = _pair(c, "image", SA, SB, a, b, [1, Ci, H, W])
        bbA, bbB = _pair(c, "bbox", SA, SB, a, b, [1, 4, 2])
        return dict(a=a, b=b, runs=[dict(net=TableNet(netA), image=imgA, eff_scale=effA, bbox=bbA, tag="A"), dict(net=TableNet(netB), image=imgB, eff_scale=effB, bbox=bbB, tag="B")],
                    thr=thr, input_scale=isc, stride=stride, max_stride=(1 if case == "stride1" else c.int("max_stride", lo=2)))

    def _inp(self, r):
        return {"instance_image": r["image"], "instance_bbox": r["bbox"], "eff_scale": r["eff_scale"], "frame_idx": "frame_idx-" + r["tag"],
                "video_idx": "video_idx-" + r["tag"], "centroid": "centroid-" + r["tag"]}

    def run(self, interp, args):
        cv = interp.resolve_dotted(self.CLS)
        m, _ = cv.lookup("forward")
        outs = []
        for r in args["runs"]:
            obj = Obj(cv)
            obj.attrs.update(torch_model=r["net"], peak_threshold=args["thr"], refinement=None, integral_patch_size=5, output_stride=args["stride"],
                             return_confmaps=False, input_scale=args["input_scale"], max_stride=args["max_stride"])
            outs.append(interp.call(m, [obj, self._inp(r)], {}))
        return outs

    def real_call(self, ra):
        from sleap_nn.inference.topdown import FindInstancePeaks

        outs = []
        for r in ra["runs"]:
            m = FindInstancePeaks(torch_model=r["net"], output_stride=int(ra["stride"]), peak_threshold=ra["thr"], refinement=None,
                                  input_scale=ra["input_scale"], max_stride=int(ra["max_stride"]))
            outs.append(m.forward(self._inp(r)))
        return outs

    def ensures(self, c, result, a, b, runs, thr, input_scale, stride, max_stride):
        if not (isinstance(result, list) and len(result) == 2 and all(isinstance(r, dict) for r in result)):
            return [("PL/each-run-returns-a-dict", False)]
        o1, o2 = result
        cl = [("PL/outputs-carry-the-index-tensors-of-their-own-batch",
               all(o.get(k) == "%s-%s" % (k, t) for o, t in ((o1, "A"), (o2, "B")) for k in ("frame_idx", "video_idx", "centroid")))]
        for key, nm in (("pred_instance_peaks", "predicted-points"), ("pred_peak_values", "predicted-values"), ("instance_bbox", "crop-bounding-box")):
            cl += _rows_equal("PL/%s-of-the-crop-do-not-depend-on-its-batch" % nm, o1.get(key), o2.get(key), a, b)
        return cl


# ------------------------------------------------------------------ CentroidCrop (bounded)
TD = "sleap_nn.inference.topdown."


class FixedNet:
    __pyvc_native__ = True

    def __init__(self, out):
        self.out = out

    def __call__(self, image):
        return self.out

    def __pyvc_getattr__(self, interp, name):
        raise Unsupported("attribute %s of the ghost network" % name)


@contract
class CentroidCropPerSample(Contract):
    """BOUNDED: CentroidCrop.forward (return_crops=False) for a batch of 2 frames with k0 / k1
    detected centroids (0..3 each) and max_instances in {None, 1, 2}; the peak detector is
    abstracted to 'the k0 + k1 peaks in sample order with arbitrary points and values' (its own
    contract is C06), everything else is the real code."""

    target = TD + "CentroidCrop.forward"
    props = ("C12",)
    level = "property"
    functional = False
    pure = False
    no_crosscheck = True
    no_replay = True
    dims = ()
    # "k0-k1-M": return_crops=False; "k0-k1-M-crops": return_crops=True (one dict of crops per frame with detections)
    cases = (tuple("%d-%d-%s" % (k0, k1, m) for k0 in range(3) for k1 in range(3) for m in ("None", "1", "2") if k0 + k1 > 0) + ("3-1-2", "0-3-1")
             + ("1-1-None-crops", "0-1-None-crops", "1-0-None-crops", "0-2-1-crops", "2-0-2-crops", "2-1-1-crops"))
    bounded = ("CentroidCrop.forward (return_crops=False): batch of 2 frames, 0..2 (3) centroids per frame, max_instances in {None,1,2}; peak detector abstracted to its C06 characterisation; "
               "coordinates, values, scales symbolic",)
    not_decided = ("CentroidCrop with use_gt_centroids, the no-detection branch of a whole batch, the crop pixels themselves (C04 decides generate_crops)",)

    def inputs(self, c, case):
        crops = case.endswith("-crops")
        k0, k1, m = case.replace("-crops", "").split("-")
        ks = [int(k0), int(k1)]
        K = sum(ks)
        pts = c.tensor("points", [K, 2], FLOAT, nan_ok=False)
        vals = c.tensor("values", [K], FLOAT, nan_ok=False)
        eff = c.tensor("eff_scale", [2], FLOAT, nan_ok=False)
        er = eff.reader()
        isc = c.real("input_scale")
        c.assume(V.f_lt(0.0, isc), V.f_lt(0.0, er([0])), V.f_lt(0.0, er([1])))
        # distinct values: "the highest-scoring ones" is then a definite set
        vr = vals.reader()
        for i in range(K):
            for j in range(i + 1, K):
                c.assume(V.b_not(V.f_eq(vr([i]), vr([j]))))
        H, W = c.dim("H", lo=2), c.dim("W", lo=2)     # (crops: domain of the kornia crop contract)
        # domain of resize_image: the scaled sides are at least one pixel
        c.assume(V.f_le(1.0, V.f_mul(T.cast_scalar(H, FLOAT), isc)), V.f_le(1.0, V.f_mul(T.cast_scalar(W, FLOAT), isc)))
        if crops:
            return dict(ks=ks, points=pts, values=vals, eff=eff, input_scale=isc, stride=c.int("output_stride", lo=1), max_instances=(None if m == "None" else int(m)),
                        image=c.tensor("image", [2, 1, 1, H, W], FLOAT, nan_ok=False), crops=True,
                        cms=c.tensor("cms", [2, 1, c.dim("Hc", lo=1), c.dim("Wc", lo=1)], FLOAT, nan_ok=False))
        return dict(ks=ks, points=pts, values=vals, eff=eff, input_scale=isc, stride=c.int("output_stride", lo=1), max_instances=(None if m == "None" else int(m)),
                    image=c.tensor("image", [2, 1, H, W], FLOAT, nan_ok=False),
                    cms=c.tensor("cms", [2, 1, c.dim("Hc", lo=1), c.dim("Wc", lo=1)], FLOAT, nan_ok=False))

    def run(self, interp, a):
        cv = interp.resolve_dotted(TD + "CentroidCrop")
        sample_inds = T.from_flat([sum(a["ks"])], [0] * a["ks"][0] + [1] * a["ks"][1], INT)
        chan = T.from_flat([sum(a["ks"])], [0] * sum(a["ks"]), INT)
        interp.overrides = {"sleap_nn.inference.peak_finding.find_local_peaks": lambda *x, **k: (a["points"], a["values"], sample_inds, chan)}
        obj = Obj(cv)
        obj.attrs.update(torch_model=FixedNet(a["cms"]), peak_threshold=0.2, refinement=None, integral_patch_size=5, output_stride=a["stride"], return_confmaps=False,
                         max_instances=a["max_instances"], return_crops=bool(a.get("crops")), crop_hw=(4, 4), input_scale=a["input_scale"], precrop_resize=1.0, max_stride=1,
                         use_gt_centroids=False, anchor_ind=None)
        m, _ = cv.lookup("forward")
        inputs = {"image": a["image"], "eff_scale": a["eff"], "frame_idx": "frame_idx", "video_idx": "video_idx"}
        if a.get("crops"):
            H, W = a["image"].shape[-2], a["image"].shape[-1]
            inputs.update(frame_idx=T.from_flat([2], [70, 71], INT), video_idx=T.from_flat([2], [5, 6], INT),
                          orig_size=T.from_nested([[T.cast_scalar(H, FLOAT), T.cast_scalar(W, FLOAT)]] * 2, FLOAT))
        try:
            return interp.call(m, [obj, inputs], {})
        finally:
            interp.overrides = {}

    def ensures(self, c, result, ks, points, values, eff, input_scale, stride, max_instances, image, cms, crops=False):
        if crops:
            return _centroid_crop_clauses(c, result, ks, points, values, eff, input_scale, stride, max_instances)
        if not isinstance(result, dict):
            return [("PL/returns-the-input-dict", False)]
        cen, cv_ = result.get("centroids"), result.get("centroid_vals")
        M = max_instances if max_instances is not None else max(ks)
        cl = [("PL/frame-and-video-indices-pass-through", result.get("frame_idx") == "frame_idx" and result.get("video_idx") == "video_idx")]
        if not (isinstance(cen, STensor) and isinstance(cv_, STensor) and list(cen.shape) == [2, 1, M, 2] and list(cv_.shape) == [2, M]):
            return cl + [("PL/centroids-(batch,1,max_instances,2)-and-values-(batch,max_instances)", False)]
        cr, vr, pr, sr, er = cen.reader(), cv_.reader(), points.reader(), values.reader(), eff.reader()
        st = T.cast_scalar(stride, FLOAT)
        start = [0, ks[0]]
        for b in range(2):
            mine = list(range(start[b], start[b] + ks[b]))       # this frame's peaks
            scaled = lambda q, k, b=b: V.f_div(V.f_div(V.f_mul(pr([q, k]), st), input_scale), er([b]))
            kept = min(M, len(mine))
            rows = []
            for r in range(M):
                if r < kept:
                    # row r is one of THIS frame's peaks (never a batch-mate's), with its value
                    rows.append(V.b_or(*[V.b_and(V.f_same(cr([b, 0, r, 0]), scaled(q, 0)), V.f_same(cr([b, 0, r, 1]), scaled(q, 1)), V.f_same(vr([b, r]), sr([q]))) for q in mine]))
                else:
                    rows.append(V.b_and(V.f_isnan(cr([b, 0, r, 0])), V.f_isnan(cr([b, 0, r, 1])), V.f_isnan(vr([b, r]))))
            cl.append(("PL/frame%d/rows-are-this-frame's-own-centroids-(scaled-by-its-own-eff_scale)-then-NaN-padding" % b, V.b_and(*rows)))
            # no centroid twice; when there are more than max_instances, the kept ones are the highest-scoring
            distinct = V.b_and(*[V.b_not(V.f_eq(vr([b, r1]), vr([b, r2]))) for r1 in range(kept) for r2 in range(r1 + 1, kept)])
            cl.append(("PL/frame%d/no-centroid-is-kept-twice" % b, distinct))
            if len(mine) > M:
                top = V.b_and(*[V.b_or(V.b_or(*[V.f_eq(sr([q]), vr([b, r])) for r in range(kept)]),      # q is kept, or
                                       V.b_and(*[V.f_lt(sr([q]), vr([b, r])) for r in range(kept)]))     # q scores below every kept one
                                for q in mine])
                cl.append(("PL/frame%d/with-max_instances-the-kept-centroids-are-the-highest-scoring-ones" % b, top))
        return cl


# ------------------------------------------------- channel independence (C07's own clause)
def _pair_channels(c, name, S, CB, b, tail, lo=None):
    """(A, B): A has one channel; channel b of B is A's channel, B's other channels arbitrary."""
    A = c.tensor(name + "_A", [S, 1] + list(tail), FLOAT, nan_ok=False, lo=lo)
    B0 = c.tensor(name + "_B", [S, CB] + list(tail), FLOAT, nan_ok=False, lo=lo)
    ra, rb = A.reader(), B0.reader()

    def fn(idx):
        same = V.i_eq(idx[1], b)
        if same is True:
            return ra([idx[0], 0] + list(idx[2:]))
        if same is False:
            return rb(list(idx))
        return V.f_ite(V.zbool(same), ra([idx[0], 0] + list(idx[2:])), rb(list(idx)))

    return A, T.from_fn([S, CB] + list(tail), FLOAT, fn)


@contract
class GlobalPeaksChannelIndependence(_TwoRun):
    """C07: 'one channel's result does not depend on the others' -- the same map as the only
    channel and as channel b among CB channels gives the same point and value."""

    target = PF + "find_global_peaks#channel-independence"
    props = ("C07", "C12")
    always_inline = (PF + "find_global_peaks", PF + "find_global_peaks_rough")
    # "none": all counts symbolic; "integralP:b": one sample, the map alone vs. channel b of 2
    cases = ("rough", "none", "integral5:0", "integral5:1", "integral3:1")
    thorough_cases = cases + ("integral3:0", "integral2:1")
    rand_ranges = {"S": (1, 2), "CB": (1, 3), "b": (0, 2), "H": (2, 5), "W": (2, 5), "cms_A": (0.0, 1.0), "cms_B": (0.0, 0.5), "threshold": (0.2, 0.9)}
    dims = ("S", "CB", "H", "W")
    dim_ranges = {"S": (1, 2), "CB": (1, 2), "H": (1, 2), "W": (1, 2)}
    bounded = ("the relational form of integral refinement over channels is decided for one sample, the map alone vs. as one of 2 channels, patch sizes 3 and 5 (thorough: 2)",)

    def inputs(self, c, case):
        if case.startswith("integral"):
            P, b = case[len("integral"):].split(":")
            S, CB, b = 1, 2, int(b)
            H, W = c.dim("H", lo=2), c.dim("W", lo=2)
            A, B = _pair_channels(c, "cms", S, CB, b, [H, W], lo=0.0)
            thr = c.real("threshold")
            c.assume(V.f_lt(0.0, thr))
            c.path.concretize_masks = True
            return dict(cms_a=A, cms_b=B, b=b, threshold=thr, which="integral", patch=int(P))
        S, CB, H, W = c.dim("S", lo=1), c.dim("CB", lo=1), c.dim("H", lo=1), c.dim("W", lo=1)
        b = c.int("b", lo=0)
        c.assume(V.i_lt(b, CB))
        A, B = _pair_channels(c, "cms", S, CB, b, [H, W])
        return dict(cms_a=A, cms_b=B, b=b, threshold=c.real("threshold"), which=case, patch=5)

    def _kw(self, a):
        if a["which"] == "rough":
            return "find_global_peaks_rough", dict(threshold=a["threshold"])
        return "find_global_peaks", dict(threshold=a["threshold"], refinement=("integral" if a["which"] == "integral" else None), integral_patch_size=a["patch"])

    def run(self, interp, a):
        name, kw = self._kw(a)
        f = interp.resolve_dotted(PF + name)
        self._rough = None
        if a["which"] == "integral":
            fr = interp.resolve_dotted(PF + "find_global_peaks_rough")
            self._rough = (interp.call(fr, [a["cms_a"]], dict(threshold=a["threshold"])), interp.call(fr, [a["cms_b"]], dict(threshold=a["threshold"])))
        return (interp.call(f, [a["cms_a"]], dict(kw)), interp.call(f, [a["cms_b"]], dict(kw)))

    def real_call(self, ra):
        from sleap_nn.inference import peak_finding as pf

        name, kw = self._kw(ra)
        kw = {k: (float(v) if k == "threshold" else (int(v) if k == "integral_patch_size" else v)) for k, v in kw.items()}
        return (getattr(pf, name)(ra["cms_a"], **kw), getattr(pf, name)(ra["cms_b"], **kw))

    def ensures(self, c, result, cms_a, cms_b, b, threshold, which, patch=5):
        (p1, v1), (p2, v2) = result
        S = cms_a.shape[0]

        def cols(name, t1, t2):
            if not (isinstance(t1, STensor) and isinstance(t2, STensor) and t1.rank == t2.rank and t1.rank >= 2):
                return [(name + "/same-kind", False)]
            r1, r2 = t1.reader(), t2.reader()
            tail = list(t1.shape[2:])
            return [(name + "/equal", Forall([S] + tail, lambda s, *ix: V.f_same(r1([s, 0] + list(ix)), r2([s, b] + list(ix)))))]

        if which == "integral" and c.symbolic and getattr(self, "_rough", None):
            (rp1, rv1), (rp2, rv2) = self._rough
            for nm, cl in cols("step/rough-peak-points-do-not-depend-on-the-other-channels", rp1, rp2) + cols("step/rough-peak-values-do-not-depend-on-the-other-channels", rv1, rv2):
                c.lemma(nm, cl, then=cl, level="helper")
        return cols("PL/peak-point-of-a-channel-does-not-depend-on-the-other-channels", p1, p2) + cols("PL/peak-value-of-a-channel-does-not-depend-on-the-other-channels", v1, v2)


def _centroid_crop_clauses(c, result, ks, points, values, eff, input_scale, stride, max_instances):
    """return_crops=True: one dict per frame WITH detections, in frame order; each carries the
    frame / video index and eff_scale of ITS OWN frame (repeated per crop) and that frame's
    centroid values."""
    have = [b for b in range(2) if ks[b] > 0]
    if not (isinstance(result, list) and len(result) == len(have) and all(isinstance(x, dict) for x in result)):
        return [("PL/one-crop-dict-per-frame-with-detections", False)]
    cl = [("PL/one-crop-dict-per-frame-with-detections", True)]
    sr, er = values.reader(), eff.reader()
    start = [0, ks[0]]
    M = max_instances if max_instances is not None else max(ks)
    for ex, b in zip(result, have):
        n = min(M, ks[b])
        fi, vi, es, cv_ = ex.get("frame_idx"), ex.get("video_idx"), ex.get("eff_scale"), ex.get("centroid_val")
        ok = all(isinstance(t, STensor) for t in (fi, vi, es, cv_)) and list(fi.shape) == [n] and list(vi.shape) == [n] and list(es.shape) == [n] and list(cv_.shape) == [n]
        cl.append(("PL/frame%d/one-row-per-kept-centroid" % b, ok))
        if not ok:
            continue
        fr, vr, esr, cvr = fi.reader(), vi.reader(), es.reader(), cv_.reader()
        mine = list(range(start[b], start[b] + ks[b]))
        rows = []
        for r in range(n):
            rows.append(V.b_and(V.f_eq(T.cast_scalar(fr([r]), FLOAT), float(70 + b)), V.f_eq(T.cast_scalar(vr([r]), FLOAT), float(5 + b)), V.f_same(esr([r]), er([b])),
                                V.b_or(*[V.f_same(cvr([r]), sr([q])) for q in mine])))
        cl.append(("PL/frame%d/crops-carry-the-frame-index-video-index-eff_scale-and-centroid-values-of-their-own-frame" % b, V.b_and(*rows)))
    return cl
