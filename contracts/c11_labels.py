"""C11 -- datasets never alter or invent labels (instance_centroids.py, instance_cropping.py,
providers.py; the frame obligations of the C01/C05 contracts are part of this property too)."""
import z3

from pyvc import values as V, tensor as T
from pyvc.contracts import Contract, contract, Forall
from pyvc.lib_numpy import nan_comb
from pyvc.tensor import FLOAT, INT, BOOL, STensor


def _fold(vals, which):
    """torch.min/max over values where NaN was replaced by +inf / -inf."""
    acc = None
    for x in vals:
        n = V.f_isnan(x)
        y = V.ite(n, float("inf") if which == "min" else float("-inf"), x) if not isinstance(n, bool) else ((float("inf") if which == "min" else float("-inf")) if n else x)
        acc = y if acc is None else (V.f_min(acc, y) if which == "min" else V.f_max(acc, y))
    return acc


def midpoint_spec(p, lead, N, k):
    """Midpoint of the bounding box of the visible nodes (NaN when none is visible)."""
    vals = [p(lead + [n, k]) for n in range(N)]
    return V.f_mul(V.f_add(_fold(vals, "max"), _fold(vals, "min")), 0.5)


@contract
class FindPointsBboxMidpoint(Contract):
    target = "sleap_nn.data.instance_centroids.find_points_bbox_midpoint"
    props = ("C11", "C18")
    cases = ("N1", "N2", "N3")
    dims = ("I",)

    def inputs(self, c, case):
        return dict(points=c.tensor("points", [c.dim("I"), int(case[1:]), 2], FLOAT, nan_ok=True))

    def requires(self, c, points):
        return [("rank>=2", points.rank >= 2 and isinstance(points.shape[-2], int) and points.shape[-2] >= 1)]

    def spec(self, c, points):
        p = points.reader()
        N = points.shape[-2]
        lead = points.shape[:-2]
        return T.from_fn(list(lead) + [points.shape[-1]], FLOAT, lambda idx: midpoint_spec(p, idx[:-1], N, idx[-1]))


@contract
class GenerateCentroids(Contract):
    target = "sleap_nn.data.instance_centroids.generate_centroids"
    props = ("C11", "C18", "C04")
    level = "property"
    cases = ("N1-anchor0", "N2-anchor1", "N2-none", "N3-anchor1", "rank4-N2-anchor0")
    dims = ("I",)
    dim_ranges = {"I": (0, 3)}
    rand_ranges = {"I": (0, 4)}
    bounded = ("the node axis is unrolled (1..3 nodes); the number of instances, coordinates and NaN patterns are unbounded",)

    def _parse(self, case):
        parts = case.split("-")
        rank4 = parts[0] == "rank4"
        if rank4:
            parts = parts[1:]
        N = int(parts[0][1:])
        anchor = None if parts[1] == "none" else int(parts[1][len("anchor"):])
        return rank4, N, anchor

    def inputs(self, c, case):
        rank4, N, anchor = self._parse(case)
        I = c.dim("I")
        shape = [1, I, N, 2] if rank4 else [I, N, 2]
        return dict(points=c.tensor("points", shape, FLOAT, nan_ok=True), anchor_ind=anchor)

    def requires(self, c, points, anchor_ind=None):
        ok = [("rank>=2", points.rank >= 2 and isinstance(points.shape[-2], int) and points.shape[-2] >= 1)]
        if anchor_ind is not None:
            ok.append(("anchor-in-range", isinstance(anchor_ind, int) and 0 <= anchor_ind < points.shape[-2]))
        return ok

    def spec(self, c, points, anchor_ind=None):
        p = points.reader()
        N = points.shape[-2]
        lead = points.shape[:-2]

        def fn(idx):
            pre, k = idx[:-1], idx[-1]
            mid = midpoint_spec(p, pre, N, k)
            if anchor_ind is None:
                return mid
            ax, ay = p(pre + [anchor_ind, 0]), p(pre + [anchor_ind, 1])
            missing = V.b_or(V.f_isnan(ax), V.f_isnan(ay))
            a = p(pre + [anchor_ind, k])
            return V.ite(missing, mid, a) if not isinstance(missing, bool) else (mid if missing else a)

        return T.from_fn(list(lead) + [points.shape[-1]], FLOAT, fn)

    def ensures(self, c, result, points, anchor_ind=None):
        """A keypoint that is missing stays missing; a centroid exists iff some node is visible
        (read off the closed form); the caller's keypoints are left untouched (frame clause,
        generated for every argument tensor)."""
        if not isinstance(result, STensor):
            return [("PL/tensor", False)]
        p = points.reader()
        r = (self.spec(c, points, anchor_ind) if c.symbolic else result).reader()
        N = points.shape[-2]
        lead = points.shape[:-2]

        def none_visible_gives_nan(*pre):
            pre = list(pre)
            nov = V.b_and(*[V.f_isnan(p(pre + [n, k])) for n in range(N) for k in range(2)])
            return V.b_implies(nov, V.b_and(V.f_isnan(r(pre + [0])), V.f_isnan(r(pre + [1]))))

        return [("PL/no-visible-node-gives-NaN-centroid", Forall(list(lead), none_visible_gives_nan))]


# --------------------------------------------------------------------- process_lf (bounded)
class GLabInst:
    """sleap_io instance ghost.  As in sleap_io, the stored coordinates `points["xy"]` may be
    finite for a node whose `points["visible"]` flag is False; `.numpy()` reports such nodes
    (and nodes stored as NaN) as NaN; `.is_empty` iff no node is visible."""

    __pyvc_native__ = True

    def __init__(self, c, name, n_nodes, user=True):
        self.raw = c.tensor(name + "_xy", [n_nodes, 2], FLOAT, nan_ok=True, kind="numpy")
        self.vis = [c.bool("%s_visible%d" % (name, n)) for n in range(n_nodes)]
        rr = self.raw.reader()

        def fn(idx):
            n, k = idx
            if isinstance(n, int):
                return V.f_ite(V.zbool(self.vis[n]), rr([n, k]), float("nan"))
            v = float("nan")
            for m in range(n_nodes):
                v = V.f_ite(V.zbool(V.b_and(V.i_eq(n, m), self.vis[m])), rr([m, k]), v)
            return v

        self.labelled = T.from_fn([n_nodes, 2], FLOAT, fn, kind="numpy")     # what .numpy() returns
        lr = self.labelled.reader()
        self.is_empty = V.b_and(*[V.f_isnan(lr([n, k])) for n in range(n_nodes) for k in range(2)])
        self.user = user
        self.points = {"xy": self.raw, "visible": T.from_flat([n_nodes], [V.zbool(v) for v in self.vis], BOOL, kind="numpy")}

    def numpy(self):
        return self.labelled

    def __pyvc_to_real__(self):
        from pyvc.concrete import to_real
        import numpy as np

        pts = np.asarray(to_real(self.labelled), dtype="float64")

        class I:
            is_empty = bool(np.isnan(pts).all())

            def numpy(self_):
                return pts

        return I()


class GLabFrame:
    """sleap_io.LabeledFrame ghost: iterable over `.instances`; `.user_instances`; `.image` (H, W, C); `.frame_idx`."""

    __pyvc_native__ = True

    def __init__(self, instances, image, frame_idx):
        self.instances = list(instances)
        self.image = image
        self.frame_idx = frame_idx

    @property
    def user_instances(self):
        return [i for i in self._all if i.user] if hasattr(self, "_all") else [i for i in self.instances if i.user]

    def __pyvc_iter__(self, interp):
        return list(self.instances)

    def __pyvc_len__(self, interp):
        return len(self.instances)

    def __iter__(self):
        return iter(self.instances)

    def __len__(self):
        return len(self.instances)

    def __pyvc_to_real__(self):
        from pyvc.concrete import to_real
        import numpy as np

        f = GLabFrame([to_real(i) for i in self.instances], np.asarray(to_real(self.image)), int(self.frame_idx))
        users = [r for r, g in zip(f.instances, self.instances) if g.user]
        f.__class__ = type("RealLabFrame", (GLabFrame,), {"user_instances": property(lambda s: users)})
        return f


@contract
class ProcessLf(Contract):
    """BOUNDED: process_lf on a labelled frame with 1..3 instances (each user-made or predicted,
    each possibly empty), 1..2 nodes, max_instances in {1, K, K+1}."""

    target = "sleap_nn.data.providers.process_lf"
    props = ("C11",)
    level = "property"
    functional = False
    pure = False
    no_crosscheck = True
    no_replay = True
    dims = ()
    # "K:pattern:N:M:u" -- pattern: one letter per instance, u = user-made, p = predicted
    cases = ("1:u:2:1:1", "2:uu:1:2:1", "2:up:2:2:1", "2:up:2:3:1", "2:pp:1:2:1", "3:upu:1:3:1", "2:up:1:2:0", "3:ppu:2:4:0")
    bounded = ("process_lf: frames with 1..3 instances (user/predicted patterns as listed), 1..2 nodes, max_instances in {K, K+1}; coordinates (incl. NaN), image and indices symbolic",)
    not_decided = ("the Dataset classes of custom_datasets.py / streaming_datasets.py (do not import here; need sleap_io / litdata object models): __getitem__ determinism over call sequences, cache immutability, __len__",)

    def inputs(self, c, case):
        K, pat, N, M, u = case.split(":")
        K, N, M = int(K), int(N), int(M)
        insts = [GLabInst(c, "inst%d" % k, N, user=(pat[k] == "u")) for k in range(K)]
        H, W, C = c.dim("H", lo=1), c.dim("W", lo=1), c.dim("C", lo=1)
        img = c.tensor("image", [H, W, C], INT, kind="numpy", lo=0, hi=255)
        return dict(insts=insts, image=img, frame_idx=c.int("frame_idx", lo=0), video_idx=c.int("video_idx", lo=0), max_instances=M, user_only=(u == "1"))

    def _used(self, insts, user_only):
        users = [i for i in insts if i.user]
        return users if (user_only and users) else list(insts)

    def requires(self, c, insts, image, frame_idx, video_idx, max_instances, user_only):
        used = self._used(insts, user_only)
        # domain: the frame has a non-empty instance (the datasets only index such frames) and
        # max_instances (the maximum over the labels) is not below this frame's count
        return [("some-instance-is-not-empty", V.b_or(*[V.b_not(i.is_empty) for i in used]))]

    def run(self, interp, a):
        self._lf = GLabFrame(a["insts"], a["image"], a["frame_idx"])
        self._lf._all = list(a["insts"])
        f = interp.resolve_dotted("sleap_nn.data.providers.process_lf")
        return interp.call(f, [self._lf, a["video_idx"], a["max_instances"]], dict(user_instances_only=a["user_only"]))

    def ensures(self, c, result, insts, image, frame_idx, video_idx, max_instances, user_only):
        if not isinstance(result, dict):
            return [("PL/returns-a-dict", False)]
        used = self._used(insts, user_only)
        N = insts[0].raw.shape[0]
        inst, img = result.get("instances"), result.get("image")
        if not (isinstance(inst, STensor) and inst.rank == 4 and isinstance(img, STensor) and img.rank == 4):
            return [("PL/instances-and-image-are-rank-4", False)]
        # every emptiness pattern of the instances considered (the real code may or may not have
        # branched on it): pattern => the sample holds exactly the non-empty ones, in order
        import itertools as _it

        rows = inst.shape[1]
        ir = inst.reader()
        alts = []
        for flags in _it.product([False, True], repeat=len(used)):
            hyp = V.b_and(*[(i.is_empty if fl else V.b_not(i.is_empty)) for i, fl in zip(used, flags)])
            if hyp is False:
                continue
            kept = [i for i, fl in zip(used, flags) if not fl]
            n = len(kept)
            if n == 0:
                continue   # excluded by the precondition
            want_rows = n if max_instances == 1 else n + abs(max_instances - n)
            ok = (result.get("num_instances") == n) and isinstance(rows, int) and rows == want_rows
            vals = []
            if ok:
                for k, i in enumerate(kept):
                    pr = i.labelled.reader()
                    vals += [V.f_same(ir([0, k, nn, xy]), pr([nn, xy])) for nn in range(N) for xy in range(2)]
                for k in range(n, rows):
                    vals += [V.f_isnan(ir([0, k, nn, xy])) for nn in range(N) for xy in range(2)]
            alts.append(V.b_implies(hyp, V.b_and(ok, *vals)))
        cl = [("PL/sample-holds-exactly-the-non-empty-labelled-instances-in-order-(missing-keypoints-stay-NaN)-then-NaN-padding-and-their-count", V.b_and(*alts))]
        H, W, C = image.shape
        sr, dr = image.reader(), img.reader()
        cl.append(("PL/image-is-the-frame-image-channel-first", V.b_and(V.i_eq(img.shape[0], 1), V.i_eq(img.shape[1], C), V.i_eq(img.shape[2], H), V.i_eq(img.shape[3], W))))
        cl.append(("PL/image-values", Forall([C, H, W], lambda ch, i, j: V.i_eq(dr([0, ch, i, j]), sr([i, j, ch])))))
        fi, vi, osz = result.get("frame_idx"), result.get("video_idx"), result.get("orig_size")
        sc = lambda t: t.at([0] * t.rank) if isinstance(t, STensor) else t
        cl.append(("PL/carries-its-frame-index-video-index-and-original-size", V.b_and(V.i_eq(sc(fi), frame_idx), V.i_eq(sc(vi), video_idx),
                                                                                   V.f_eq(osz.reader()([0]), T.cast_scalar(H, FLOAT)), V.f_eq(osz.reader()([1]), T.cast_scalar(W, FLOAT)))))
        return cl
