"""C11 -- datasets never alter or invent labels (instance_centroids.py, instance_cropping.py,
providers.py; the frame obligations of the C01/C05 contracts are part of this property too)."""
import z3

from pyvc import values as V, tensor as T
from pyvc.contracts import Contract, contract, Forall
from pyvc.lib_numpy import nan_comb
from pyvc.tensor import FLOAT, INT, BOOL, STensor


def _fold(vals, which):
    """torch.min/max over values where NaN was replaced by +inf / -inf."""
    acc = None
    for x in vals:
        n = V.f_isnan(x)
        y = V.ite(n, float("inf") if which == "min" else float("-inf"), x) if not isinstance(n, bool) else ((float("inf") if which == "min" else float("-inf")) if n else x)
        acc = y if acc is None else (V.f_min(acc, y) if which == "min" else V.f_max(acc, y))
    return acc


def midpoint_spec(p, lead, N, k):
    """Midpoint of the bounding box of the visible nodes (NaN when none is visible)."""
    vals = [p(lead + [n, k]) for n in range(N)]
    return V.f_mul(V.f_add(_fold(vals, "max"), _fold(vals, "min")), 0.5)


@contract
class FindPointsBboxMidpoint(Contract):
    target = "sleap_nn.data.instance_centroids.find_points_bbox_midpoint"
    props = ("C11", "C18")
    cases = ("N1", "N2", "N3")
    dims = ("I",)

    def inputs(self, c, case):
        return dict(points=c.tensor("points", [c.dim("I"), int(case[1:]), 2], FLOAT, nan_ok=True))

    def requires(self, c, points):
        return [("rank>=2", points.rank >= 2 and isinstance(points.shape[-2], int) and points.shape[-2] >= 1)]

    def spec(self, c, points):
        p = points.reader()
        N = points.shape[-2]
        lead = points.shape[:-2]
        return T.from_fn(list(lead) + [points.shape[-1]], FLOAT, lambda idx: midpoint_spec(p, idx[:-1], N, idx[-1]))


@contract
class GenerateCentroids(Contract):
    target = "sleap_nn.data.instance_centroids.generate_centroids"
    props = ("C11", "C18", "C04")
    level = "property"
    cases = ("N1-anchor0", "N2-anchor1", "N2-none", "N3-anchor1", "rank4-N2-anchor0")
    dims = ("I",)
    dim_ranges = {"I": (0, 3)}
    rand_ranges = {"I": (0, 4)}
    bounded = ("the node axis is unrolled (1..3 nodes); the number of instances, coordinates and NaN patterns are unbounded",)

    def _parse(self, case):
        parts = case.split("-")
        rank4 = parts[0] == "rank4"
        if rank4:
            parts = parts[1:]
        N = int(parts[0][1:])
        anchor = None if parts[1] == "none" else int(parts[1][len("anchor"):])
        return rank4, N, anchor

    def inputs(self, c, case):
        rank4, N, anchor = self._parse(case)
        I = c.dim("I")
        shape = [1, I, N, 2] if rank4 else [I, N, 2]
        return dict(points=c.tensor("points", shape, FLOAT, nan_ok=True), anchor_ind=anchor)

    def requires(self, c, points, anchor_ind=None):
        ok = [("rank>=2", points.rank >= 2 and isinstance(points.shape[-2], int) and points.shape[-2] >= 1)]
        if anchor_ind is not None:
            ok.append(("anchor-in-range", isinstance(anchor_ind, int) and 0 <= anchor_ind < points.shape[-2]))
        return ok

    def spec(self, c, points, anchor_ind=None):
        p = points.reader()
        N = points.shape[-2]
        lead = points.shape[:-2]

        def fn(idx):
            pre, k = idx[:-1], idx[-1]
            mid = midpoint_spec(p, pre, N, k)
            if anchor_ind is None:
                return mid
            ax, ay = p(pre + [anchor_ind, 0]), p(pre + [anchor_ind, 1])
            missing = V.b_or(V.f_isnan(ax), V.f_isnan(ay))
            a = p(pre + [anchor_ind, k])
            return V.ite(missing, mid, a) if not isinstance(missing, bool) else (mid if missing else a)

        return T.from_fn(list(lead) + [points.shape[-1]], FLOAT, fn)

    def ensures(self, c, result, points, anchor_ind=None):
        """A keypoint that is missing stays missing; a centroid exists iff some node is visible
        (read off the closed form); the caller's keypoints are left untouched (frame clause,
        generated for every argument tensor)."""
        if not isinstance(result, STensor):
            return [("PL/tensor", False)]
        p = points.reader()
        r = (self.spec(c, points, anchor_ind) if c.symbolic else result).reader()
        N = points.shape[-2]
        lead = points.shape[:-2]

        def none_visible_gives_nan(*pre):
            pre = list(pre)
            nov = V.b_and(*[V.f_isnan(p(pre + [n, k])) for n in range(N) for k in range(2)])
            return V.b_implies(nov, V.b_and(V.f_isnan(r(pre + [0])), V.f_isnan(r(pre + [1]))))

        return [("PL/no-visible-node-gives-NaN-centroid", Forall(list(lead), none_visible_gives_nan))]
