"""C04 -- geometric preprocessing keeps images and keypoints registered (resizing.py,
instance_cropping.py)."""
import z3

from pyvc import values as V, tensor as T
from pyvc.contracts import Contract, contract, Forall
from pyvc.tensor import FLOAT, INT, BOOL, STensor


def pad_for(size, s):
    return V.i_mod(V.i_sub(s, V.i_mod(size, s)), s)


@contract
class FindPaddingForStride(Contract):
    assume_ensures_at_calls = True
    target = "sleap_nn.data.resizing.find_padding_for_stride"
    props = ("C04", "C02")
    level = "property"
    dims = ("H", "W", "stride")
    dim_ranges = {"stride": (1, 4), "H": (0, 5), "W": (0, 5)}

    def inputs(self, c, case):
        return dict(image_height=c.dim("H"), image_width=c.dim("W"), max_stride=c.int("stride", lo=1))

    def requires(self, c, image_height, image_width, max_stride):
        return [("stride>=1", V.i_le(1, max_stride)), ("H>=0", V.i_le(0, image_height)), ("W>=0", V.i_le(0, image_width))]

    def spec(self, c, image_height, image_width, max_stride):
        return (pad_for(image_height, max_stride), pad_for(image_width, max_stride))

    def ensures(self, c, result, image_height, image_width, max_stride):
        if not (isinstance(result, tuple) and len(result) == 2):
            return [("PL/pair", False)]
        out = []
        if c.symbolic:
            c.apply_lemma("padding-arithmetic", 2,
                          lambda h, st: z3.Implies(z3.And(st >= 1, h >= 0), z3.And(V.zint(pad_for(h, st)) >= 0, V.zint(pad_for(h, st)) < st,
                                                                                     V.zint(V.i_mod(V.i_add(h, pad_for(h, st)), st)) == 0,
                                                                                     z3.Implies(V.zint(V.i_mod(h, st)) == 0, V.zint(pad_for(h, st)) == 0))),
                          [(V.zint(image_height), V.zint(max_stride)), (V.zint(image_width), V.zint(max_stride))], kinds=["int", "int"])
        for nm, size, pad in (("height", image_height, result[0]), ("width", image_width, result[1])):
            out.append(("PL/%s-padding-in-[0,stride)-and-makes-it-a-multiple" % nm,
                        V.b_and(V.i_le(0, pad), V.i_lt(pad, max_stride), V.i_eq(V.i_mod(V.i_add(size, pad), max_stride), 0))))
            out.append(("PL/%s-no-padding-when-already-divisible" % nm, V.b_implies(V.i_eq(V.i_mod(size, max_stride), 0), V.i_eq(pad, 0))))
        return out


@contract
class ApplyPadToStride(Contract):
    target = "sleap_nn.data.resizing.apply_pad_to_stride"
    props = ("C04", "C02", "C11", "C18")
    level = "property"
    cases = ("rank4", "rank3")
    dims = ("B", "C", "H", "W", "stride")
    dim_ranges = {"stride": (1, 3), "H": (1, 4), "W": (1, 4), "B": (1, 1), "C": (1, 2)}

    def inputs(self, c, case):
        shape = ([c.dim("B", lo=1)] if case == "rank4" else []) + [c.dim("C", lo=1), c.dim("H", lo=1), c.dim("W", lo=1)]
        return dict(image=c.tensor("image", shape, FLOAT, nan_ok=False), max_stride=c.int("stride", lo=1))

    def requires(self, c, image, max_stride):
        return [("rank>=2", image.rank >= 2), ("stride>=1", V.i_le(1, max_stride))]

    def spec(self, c, image, max_stride):
        H, W = image.shape[-2], image.shape[-1]
        ph, pw = pad_for(H, max_stride), pad_for(W, max_stride)
        src = image.reader()

        def fn(idx):
            i, j = idx[-2], idx[-1]
            inside = V.b_and(V.i_lt(i, H), V.i_lt(j, W))
            return V.ite(inside, src(idx), 0.0) if not isinstance(inside, bool) else (src(idx) if inside else 0.0)

        return T.from_fn(list(image.shape[:-2]) + [V.simplify_scalar(V.i_add(H, ph)), V.simplify_scalar(V.i_add(W, pw))], FLOAT, fn)

    def ensures(self, c, result, image, max_stride):
        if not isinstance(result, STensor) or result.rank != image.rank:
            return [("PL/rank", False)]
        H, W = image.shape[-2], image.shape[-1]
        oh, ow = result.shape[-2], result.shape[-1]
        r, src = result.reader(), image.reader()
        return [("PL/output-sides-are-the-smallest-multiples-of-the-stride", V.b_and(
                    V.i_eq(V.i_mod(oh, max_stride), 0), V.i_eq(V.i_mod(ow, max_stride), 0),
                    V.i_le(H, oh), V.i_lt(oh, V.i_add(H, max_stride)), V.i_le(W, ow), V.i_lt(ow, V.i_add(W, max_stride)))),
                ("PL/content-stays-at-the-top-left;padding-(zeros)-only-at-bottom-and-right",
                 Forall(result.shape, lambda *idx: V.b_and(
                     V.b_implies(V.b_and(V.i_lt(idx[-2], H), V.i_lt(idx[-1], W)), V.f_same(r(list(idx)), src(list(idx)))),
                     V.b_implies(V.b_or(V.i_le(H, idx[-2]), V.i_le(W, idx[-1])), V.f_same(r(list(idx)), 0.0)))))]


@contract
class ResizeImage(Contract):
    target = "sleap_nn.data.resizing.resize_image"
    props = ("C04", "C02", "C18")
    functional = False
    dims = ("B", "C", "H", "W")

    def inputs(self, c, case):
        return dict(image=c.tensor("image", [c.dim("B", lo=1), c.dim("C", lo=1), c.dim("H", lo=1), c.dim("W", lo=1)], FLOAT, nan_ok=False), scale=c.real("scale"))

    def requires(self, c, image, scale):
        H, W = image.shape[-2], image.shape[-1]
        return [("rank>=2", image.rank >= 2), ("scale>0", V.f_lt(0.0, scale)),
                # the scaled side must keep at least one pixel (torchvision rejects empty outputs)
                ("scaled-sides>=1", V.b_and(V.f_le(1.0, V.f_mul(T.cast_scalar(H, FLOAT), scale)), V.f_le(1.0, V.f_mul(T.cast_scalar(W, FLOAT), scale))))]

    def out_shape(self, image, scale):
        H, W = image.shape[-2], image.shape[-1]
        return list(image.shape[:-2]) + [V.simplify_scalar(V.f_trunc_to_int(V.f_mul(T.cast_scalar(H, FLOAT), scale))) if V.is_symbolic(scale) or not isinstance(H, int) else int(H * scale),
                                         V.simplify_scalar(V.f_trunc_to_int(V.f_mul(T.cast_scalar(W, FLOAT), scale))) if V.is_symbolic(scale) or not isinstance(W, int) else int(W * scale)]

    def ensures(self, c, result, image, scale):
        if not isinstance(result, STensor) or result.rank != image.rank:
            return [("rank", False)]
        want = self.out_shape(image, scale)
        return [("shape==(..,int(H*scale),int(W*scale))", V.b_and(*[V.i_eq(a, b) for a, b in zip(result.shape, want)]))]

    def post(self, c, image, scale):
        sh = self.out_shape(image, scale)
        t = T.sym_tensor(V.fresh_name("resized"), sh, FLOAT, nan_ok=False)
        t.resize_of = (image, image.shape[-2], image.shape[-1], sh[-2], sh[-1])
        return t


@contract
class ApplyResizer(Contract):
    target = "sleap_nn.data.resizing.apply_resizer"
    props = ("C04", "C02", "C18", "C11")
    level = "property"
    functional = False
    cases = ("scaled", "unit")
    dims = ("B", "C", "H", "W", "I", "N")

    def inputs(self, c, case):
        img = c.tensor("image", [c.dim("B", lo=1), c.dim("C", lo=1), c.dim("H", lo=1), c.dim("W", lo=1)], FLOAT, nan_ok=False)
        inst = c.tensor("instances", [1, c.dim("I"), c.dim("N"), 2], FLOAT, nan_ok=True)
        return dict(image=img, instances=inst, scale=(c.real("scale") if case == "scaled" else 1.0))

    def requires(self, c, image, instances, scale=1.0):
        return ResizeImage.requires(self, c, image, scale)

    def ensures(self, c, result, image, instances, scale=1.0):
        if not (isinstance(result, tuple) and len(result) == 2):
            return [("PL/pair", False)]
        img2, inst2 = result
        ir, ir2 = instances.reader(), inst2.reader()
        resized = V.b_not(V.f_eq(scale, 1.0))
        want = ResizeImage.out_shape(self, image, scale)
        out = []
        # the keypoints are multiplied by the scale exactly when the image is resized
        out.append(("PL/keypoints-scaled-iff-image-resized", Forall(instances.shape, lambda *idx: V.f_same(ir2(list(idx)), V.f_mul(ir(list(idx)), scale)))))
        out.append(("PL/image-size-int(side*scale)", V.b_and(*[V.i_eq(a, b) for a, b in zip(img2.shape, want)])))
        if not V.is_symbolic(scale) and scale == 1.0:
            r1, r0 = img2.reader(), image.reader()
            out.append(("PL/unit-scale-leaves-the-image-unchanged", Forall(image.shape, lambda *idx: V.f_same(r1(list(idx)), r0(list(idx))))))
        out.append(("PL/missing-keypoints-stay-missing", Forall(instances.shape, lambda *idx: V.b_iff(V.f_isnan(ir(list(idx))), V.f_isnan(ir2(list(idx)))))))
        if not c.symbolic:
            # observable consequence of the registration clause (content within one output pixel
            # of the transformed keypoint): a keypoint inside the source image stays within
            # half a pixel of the resized image.  Only evaluated when replaying the witness of
            # known finding C04/resize-truncation.
            H, W = image.shape[-2], image.shape[-1]
            oh, ow = img2.shape[-2], img2.shape[-1]

            def inside(*idx):
                idx = list(idx)
                v, v2 = ir(idx), ir2(idx)
                lim_in = (W - 1) if idx[-1] == 0 else (H - 1)
                lim_out = (ow if idx[-1] == 0 else oh) + 0.5
                return V.b_implies(V.b_and(V.f_le(0.0, v), V.f_le(v, float(lim_in))), V.f_lt(v2, float(lim_out)))

            out.append(("FULL/keypoints-inside-the-image-stay-inside-the-resized-image", Forall(instances.shape, inside)))
        return out

    def post(self, c, image, instances, scale=1.0):
        ir = instances.reader()
        inst2 = T.from_fn(list(instances.shape), FLOAT, lambda idx: V.f_mul(ir(idx), scale))
        if not V.is_symbolic(scale) and scale == 1.0:
            return (image, instances)
        return (ResizeImage.post(self, c, image, scale), inst2)


@contract
class ApplySizematcher(Contract):
    target = "sleap_nn.data.resizing.apply_sizematcher"
    props = ("C04", "C02", "C18")
    level = "property"
    functional = False
    cases = ("both", "none")
    dims = ("B", "C", "H", "W", "max_height", "max_width")

    def inputs(self, c, case):
        img = c.tensor("image", [c.dim("B", lo=1), c.dim("C", lo=1), c.dim("H", lo=1), c.dim("W", lo=1)], FLOAT, nan_ok=False)
        if case == "none":
            return dict(image=img, max_height=None, max_width=None)
        return dict(image=img, max_height=c.int("max_height", lo=1), max_width=c.int("max_width", lo=1))

    def requires(self, c, image, max_height=None, max_width=None):
        ok = [("rank>=2", image.rank >= 2), ("non-empty", V.b_and(V.i_le(1, image.shape[-2]), V.i_le(1, image.shape[-1])))]
        # size matching pads smaller frames up to the largest frame of the data set: the
        # targets are at least the image size (the SizeMatcher pipe raises otherwise)
        if max_height is not None:
            ok.append(("max_height>=H", V.i_le(image.shape[-2], max_height)))
        if max_width is not None:
            ok.append(("max_width>=W", V.i_le(image.shape[-1], max_width)))
        return ok

    def ensures(self, c, result, image, max_height=None, max_width=None):
        if not (isinstance(result, tuple) and len(result) == 2 and isinstance(result[0], STensor)):
            return [("PL/pair", False)]
        img2, eff = result
        H, W = image.shape[-2], image.shape[-1]
        mh = H if max_height is None else max_height
        mw = W if max_width is None else max_width
        Hf, Wf = T.cast_scalar(H, FLOAT), T.cast_scalar(W, FLOAT)
        hr, wr = V.f_div(T.cast_scalar(mh, FLOAT), Hf), V.f_div(T.cast_scalar(mw, FLOAT), Wf)
        same = V.b_and(V.i_eq(H, mh), V.i_eq(W, mw))
        out = [("PL/output-is-exactly-(max_height,max_width)", V.b_and(V.i_eq(img2.shape[-2], mh), V.i_eq(img2.shape[-1], mw))),
               ("PL/eff_scale-is-the-smaller-side-ratio", V.f_same(eff, V.ite(same, 1.0, V.ite(V.f_lt(wr, hr), wr, hr)) if not isinstance(same, bool) else (1.0 if same else V.ite(V.f_lt(wr, hr), wr, hr))))]
        r1, r0 = img2.reader(), image.reader()
        out.append(("PL/identity-when-sizes-already-match", Forall(image.shape, lambda *idx: V.b_implies(same, V.f_same(r1(list(idx)), r0(list(idx)))))))
        return out


@contract
class GenerateCrops(Contract):
    target = "sleap_nn.data.instance_cropping.generate_crops"
    props = ("C04", "C11", "C02", "C18")
    level = "property"
    dims = ("C", "H", "W", "N", "crop_h", "crop_w")
    dim_ranges = {"C": (1, 1), "H": (2, 4), "W": (2, 4), "N": (0, 2), "crop_h": (1, 3), "crop_w": (1, 3)}
    rand_ranges = {"C": (1, 2), "H": (4, 9), "W": (4, 9), "N": (0, 3), "crop_h": (2, 6), "crop_w": (2, 6), "centroid": (0.0, 8.0), "instance": (0.0, 8.0), "image": (0.0, 1.0)}

    def inputs(self, c, case):
        return dict(
            image=c.tensor("image", [1, c.dim("C", lo=1), c.dim("H", lo=2), c.dim("W", lo=2)], FLOAT, nan_ok=False),
            instance=c.tensor("instance", [c.dim("N"), 2], FLOAT, nan_ok=True),
            centroid=c.tensor("centroid", [2], FLOAT, nan_ok=False),
            crop_size=(c.int("crop_h", lo=1), c.int("crop_w", lo=1)),
        )

    def requires(self, c, image, instance, centroid, crop_size):
        return [("image-1xCxHxW-with-sides>=2", image.rank == 4 and V.b_and(V.i_eq(image.shape[0], 1), V.i_le(2, image.shape[2]), V.i_le(2, image.shape[3]))),
                ("instance-Nx2", instance.rank == 2 and V.i_eq(instance.shape[1], 2)), ("centroid-2", centroid.rank == 1 and V.i_eq(centroid.shape[0], 2)),
                ("crop>=1", V.b_and(V.i_le(1, crop_size[0]), V.i_le(1, crop_size[1])))]

    def _topleft(self, centroid, crop_size):
        cr = centroid.reader()
        ch, cw = crop_size
        x0 = V.f_add(V.f_sub(cr([0]), V.f_div(T.cast_scalar(cw, FLOAT), 2.0)), 0.5)
        y0 = V.f_add(V.f_sub(cr([1]), V.f_div(T.cast_scalar(ch, FLOAT), 2.0)), 0.5)
        return x0, y0

    def ensures(self, c, result, image, instance, centroid, crop_size):
        if not (isinstance(result, dict) and set(result) == {"instance_image", "instance_bbox", "instance", "centroid"}):
            return [("PL/returns-the-four-keys", False)]
        ch, cw = crop_size
        x0, y0 = self._topleft(centroid, crop_size)
        img, bbox, inst, cen = result["instance_image"], result["instance_bbox"], result["instance"], result["centroid"]
        ir, i2, c2, cr = instance.reader(), inst.reader(), cen.reader(), centroid.reader()
        br = bbox.reader()
        out = [("PL/crop-is-exactly-crop_size", img.rank == 4 and V.b_and(V.i_eq(img.shape[0], 1), V.i_eq(img.shape[1], image.shape[1]), V.i_eq(img.shape[2], ch), V.i_eq(img.shape[3], cw))),
               ("PL/shapes", inst.rank == 3 and cen.rank == 2 and bbox.rank == 3 and V.b_and(V.i_eq(inst.shape[0], 1), V.i_eq(inst.shape[1], instance.shape[0]), V.i_eq(cen.shape[0], 1)))]
        if inst.rank != 3 or cen.rank != 2 or bbox.rank != 3:
            return out
        tl = lambda k: (x0 if k == 0 else y0) if isinstance(k, int) else V.f_ite(V.zbool(V.i_eq(k, 0)), x0, y0)
        # keypoints and centroid are shifted by the crop's top-left corner -- the same translation
        # the (trusted) crop applies to the pixels: crop pixel (u, v) samples (y0+u, x0+v)
        out.append(("PL/keypoints-minus-crop-top-left", Forall([instance.shape[0], 2], lambda n, k: V.f_same(i2([0, n, k]), V.f_sub(ir([n, k]), tl(k))))))
        out.append(("PL/centroid-minus-crop-top-left", Forall([2], lambda k: V.f_same(c2([0, k]), V.f_sub(cr([k]), tl(k))))))
        out.append(("PL/bbox-top-left-is-centroid-minus-half-crop-plus-half-pixel", V.b_and(V.f_same(br([0, 0, 0]), x0), V.f_same(br([0, 0, 1]), y0))))
        out.append(("PL/missing-keypoints-stay-missing", Forall([instance.shape[0], 2], lambda n, k: V.b_iff(V.f_isnan(ir([n, k])), V.f_isnan(i2([0, n, k]))))))
        return out


def resize_registration_clauses(c):
    """The registration lemma of rescaling, over the trusted sampling map of resize
    (src = (dst + 0.5) * in/out - 0.5): with out = int(in * scale) and keypoints multiplied by
    scale, the image content that was at pixel coordinate x ends up within one output pixel of
    the scaled keypoint -- proved when the truncation int(in*scale) loses at most half a pixel;
    the complement is the known finding C04/resize-truncation."""
    n, x, s = c.g["in"], c.g["x"], c.g["scale"]
    nf = T.cast_scalar(n, FLOAT)
    out = V.f_trunc_to_int(V.f_mul(nf, s))
    of = T.cast_scalar(out, FLOAT)
    content = V.f_sub(V.f_mul(V.f_add(x, 0.5), V.f_div(of, nf)), 0.5)     # where the content of source x lands
    keypoint = V.f_mul(x, s)                                                # where the keypoint is put
    diff = V.f_sub(content, keypoint)
    dom = V.b_and(V.i_le(1, n), V.f_lt(0.0, s), V.f_le(s, 1.0), V.i_le(1, out), V.f_le(0.0, x), V.f_le(x, T.cast_scalar(V.i_sub(n, 1), FLOAT)))
    small_trunc = V.f_le(V.f_sub(V.f_mul(nf, s), of), 0.5)
    return dom, small_trunc, V.b_and(V.f_lt(-1.0, diff), V.f_lt(diff, 1.0))


@contract
class ResizeRegistrationLemma(Contract):
    """A lemma contract (no repository function is executed): arithmetic of the sampling map."""

    target = "lemma:resize-registration"
    props = ("C04",)
    level = "property"
    no_crosscheck = True
    no_replay = True       # nothing to run on the replay side: a pure arithmetic lemma
    dims = ()

    def inputs(self, c, case):
        c.g = {"in": c.int("in_size", lo=1), "x": c.real("x"), "scale": c.real("scale")}
        return {}

    def run(self, interp, args):
        return None

    def ensures(self, c, result):
        if not c.symbolic:
            return []
        dom, small, ok = resize_registration_clauses(c)
        return [("PL/content-lands-within-one-output-pixel-of-the-scaled-keypoint", V.b_implies(V.b_and(dom, small), ok))]
