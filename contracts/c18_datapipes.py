"""C18 (DataPipe half) -- each legacy DataPipe block returns what its functional counterpart
returns (sleap_nn/data/{normalization,resizing,instance_centroids,instance_cropping,
confidence_maps,edge_maps}.py).

Relational contracts: the real block class is instantiated on a one-example source and its
real __iter__ is run; the functional counterpart is run on the same symbolic example; the
obligation is that the keys the block adds / rewrites equal the function's result, for all
shapes and values, and that the block passes the other keys through."""
import z3

from pyvc import values as V, tensor as T
from pyvc.contracts import Contract, contract, Forall, equal_clauses
from pyvc.ctx import Unsupported
from pyvc.tensor import FLOAT, INT, BOOL, STensor

D = "sleap_nn.data."


class _Pair(Contract):
    level = "property"
    functional = False
    pure = False            # blocks rewrite keys of the example dict they are given
    no_crosscheck = True
    block = None            # dotted name of the DataPipe class
    always_inline = ()

    def example(self, c, case):
        raise NotImplementedError

    def block_kwargs(self, a):
        return {}

    def run_fn(self, interp, a):
        raise NotImplementedError

    def run(self, interp, a):
        cv = interp.resolve_dotted(self.block)
        ex = dict(a["example"])
        ex["__marker__"] = "untouched"
        obj = interp.call(cv, [[ex]], self.block_kwargs(a))
        m, _ = cv.lookup("__iter__")
        outs = interp.call(m, [obj], {})
        return dict(block=list(outs), fn=self.run_fn(interp, a))

    # replay side: the same two runs with the real classes
    def real_call(self, ra):
        import importlib

        mod, cls = self.block.rsplit(".", 1)
        Block = getattr(importlib.import_module(mod), cls)
        ex = dict(ra["example"])
        ex["__marker__"] = "untouched"
        outs = list(Block([ex], **self.block_kwargs(ra)))
        return dict(block=outs, fn=self.real_fn(ra))

    def compare(self, c, out, fn, a):
        raise NotImplementedError

    def ensures(self, c, result, **a):
        outs = result["block"]
        n = self.expected_count(a)
        if not (isinstance(outs, list) and (n is None or len(outs) == n) and all(isinstance(o, dict) for o in outs)):
            return [("PL/block-yields-one-example-per-input", False)]
        cl = [("PL/other-keys-pass-through", all(o.get("__marker__") == "untouched" for o in outs))]
        cl += self.compare(c, outs, result["fn"], a)
        return cl

    def expected_count(self, a):
        return 1


def _eq(name, x, y):
    return equal_clauses("PL/" + name, x, y)


# ------------------------------------------------------------------------------ Normalizer
@contract
class NormalizerPair(_Pair):
    target = D + "normalization.Normalizer#vs-function"
    props = ("C18",)
    block = D + "normalization.Normalizer"
    cases = ("gray-from-1", "gray-from-3", "rgb-from-1", "rgb-from-3", "gray-uint8", "rgb-uint8")
    rand_ranges = {"S": (1, 2), "H": (1, 4), "W": (1, 4), "image": (0.0, 1.0)}
    dims = ("S", "H", "W")
    dim_ranges = {"S": (1, 2), "H": (1, 2), "W": (1, 2)}

    def inputs(self, c, case):
        ch = 3 if case.endswith("3") or case == "rgb-uint8" else 1
        S, H, W = c.dim("S", lo=1), c.dim("H", lo=1), c.dim("W", lo=1)
        if case.endswith("uint8"):
            img = c.tensor("image", [S, ch, H, W], INT, lo=0, hi=255)
        else:
            img = c.tensor("image", [S, ch, H, W], FLOAT, nan_ok=False)
        return dict(example={"image": img}, is_rgb=case.startswith("rgb"))

    def block_kwargs(self, a):
        return dict(is_rgb=a["is_rgb"])

    def run_fn(self, interp, a):
        f = lambda n: interp.resolve_dotted(D + "normalization." + n)
        img = interp.call(f("apply_normalization"), [a["example"]["image"]], {})
        return interp.call(f("convert_to_rgb" if a["is_rgb"] else "convert_to_grayscale"), [img], {})

    def real_fn(self, ra):
        from sleap_nn.data import normalization as nz

        img = nz.apply_normalization(ra["example"]["image"])
        return nz.convert_to_rgb(img) if ra["is_rgb"] else nz.convert_to_grayscale(img)

    def compare(self, c, outs, fn, a):
        return _eq("image-equals-apply_normalization+convert", outs[0].get("image"), fn)


# --------------------------------------------------------------------------------- Resizer
@contract
class ResizerPair(_Pair):
    target = D + "resizing.Resizer#vs-function"
    props = ("C18",)
    block = D + "resizing.Resizer"
    always_inline = (D + "resizing.apply_resizer", D + "resizing.resize_image")
    cases = ("scaled", "unit")
    rand_ranges = {"S": (1, 2), "C": (1, 2), "H": (2, 6), "W": (2, 6), "I": (1, 2), "N": (1, 3), "image": (0.0, 1.0), "instances": (0.0, 6.0), "scale": (0.5, 2.0)}

    def inputs(self, c, case):
        S, C, H, W = c.dim("S", lo=1), c.dim("C", lo=1), c.dim("H", lo=1), c.dim("W", lo=1)
        I, N = c.dim("I", lo=0), c.dim("N", lo=1)
        scale = 1.0 if case == "unit" else c.real("scale")
        if case != "unit":
            # domain of resize_image: the scaled sides are at least one pixel
            c.assume(V.f_lt(0.0, scale), V.f_le(1.0, V.f_mul(T.cast_scalar(H, FLOAT), scale)), V.f_le(1.0, V.f_mul(T.cast_scalar(W, FLOAT), scale)))
        return dict(example={"image": c.tensor("image", [S, C, H, W], FLOAT, nan_ok=False), "instances": c.tensor("instances", [S, I, N, 2], FLOAT, nan_ok=True)}, scale=scale)

    def block_kwargs(self, a):
        return dict(scale=a["scale"])

    def run_fn(self, interp, a):
        return interp.call(interp.resolve_dotted(D + "resizing.apply_resizer"), [a["example"]["image"], a["example"]["instances"]], dict(scale=a["scale"]))

    def real_fn(self, ra):
        from sleap_nn.data.resizing import apply_resizer

        return apply_resizer(ra["example"]["image"], ra["example"]["instances"], scale=float(ra["scale"]))

    def compare(self, c, outs, fn, a):
        if not (isinstance(fn, tuple) and len(fn) == 2):
            return [("PL/apply_resizer-returns-a-pair", False)]
        return _eq("image-equals-apply_resizer", outs[0].get("image"), fn[0]) + _eq("instances-equal-apply_resizer", outs[0].get("instances"), fn[1])


# ----------------------------------------------------------------------------- PadToStride
@contract
class PadToStridePair(_Pair):
    target = D + "resizing.PadToStride#vs-function"
    props = ("C18",)
    block = D + "resizing.PadToStride"
    always_inline = (D + "resizing.apply_pad_to_stride", D + "resizing.find_padding_for_stride")
    rand_ranges = {"S": (1, 2), "C": (1, 2), "H": (1, 7), "W": (1, 7), "image": (0.0, 1.0), "max_stride": (1, 4)}

    def inputs(self, c, case):
        S, C, H, W = c.dim("S", lo=1), c.dim("C", lo=1), c.dim("H", lo=1), c.dim("W", lo=1)
        return dict(example={"image": c.tensor("image", [S, C, H, W], FLOAT, nan_ok=False)}, max_stride=c.int("max_stride", lo=1))

    def block_kwargs(self, a):
        return dict(max_stride=a["max_stride"])

    def run_fn(self, interp, a):
        return interp.call(interp.resolve_dotted(D + "resizing.apply_pad_to_stride"), [a["example"]["image"], a["max_stride"]], {})

    def real_fn(self, ra):
        from sleap_nn.data.resizing import apply_pad_to_stride

        return apply_pad_to_stride(ra["example"]["image"], int(ra["max_stride"]))

    def compare(self, c, outs, fn, a):
        return _eq("image-equals-apply_pad_to_stride", outs[0].get("image"), fn)


# ------------------------------------------------------------------ InstanceCentroidFinder
@contract
class CentroidFinderPair(_Pair):
    target = D + "instance_centroids.InstanceCentroidFinder#vs-function"
    props = ("C18",)
    block = D + "instance_centroids.InstanceCentroidFinder"
    cases = ("N2-none", "N2-anchor0", "N3-anchor1")
    rand_ranges = {"S": (1, 2), "I": (1, 3), "instances": (0.0, 9.0)}

    def inputs(self, c, case):
        n, an = case.split("-")
        S, I = c.dim("S", lo=1), c.dim("I", lo=0)
        return dict(example={"instances": c.tensor("instances", [S, I, int(n[1:]), 2], FLOAT, nan_ok=True)}, anchor_ind=(None if an == "none" else int(an[len("anchor"):])))

    def block_kwargs(self, a):
        return dict(anchor_ind=a["anchor_ind"])

    def run_fn(self, interp, a):
        return interp.call(interp.resolve_dotted(D + "instance_centroids.generate_centroids"), [a["example"]["instances"]], dict(anchor_ind=a["anchor_ind"]))

    def real_fn(self, ra):
        from sleap_nn.data.instance_centroids import generate_centroids

        return generate_centroids(ra["example"]["instances"], anchor_ind=ra["anchor_ind"])

    def compare(self, c, outs, fn, a):
        return _eq("centroids-equal-generate_centroids", outs[0].get("centroids"), fn) + \
            _eq("instances-left-as-given", outs[0].get("instances"), a["example"]["instances"])


# ------------------------------------------------------------------------- InstanceCropper
@contract
class InstanceCropperPair(_Pair):
    target = D + "instance_cropping.InstanceCropper#vs-function"
    props = ("C18",)
    block = D + "instance_cropping.InstanceCropper"
    cases = ("I1", "I2-one-real")
    not_decided = ("InstanceCropper on frames with several real instances: the block yields the SAME example dict object once per instance (mutated in between), "
                   "which the eager generator model of the verifier cannot distinguish; only the one-crop cases are decided",)
    rand_ranges = {"C": (1, 2), "H": (4, 9), "W": (4, 9), "N": (1, 3), "image": (0.0, 1.0), "instances": (1.0, 7.0), "centroids": (2.0, 6.0), "crop_h": (2, 4), "crop_w": (2, 4)}

    def inputs(self, c, case):
        I = int(case[1])
        C, H, W, N = c.dim("C", lo=1), c.dim("H", lo=2), c.dim("W", lo=2), c.dim("N", lo=1)
        ch, cw = c.int("crop_h", lo=2), c.int("crop_w", lo=2)
        num = 1 if case.endswith("one-real") else I
        return dict(example={"image": c.tensor("image", [1, C, H, W], FLOAT, nan_ok=False), "instances": c.tensor("instances", [1, I, N, 2], FLOAT, nan_ok=True),
                             "centroids": c.tensor("centroids", [1, I, 2], FLOAT, nan_ok=False), "num_instances": num}, crop_hw=(ch, cw), n=num)

    def block_kwargs(self, a):
        return dict(crop_hw=a["crop_hw"])

    def expected_count(self, a):
        return a["n"]

    def run_fn(self, interp, a):
        f = interp.resolve_dotted(D + "instance_cropping.generate_crops")
        ex = a["example"]
        return [interp.call(f, [ex["image"], T.getitem(ex["instances"], (0, k)), T.getitem(ex["centroids"], (0, k)), a["crop_hw"]], {}) for k in range(a["n"])]

    def real_fn(self, ra):
        from sleap_nn.data.instance_cropping import generate_crops

        ex = ra["example"]
        return [generate_crops(ex["image"], ex["instances"][0, k], ex["centroids"][0, k], tuple(int(x) for x in ra["crop_hw"])) for k in range(ra["n"])]

    def compare(self, c, outs, fn, a):
        cl = []
        for k, (o, f) in enumerate(zip(outs, fn)):
            for key in ("instance_image", "instance_bbox", "instance", "centroid"):
                cl += _eq("crop%d/%s-equals-generate_crops" % (k, key), o.get(key), f.get(key) if isinstance(f, dict) else None)
        return cl


# ------------------------------------------------------------------ ConfidenceMapGenerator
@contract
class ConfmapPair(_Pair):
    target = D + "confidence_maps.ConfidenceMapGenerator#vs-function"
    props = ("C18",)
    block = D + "confidence_maps.ConfidenceMapGenerator"
    rand_ranges = {"S": (1, 2), "N": (1, 3), "H": (2, 8), "W": (2, 8), "image": (0.0, 1.0), "instance": (0.0, 7.0), "sigma": (0.8, 2.0), "stride": (1, 2)}

    def inputs(self, c, case):
        S, N, H, W = c.dim("S", lo=1), c.dim("N", lo=1), c.dim("H", lo=1), c.dim("W", lo=1)
        sigma = c.real("sigma")
        c.assume(V.f_lt(0.0, sigma))
        return dict(example={"instance_image": c.tensor("image", [S, 1, H, W], FLOAT, nan_ok=False), "instance": c.tensor("instance", [S, N, 2], FLOAT, nan_ok=True)},
                    sigma=sigma, stride=c.int("stride", lo=1))

    def block_kwargs(self, a):
        return dict(sigma=a["sigma"], output_stride=a["stride"], image_key="instance_image", instance_key="instance")

    def run_fn(self, interp, a):
        ex = a["example"]
        hw = (ex["instance_image"].shape[-2], ex["instance_image"].shape[-1])
        return interp.call(interp.resolve_dotted(D + "confidence_maps.generate_confmaps"), [ex["instance"], hw], dict(sigma=a["sigma"], output_stride=a["stride"]))

    def real_fn(self, ra):
        from sleap_nn.data.confidence_maps import generate_confmaps

        ex = ra["example"]
        return generate_confmaps(ex["instance"], tuple(ex["instance_image"].shape[-2:]), sigma=float(ra["sigma"]), output_stride=int(ra["stride"]))

    def compare(self, c, outs, fn, a):
        return _eq("confidence_maps-equal-generate_confmaps", outs[0].get("confidence_maps"), fn)


# ------------------------------------------------------------- MultiConfidenceMapGenerator
@contract
class MultiConfmapPair(_Pair):
    target = D + "confidence_maps.MultiConfidenceMapGenerator#vs-function"
    props = ("C18",)
    block = D + "confidence_maps.MultiConfidenceMapGenerator"
    cases = ("centroids", "instances")
    rand_ranges = {"I": (1, 3), "N": (1, 3), "H": (2, 8), "W": (2, 8), "image": (0.0, 1.0), "instances": (0.0, 7.0), "centroids": (0.0, 7.0), "sigma": (0.8, 2.0), "stride": (1, 2)}

    def inputs(self, c, case):
        I, N, H, W = c.dim("I", lo=1), c.dim("N", lo=1), c.dim("H", lo=1), c.dim("W", lo=1)
        sigma = c.real("sigma")
        c.assume(V.f_lt(0.0, sigma))
        # every instance slot is a real instance (num_instances == I): the block does not slice
        # the padded slots off in "instances" mode while the function does
        return dict(example={"image": c.tensor("image", [1, 1, H, W], FLOAT, nan_ok=False), "instances": c.tensor("instances", [1, I, N, 2], FLOAT, nan_ok=True),
                             "centroids": c.tensor("centroids", [1, I, 2], FLOAT, nan_ok=True), "num_instances": I},
                    sigma=sigma, stride=c.int("stride", lo=1), centroids=(case == "centroids"))

    def block_kwargs(self, a):
        return dict(sigma=a["sigma"], output_stride=a["stride"], centroids=a["centroids"])

    def run_fn(self, interp, a):
        ex = a["example"]
        hw = (ex["image"].shape[-2], ex["image"].shape[-1])
        src = ex["centroids"] if a["centroids"] else ex["instances"]
        return interp.call(interp.resolve_dotted(D + "confidence_maps.generate_multiconfmaps"), [src, hw, ex["num_instances"]],
                           dict(sigma=a["sigma"], output_stride=a["stride"], is_centroids=a["centroids"]))

    def real_fn(self, ra):
        from sleap_nn.data.confidence_maps import generate_multiconfmaps

        ex = ra["example"]
        src = ex["centroids"] if ra["centroids"] else ex["instances"]
        return generate_multiconfmaps(src, tuple(ex["image"].shape[-2:]), int(ex["num_instances"]), sigma=float(ra["sigma"]), output_stride=int(ra["stride"]), is_centroids=ra["centroids"])

    def compare(self, c, outs, fn, a):
        key = "centroids_confidence_maps" if a["centroids"] else "confidence_maps"
        return _eq("%s-equal-generate_multiconfmaps" % key, outs[0].get(key), fn)


# -------------------------------------------------------------- PartAffinityFieldsGenerator
# The PAF block is not compared with the function run-against-run (both reach the sum-over-animals
# loop of make_multi_pafs through a contract that introduces a fresh abstract fold per call, and
# the equality of two folds needs an extensionality argument the solvers do not find).  Instead
# the block's output is held to the SAME closed-form contract generate_pafs is proved against
# under C05 (kept animals, per-animal unit vector x weight, sum, channel layout, shape): two
# results that both equal the closed form are equal.
@contract
class PafBlockMeetsFunctionContract(_Pair):
    target = D + "edge_maps.PartAffinityFieldsGenerator#vs-function"
    props = ("C18",)
    block = D + "edge_maps.PartAffinityFieldsGenerator"
    cases = ("nested", "flat")
    rand_ranges = {"H": (3, 10), "W": (3, 10), "N": (1, 3), "E": (0, 3), "I": (0, 3), "instances": (-2.0, 10.0), "edge_inds": (0, 2), "image": (0.0, 1.0), "sigma": (0.8, 2.0), "stride": (1, 2)}
    dims = ("I", "N", "E", "H", "W", "stride")
    dim_ranges = {"stride": (1, 2), "H": (1, 3), "W": (1, 3), "N": (1, 2), "E": (0, 2), "I": (0, 2)}

    def _fn_contract(self):
        from pyvc.contracts import REGISTRY

        return REGISTRY.get(D + "edge_maps.generate_pafs")

    def inputs(self, c, case):
        a = self._fn_contract().inputs(c, case)      # the function contract's own input space
        H, W = a["img_hw"]
        return dict(example={"image": c.tensor("image", [1, 1, H, W], FLOAT, nan_ok=False), "instances": a["instances"]},
                    sigma=a["sigma"], stride=a["output_stride"], edge_inds=a["edge_inds"], flat=a["flatten_channels"])

    def requires(self, c, example, sigma, stride, edge_inds, flat):
        return self._fn_contract().requires(c, example["instances"], (example["image"].shape[-2], example["image"].shape[-1]), sigma, stride, edge_inds, flat)

    def block_kwargs(self, a):
        return dict(sigma=a["sigma"], output_stride=a["stride"], edge_inds=a["edge_inds"], flatten_channels=a["flat"])

    def run_fn(self, interp, a):
        return None

    def real_fn(self, ra):
        return None

    def compare(self, c, outs, fn, a):
        ex = a["example"]
        hw = (ex["image"].shape[-2], ex["image"].shape[-1])
        return list(self._fn_contract().ensures(c, outs[0].get("part_affinity_fields"), ex["instances"], hw, a["sigma"], a["stride"], a["edge_inds"], a["flat"]))
