"""C15 -- object keypoint similarity and matching helpers (sleap_nn/evaluation.py,
sleap_nn/tracking/utils.py)."""
import z3

from pyvc import values as V, tensor as T
from pyvc.contracts import Contract, contract, Forall
from pyvc.tensor import FLOAT, INT, BOOL, STensor

EPS = 2.220446049250313e-16   # np.spacing(1)


def _nanrange(vals):
    """(nanmin, nanmax) of a concrete-length list of floats; NaN when all are NaN."""
    from pyvc.lib_numpy import nan_comb

    cmin, cmax = nan_comb("min"), nan_comb("max")
    lo = hi = None
    for x in vals:
        lo = x if lo is None else cmin(lo, x)
        hi = x if hi is None else cmax(hi, x)
    return lo, hi


def area_spec(pts, g, N):
    xs = [pts([g, n, 0]) for n in range(N)]
    ys = [pts([g, n, 1]) for n in range(N)]
    xlo, xhi = _nanrange(xs)
    ylo, yhi = _nanrange(ys)
    return V.f_mul(V.f_mul(1.0, V.f_sub(xhi, xlo)), V.f_sub(yhi, ylo))


def oks_spec(gt, pr, g, p, N, scale_of, stddev, coco):
    """sum over gt-visible nodes of (pr missing ? 0 : exp(-d^2 / norm_n)) / #gt-visible."""
    total = 0.0
    nvis = 0.0
    sc = scale_of(g)
    for n in range(N):
        gx, gy, px, py = gt([g, n, 0]), gt([g, n, 1]), pr([p, n, 0]), pr([p, n, 1])
        miss_gt = V.b_or(V.f_isnan(gx), V.f_isnan(gy))
        miss_pr = V.b_or(V.f_isnan(px), V.f_isnan(py))
        d2 = V.f_add(V.f_add(0.0, V.f_mul(V.f_sub(gx, px), V.f_sub(gx, px))), V.f_mul(V.f_sub(gy, py), V.f_sub(gy, py)))
        if coco:
            norm = V.f_mul(V.f_mul(V.f_mul(2, stddev), V.f_mul(2, stddev)), V.f_mul(2, V.f_add(sc, EPS)))
        else:
            norm = V.f_mul(V.f_mul(stddev, stddev), V.f_mul(2, V.f_mul(V.f_add(sc, EPS), V.f_add(sc, EPS))))
        # a keypoint missing in the prediction is a complete miss: distance +inf, similarity 0
        dist = V.ite(miss_pr, float("inf"), d2) if not isinstance(miss_pr, bool) else (float("inf") if miss_pr else d2)
        ks = V.f_exp(V.f_neg(V.f_div(dist, norm)))
        term = V.ite(miss_gt, 0.0, ks) if not isinstance(miss_gt, bool) else (0.0 if miss_gt else ks)
        vis = T.cast_scalar(V.b_not(miss_gt), FLOAT)
        total = V.f_add(total, term)
        nvis = V.f_add(nvis, vis)
    return V.f_div(total, nvis), nvis


@contract
class ComputeInstanceArea(Contract):
    target = "sleap_nn.evaluation.compute_instance_area"
    props = ("C15",)
    cases = ("N1", "N2", "N3")
    dims = ("G",)
    no_crosscheck = False

    def inputs(self, c, case):
        N = int(case[1:])
        return dict(points=c.tensor("points", [c.dim("G"), N, 2], FLOAT, nan_ok=True, kind="numpy"))

    def requires(self, c, points):
        return [("rank3", points.rank == 3 and isinstance(points.shape[1], int) and points.shape[1] >= 1 and points.shape[2] == 2)]

    def spec(self, c, points):
        p = points.reader()
        N = points.shape[1]
        return T.from_fn([points.shape[0]], FLOAT, lambda idx: area_spec(p, idx[0], N), kind="numpy")


@contract
class ComputeOks(Contract):
    target = "sleap_nn.evaluation.compute_oks"
    props = ("C15", "C16")
    level = "property"
    cases = ("N1-area-coco", "N2-area-coco", "N2-scale-coco", "N2-area-paper", "N2-scale-paper")
    thorough_cases = cases + ("N3-area-coco", "N3-scale-paper", "N4-area-coco")
    dims = ("G", "P")
    dim_ranges = {"G": (1, 2), "P": (1, 3)}
    rand_ranges = {"G": (1, 3), "P": (1, 4), "stddev": (0.02, 0.2), "scale": (1.0, 50.0)}
    not_decided = ("invariance under a common translation (evident from the closed form: only differences of coordinates and the bounding-box extent occur; an obligation over the shifted closed form was tried and did not discharge within the budget, so none is generated)",
                   "match_instances / greedy_matching / compute_iou / compute_cosine_sim are not under contract yet")
    bounded = ("the node axis is unrolled: 1..2 nodes (quick), 1..4 (thorough); instances, coordinates, NaN patterns, stddev and scale are unbounded",
               "the monotonicity clause (never increases when a predicted keypoint moves farther) is generated for skeletons of 1..2 nodes only")

    def _parse(self, case):
        n, sc, mode = case.split("-")
        return int(n[1:]), sc == "scale", mode == "coco"

    def inputs(self, c, case):
        N, has_scale, coco = self._parse(case)
        G, P = c.dim("G", lo=1), c.dim("P", lo=1)
        d = dict(points_gt=c.tensor("points_gt", [G, N, 2], FLOAT, nan_ok=True, kind="numpy"),
                 points_pr=c.tensor("points_pr", [P, N, 2], FLOAT, nan_ok=True, kind="numpy"),
                 scale=(c.real("scale") if has_scale else None), stddev=c.real("stddev"), use_cocoeval=coco)
        c.g = dict(t=(c.real("ghost_tx"), c.real("ghost_ty")), far=c.real("ghost_far"), node=c.int("ghost_node"),
                   q=(c.real("ghost_qx"), c.real("ghost_qy")))
        return d

    def requires(self, c, points_gt, points_pr, scale=None, stddev=0.025, use_cocoeval=True):
        ok = [("rank3", points_gt.rank == 3 and points_pr.rank == 3),
              ("stddev>0", V.f_lt(0.0, stddev))]
        if scale is not None:
            ok.append(("scale>=0", V.f_le(0.0, scale)))
        return ok

    def _scale_of(self, points_gt, scale, N):
        gt = points_gt.reader()
        if scale is None:
            return lambda g: area_spec(gt, g, N)
        return lambda g: scale

    def spec(self, c, points_gt, points_pr, scale=None, stddev=0.025, use_cocoeval=True):
        N = points_gt.shape[1]
        gt, pr = points_gt.reader(), points_pr.reader()
        sc = self._scale_of(points_gt, scale, N)
        return T.from_fn([points_gt.shape[0], points_pr.shape[0]], FLOAT,
                         lambda idx: oks_spec(gt, pr, idx[0], idx[1], N, sc, stddev, use_cocoeval)[0], kind="numpy")

    def ensures(self, c, result, points_gt, points_pr, scale=None, stddev=0.025, use_cocoeval=True):
        """Property-level lemmas on the closed form (tied to the code by post/value)."""
        N = points_gt.shape[1]
        gt, pr = points_gt.reader(), points_pr.reader()
        sc = self._scale_of(points_gt, scale, N)
        G, P = points_gt.shape[0], points_pr.shape[0]
        r = result.reader() if isinstance(result, STensor) and not c.symbolic else None

        def val(g, p):
            return r([g, p]) if r is not None else oks_spec(gt, pr, g, p, N, sc, stddev, use_cocoeval)[0]

        def has_vis(g):
            return V.b_or(*[V.b_not(V.b_or(V.f_isnan(gt([g, n, 0])), V.f_isnan(gt([g, n, 1])))) for n in range(N)])

        R = lambda x: V.finite_real(V.sfloat(x).val) if V.is_symbolic(x) else x

        def pieces(g, p, override=None, info=None):
            """The per-node terms of the closed form, with the arithmetic lemmas the solver
            does not find unprompted instantiated at them.  `override=(m, (qx, qy))` evaluates
            the closed form with predicted node m moved to (qx, qy) (monotonicity lemma)."""
            scv = sc(g)
            terms, viss = [], []
            for n in range(N):
                gx, gy, px, py = gt([g, n, 0]), gt([g, n, 1]), pr([p, n, 0]), pr([p, n, 1])
                if override is not None and override[0] == n:
                    px, py = override[1]
                miss_gt = V.b_or(V.f_isnan(gx), V.f_isnan(gy))
                miss_pr = V.b_or(V.f_isnan(px), V.f_isnan(py))
                ax, ay = V.f_sub(gx, px), V.f_sub(gy, py)
                d2 = V.f_add(V.f_add(0.0, V.f_mul(ax, ax)), V.f_mul(ay, ay))
                if use_cocoeval:
                    norm = V.f_mul(V.f_mul(V.f_mul(2, stddev), V.f_mul(2, stddev)), V.f_mul(2, V.f_add(scv, EPS)))
                else:
                    norm = V.f_mul(V.f_mul(stddev, stddev), V.f_mul(2, V.f_mul(V.f_add(scv, EPS), V.f_add(scv, EPS))))
                if c.symbolic:
                    c.apply_lemma("sum-of-squares-nonneg", 2, lambda a, b: V.f_le(0.0, V.f_add(V.f_add(0.0, V.f_mul(a, a)), V.f_mul(b, b))), [(R(ax), R(ay))])
                    c.apply_lemma("sum-of-squares-of-zeros", 2, lambda a, b: V.b_implies(V.b_and(V.f_eq(a, 0.0), V.f_eq(b, 0.0)), V.f_eq(V.f_add(V.f_add(0.0, V.f_mul(a, a)), V.f_mul(b, b)), 0.0)), [(R(ax), R(ay))])
                    if use_cocoeval:
                        c.apply_lemma("norm-positive-coco", 2, lambda sd, a: V.b_implies(V.b_and(V.f_lt(0.0, sd), V.f_le(0.0, a)),
                                      V.f_lt(0.0, V.f_mul(V.f_mul(V.f_mul(2, sd), V.f_mul(2, sd)), V.f_mul(2, V.f_add(a, EPS))))), [(R(stddev), R(scv))])
                    else:
                        c.apply_lemma("norm-positive-paper", 2, lambda sd, a: V.b_implies(V.b_and(V.f_lt(0.0, sd), V.f_le(0.0, a)),
                                      V.f_lt(0.0, V.f_mul(V.f_mul(sd, sd), V.f_mul(2, V.f_mul(V.f_add(a, EPS), V.f_add(a, EPS)))))), [(R(stddev), R(scv))])
                    c.apply_lemma("exp-arg-nonpositive", 2, lambda d, nm: V.b_implies(V.b_and(V.f_le(0.0, d), V.f_lt(0.0, nm)), V.f_le(V.f_neg(V.f_div(d, nm)), 0.0)), [(R(d2), R(norm))])
                    c.apply_lemma("exp-arg-zero", 2, lambda d, nm: V.b_implies(V.b_and(V.f_eq(d, 0.0), V.f_lt(0.0, nm)), V.f_eq(V.f_neg(V.f_div(d, nm)), 0.0)), [(R(d2), R(norm))])
                dist = V.ite(miss_pr, float("inf"), d2) if not isinstance(miss_pr, bool) else (float("inf") if miss_pr else d2)
                ks = V.f_exp(V.f_neg(V.f_div(dist, norm)))
                terms.append(V.ite(miss_gt, 0.0, ks) if not isinstance(miss_gt, bool) else (0.0 if miss_gt else ks))
                viss.append(T.cast_scalar(V.b_not(miss_gt), FLOAT))
                if info is not None:
                    info.append(dict(d2=d2, norm=norm, miss_pr=miss_pr, miss_gt=miss_gt))
            if c.symbolic:
                if scale is None:
                    # bounding-box area of the visible gt nodes is non-negative
                    xs = [gt([g, n, 0]) for n in range(N)]
                    ys = [gt([g, n, 1]) for n in range(N)]
                    (xlo, xhi), (ylo, yhi) = _nanrange(xs), _nanrange(ys)
                    c.apply_lemma("product-of-nonnegatives", 2, lambda a, b: V.b_implies(V.b_and(V.f_le(0.0, a), V.f_le(0.0, b)), V.f_le(0.0, V.f_mul(V.f_mul(1.0, a), b))),
                                  [(R(V.f_sub(xhi, xlo)), R(V.f_sub(yhi, ylo)))])

                def agg(*tv):
                    ts, vs = tv[:N], tv[N:]
                    tot = 0.0
                    nv = 0.0
                    for t_, v_ in zip(ts, vs):
                        tot = V.f_add(tot, t_)
                        nv = V.f_add(nv, v_)
                    hyp = V.b_and(*([V.b_and(V.f_le(0.0, t_), V.f_le(t_, v_)) for t_, v_ in zip(ts, vs)] + [V.f_lt(0.0, nv)]))
                    q = V.finite_real(V.sfloat(tot).val / V.sfloat(nv).val)
                    alleq = V.b_and(*[V.f_eq(t_, v_) for t_, v_ in zip(ts, vs)])
                    return V.b_implies(hyp, V.b_and(V.f_le(0.0, q), V.f_le(q, 1.0), V.b_implies(alleq, V.f_eq(q, 1.0))))

                c.apply_lemma("mean-of-bounded-terms-%d" % N, 2 * N, agg, [tuple(R(x) for x in terms + viss)])
            return terms, viss

        def rng(g, p):
            pieces(g, p)
            v = val(g, p)
            return V.b_implies(has_vis(g), V.b_and(V.f_le(0.0, v), V.f_le(v, 1.0)))

        def identical(g, p):
            pieces(g, p)
            same = V.b_and(*[V.f_same(gt([g, n, k]), pr([p, n, k])) for n in range(N) for k in range(2)])
            return V.b_implies(V.b_and(has_vis(g), same), V.f_eq(val(g, p), 1.0))

        def fold(xs):
            tot = 0.0
            for x in xs:
                tot = V.f_add(tot, x)
            return tot

        def monotone(g, p):
            """Moving one predicted keypoint (any node m, to any finite position q) farther from
            its ground-truth target never increases the similarity: a lemma on the closed form
            that post/value ties to the code, for all other coordinates and NaN patterns."""
            if not c.symbolic or N > 2:
                # 3 and 4 nodes (thorough cases): the 3N-variable mean lemma was not validated
                # within the budget, so the clause is generated for 1..2 nodes only (listed bounded)
                return True
            qx, qy = c.g["q"]
            out = []
            for m in range(N):
                i0, i1 = [], []
                t0, v0 = pieces(g, p, info=i0)
                t1, v1 = pieces(g, p, override=(m, (qx, qy)), info=i1)
                d0, d1, nm = i0[m]["d2"], i1[m]["d2"], i0[m]["norm"]
                c.apply_lemma("quotient-antitone-in-numerator", 3,
                              lambda a, b, k: V.b_implies(V.b_and(V.f_le(a, b), V.f_lt(0.0, k)), V.f_le(V.f_neg(V.f_div(b, k)), V.f_neg(V.f_div(a, k)))),
                              [(R(d0), R(d1), R(nm))])

                def agg2(*tv):
                    a, b, vs = tv[:N], tv[N:2 * N], tv[2 * N:]
                    nv = fold(vs)
                    hyp = V.b_and(*([V.f_le(y, x) for x, y in zip(a, b)] + [V.f_lt(0.0, nv)]))
                    qa = V.finite_real(V.sfloat(fold(a)).val / V.sfloat(nv).val)
                    qb = V.finite_real(V.sfloat(fold(b)).val / V.sfloat(nv).val)
                    return V.b_implies(hyp, V.f_le(qb, qa))

                c.apply_lemma("mean-monotone-in-terms-%d" % N, 3 * N, agg2, [tuple(R(x) for x in t0 + t1 + v0)])
                before = V.f_div(fold(t0), fold(v0))
                after = V.f_div(fold(t1), fold(v1))
                farther = V.b_and(V.b_not(i0[m]["miss_pr"]), V.f_le(d0, d1))
                out.append(V.b_implies(V.b_and(has_vis(g), farther), V.f_le(after, before)))
            return V.b_and(*out)

        out = [("PL/oks-in-[0,1]", Forall([G, P], rng)),
               ("PL/identical-poses-score-1", Forall([G, P], identical)),
               ("PL/oks-never-increases-when-a-predicted-keypoint-moves-farther", Forall([G, P], monotone))]
        return out
