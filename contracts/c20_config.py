"""C20 -- programmatic config builders and validators (sleap_nn/train.py, sleap_nn/config/*)."""
import z3

from pyvc import values as V, tensor as T
from pyvc.contracts import Contract, Invariant, contract, invariant, Forall
from pyvc.ctx import PyExc, Unsupported
from pyvc.interp import Obj, SymIter

INTENSITY = ["uniform_noise", "gaussian_noise", "contrast", "brightness"]
GEOMETRIC = ["rotation", "scale", "translate", "erase_scale", "mixup"]


class GhostNameList(list):
    """A list of augmentation names of arbitrary length: every element is one of `names`
    (nondeterministic choice), `seen[name]` records (ghost) which names occurred so far."""

    __pyvc_native__ = True

    def __init__(self, c, label, names):
        list.__init__(self)
        self.names = names
        self.n = c.dim(label + "_len")
        self.seen = {nm: False for nm in names}
        self.label = label

    def __pyvc_iter__(self, interp):
        def get(k):
            j = interp.path.choose(len(self.names), self.label)
            nm = self.names[j]
            self.seen[nm] = True
            return nm

        return SymIter(self.n, get, self.label)

    def __pyvc_truth__(self, interp):
        return V.i_lt(0, self.n)

    def havoc_seen(self):
        self.seen = {nm: V.fresh_bool("seen_" + nm) for nm in self.names}


def _attr(o, k):
    return o.attrs[k] if isinstance(o, Obj) else getattr(o, k)


def _f(obj, *path):
    for p in path:
        obj = obj.attrs[p]
    return obj


def enabled(aug, name):
    """What "the named augmentation is enabled" means in the produced AugmentationConfig."""
    g, it = _attr(aug, "geometric"), _attr(aug, "intensity")
    class _W:
        def __init__(self, o): self.o = o
        @property
        def attrs(self):
            o = self.o
            class D(dict):
                def __getitem__(s_, k): return _attr(o, k)
            return D()
    g, it = _W(g), _W(it)
    ne = lambda a, b: V.b_not(V.f_eq(a, b)) if (V.is_scalar(a) and V.is_scalar(b)) else (a != b)
    eq1 = lambda a: V.f_eq(a, 1.0)
    if name == "rotation":
        return V.b_and(eq1(g.attrs["affine_p"]), ne(g.attrs["rotation"], 0))
    if name == "scale":
        sc = g.attrs["scale"]
        sc = list(sc) if isinstance(sc, (list, tuple)) else sc
        unit = V.b_and(V.f_eq(sc[0], 1.0), V.f_eq(sc[1], 1.0)) if isinstance(sc, list) and len(sc) == 2 else False
        return V.b_and(eq1(g.attrs["affine_p"]), V.b_not(unit))
    if name == "translate":
        return V.b_and(eq1(g.attrs["affine_p"]), ne(g.attrs["translate_height"], 0), ne(g.attrs["translate_width"], 0))
    if name == "erase_scale":
        return eq1(g.attrs["erase_p"])
    if name == "mixup":
        return eq1(g.attrs["mixup_p"])
    return eq1(it.attrs[name + "_p"])


@contract
class GetAugConfig(Contract):
    target = "sleap_nn.train.get_aug_config"
    props = ("C20",)
    level = "property"
    functional = False
    no_crosscheck = True
    cases = ("lists",) + tuple("str:" + n for n in INTENSITY + GEOMETRIC)
    dims = ()

    def inputs(self, c, case):
        if case == "lists":
            if not c.symbolic:
                # replay / random search: concrete lists of distinct names in a concrete order
                def pick(label, names):
                    if label + "_names" in c.values:
                        return list(c.values[label + "_names"])
                    rng = getattr(c, "rng", None)
                    k = rng.randint(0, len(names)) if rng else 0
                    lst = rng.sample(names, k) if rng else []
                    c.log[label + "_names"] = lst
                    return lst
                return dict(intensity_aug=pick("intensity_aug", INTENSITY), geometric_aug=pick("geometric_aug", GEOMETRIC))
            return dict(intensity_aug=GhostNameList(c, "intensity_aug", INTENSITY), geometric_aug=GhostNameList(c, "geometric_aug", GEOMETRIC))
        nm = case.split(":")[1]
        return dict(intensity_aug=(nm if nm in INTENSITY else None), geometric_aug=(nm if nm in GEOMETRIC else None))

    def ensures(self, c, result, intensity_aug, geometric_aug):
        if result is None:
            return [("PL/returns-config", False)]
        out = []
        if isinstance(intensity_aug, list) and not isinstance(intensity_aug, GhostNameList):
            for nm in INTENSITY:
                out.append(("PL/every-named-intensity-augmentation-is-enabled/" + nm, V.b_implies(nm in intensity_aug, enabled(result, nm))))
            for nm in GEOMETRIC:
                out.append(("PL/every-named-geometric-augmentation-is-enabled-whatever-the-order/" + nm, V.b_implies(nm in geometric_aug, enabled(result, nm))))
            return out
        if isinstance(intensity_aug, GhostNameList):
            for nm in INTENSITY:
                out.append(("PL/every-named-intensity-augmentation-is-enabled/" + nm, V.b_implies(intensity_aug.seen[nm], enabled(result, nm))))
            for nm in GEOMETRIC:
                out.append(("PL/every-named-geometric-augmentation-is-enabled-whatever-the-order/" + nm, V.b_implies(geometric_aug.seen[nm], enabled(result, nm))))
        else:
            nm = intensity_aug or geometric_aug
            out.append(("PL/the-named-augmentation-is-enabled/" + nm, enabled(result, nm)))
        return out


def _havoc_cfg(c, obj):
    for k, v in list(obj.attrs.items()):
        if isinstance(v, (int, float)) and not isinstance(v, bool) or V.is_symbolic(v):
            obj.attrs[k] = V.finite_real(V.fresh_real("cfg_" + k))
        elif isinstance(v, (tuple, list)) and all(isinstance(x, (int, float)) or V.is_symbolic(x) for x in v):
            obj.attrs[k] = tuple(V.finite_real(V.fresh_real("cfg_%s_%d" % (k, i))) for i in range(len(v)))


@invariant
class AugIntensityLoop(Invariant):
    target = "sleap_nn.train.get_aug_config"
    ordinal = 0

    def inv(self, c, k, n, env):
        lst, aug = env["intensity_aug"], env["aug_config"]
        return [("named-so-far-are-enabled/" + nm, V.b_implies(lst.seen[nm], enabled(aug, nm))) for nm in INTENSITY]

    def havoc_extra(self, c, env):
        env["intensity_aug"].havoc_seen()
        _havoc_cfg(c, env["aug_config"].attrs["intensity"])


@invariant
class AugGeometricLoop(Invariant):
    target = "sleap_nn.train.get_aug_config"
    ordinal = 1

    def inv(self, c, k, n, env):
        lst, aug = env["geometric_aug"], env["aug_config"]
        il = env["intensity_aug"]
        out = [("named-so-far-are-enabled/" + nm, V.b_implies(lst.seen[nm], enabled(aug, nm))) for nm in GEOMETRIC]
        if isinstance(il, GhostNameList):
            out += [("intensity-untouched/" + nm, V.b_implies(il.seen[nm], enabled(aug, nm))) for nm in INTENSITY]
        return out

    def havoc_extra(self, c, env):
        env["geometric_aug"].havoc_seen()
        _havoc_cfg(c, env["aug_config"].attrs["geometric"])


class Atom:
    """An opaque argument value: only its identity can be observed."""

    __pyvc_native__ = True

    def __init__(self, name):
        self.name = name

    def __repr__(self):
        return "<arg %s>" % self.name


def _get(obj, path):
    for p in path.split("."):
        obj = obj.attrs[p] if isinstance(obj, Obj) else getattr(obj, p)
    return obj


def _same_value(a, b):
    if isinstance(a, Atom) or isinstance(b, Atom):
        return a is b
    if V.is_scalar(a) and V.is_scalar(b):
        return V.same(a, b)
    return a == b


def _obj_equal(interp, a, b):
    """Same option values.  Config objects are compared field by field (names and values),
    not by class: the property is about the values a builder produces, and a preset built as
    `UNetConfig(**overrides)` with the right values is as good as `UNetMediumRFConfig()`."""
    import ast as _ast

    if isinstance(a, Obj) and isinstance(b, Obj) and getattr(a.cls, "is_attrs", False) and getattr(b.cls, "is_attrs", False):
        if set(a.attrs) != set(b.attrs):
            return False
        return V.b_and(*[_obj_equal(interp, a.attrs[k], b.attrs[k]) for k in sorted(a.attrs)])
    r = interp.compare(_ast.Eq(), a, b)
    return interp._as_boolkind(r)


class _Builder(Contract):
    level = "property"
    functional = False
    no_crosscheck = True
    no_replay = True
    dims = ()
    places = {}        # argument name -> dotted path in the result
    numeric = ()       # arguments given as symbolic numbers instead of opaque atoms
    schema = None      # dotted name of the schema class, for the defaults case
    cases = ("all-arguments-supplied", "only-required-arguments")

    fixed = {}          # arguments given a fixed valid concrete value (validated enumerations)
    skip_defaults = ()  # result paths produced from an argument by a non-trivial mapping

    def inputs(self, c, case):
        if case == "only-required-arguments":
            return {k: Atom(k) for k in self.required}
        d = {}
        for k in self.places:
            if k in self.fixed:
                d[k] = self.fixed[k]
            else:
                d[k] = c.real(k) if k in self.numeric else Atom(k)
        return d

    def _mapped(self):
        out = set()
        for v in self.places.values():
            out |= set([v] if isinstance(v, str) else v)
        return out

    def ensures(self, c, result, **args):
        if not isinstance(result, Obj):
            return [("PL/returns-a-config-object", False)]
        out = []
        for k, v in args.items():
            for path in ([self.places[k]] if isinstance(self.places[k], str) else self.places[k]):
                out.append(("PL/argument-%s-is-at-%s-unmodified" % (k, path), _same_value(_get(result, path), v)))
        # every option the builder has no argument for carries the default the schema declares
        interp = c.interp
        mapped = self._mapped()
        import ast as _ast

        def walk(obj, prefix):
            ref = interp.call(obj.cls, [], {})
            for k, v in obj.attrs.items():
                path = prefix + k
                if path in mapped or any(path == s or path.startswith(s + ".") for s in self.skip_defaults):
                    continue
                if isinstance(v, Obj):
                    walk(v, path + ".")
                else:
                    out.append(("PL/option-%s-without-builder-argument-has-the-schema-default" % path,
                                interp._as_boolkind(interp.compare(_ast.Eq(), v, ref.attrs.get(k)))))

        walk(result, "")
        return out


@contract
class GetDataConfig(_Builder):
    target = "sleap_nn.train.get_data_config"
    props = ("C20",)
    required = ("train_labels_path", "val_labels_path")
    schema = "sleap_nn.config.data_config.DataConfig"
    schema_required = {"train_labels_path": "train_labels_path", "val_labels_path": "val_labels_path"}
    numeric = ("scale",)
    places = {
        "train_labels_path": "train_labels_path", "val_labels_path": "val_labels_path", "test_file_path": "test_file_path",
        "provider": "provider", "user_instances_only": "user_instances_only", "data_pipeline_fw": "data_pipeline_fw",
        "np_chunks_path": "np_chunks_path", "litdata_chunks_path": "litdata_chunks_path", "use_existing_chunks": "use_existing_chunks",
        "chunk_size": "chunk_size", "delete_chunks_after_training": "delete_chunks_after_training",
        "is_rgb": "preprocessing.is_rgb", "scale": "preprocessing.scale", "max_height": "preprocessing.max_height",
        "max_width": "preprocessing.max_width", "crop_hw": "preprocessing.crop_hw", "min_crop_size": "preprocessing.min_crop_size",
    }

    def allowed_exception(self, c, exc, **a):
        # the schema rejects negative scales (and nothing else)
        if exc.cls_name == "ValueError" and "scale" in a:
            return V.f_lt(a["scale"], 0.0)
        return False

    def ensures(self, c, result, **args):
        out = _Builder.ensures(self, c, result, **args)
        if "scale" in args:
            out.append(("PL/accepted-scale-is-non-negative", V.f_le(0.0, args["scale"])))
        out.append(("PL/augmentation-config-absent-when-augmentation-is-off", _get(result, "augmentation_config") is None))
        return out


@contract
class GetTrainerConfig(_Builder):
    target = "sleap_nn.train.get_trainer_config"
    props = ("C20",)
    required = ()
    schema = "sleap_nn.config.trainer_config.TrainerConfig"
    schema_required = {}
    places = {
        "batch_size": ["train_data_loader.batch_size", "val_data_loader.batch_size"], "shuffle_train": "train_data_loader.shuffle",
        "num_workers": ["train_data_loader.num_workers", "val_data_loader.num_workers"],
        "ckpt_save_top_k": "model_ckpt.save_top_k", "ckpt_save_last": "model_ckpt.save_last", "trainer_num_devices": "trainer_devices",
        "trainer_accelerator": "trainer_accelerator", "enable_progress_bar": "enable_progress_bar", "steps_per_epoch": "steps_per_epoch",
        "max_epochs": "max_epochs", "seed": "seed", "use_wandb": "use_wandb", "save_ckpt": "save_ckpt", "save_ckpt_path": "save_ckpt_path",
        "resume_ckpt_path": "resume_ckpt_path", "wandb_entity": "wandb.entity", "wandb_project": "wandb.project", "wandb_name": "wandb.name",
        "wandb_api_key": "wandb.api_key", "wandb_mode": "wandb.wandb_mode", "wandb_resume_prv_runid": "wandb.prv_runid", "wandb_group_name": "wandb.group",
        "optimizer": "optimizer_name", "learning_rate": "optimizer.lr", "amsgrad": "optimizer.amsgrad",
        "early_stopping": "early_stopping.stop_training_on_plateau", "early_stopping_min_delta": "early_stopping.min_delta",
        "early_stopping_patience": "early_stopping.patience",
    }
    numeric = ("learning_rate", "early_stopping_min_delta", "early_stopping_patience")
    fixed = {"optimizer": "AdamW", "trainer_num_devices": 3}
    skip_defaults = ("lr_scheduler", "val_data_loader.shuffle")
    cases = _Builder.cases + ("lr:str:step_lr", "lr:str:reduce_lr_on_plateau", "lr:dict:step_lr", "lr:dict:reduce_lr_on_plateau",
                              "lr:dict:None,step_lr", "lr:dict:None,reduce_lr_on_plateau", "lr:dict:step_lr,None", "lr:dict:reduce_lr_on_plateau,None")
    STEP = {"step_size": 7, "gamma": "gamma-value"}
    PLATEAU = {"threshold": "threshold-value", "threshold_mode": "mode-value", "cooldown": "cooldown-value", "patience": "patience-value",
               "factor": "factor-value", "min_lr": 0.5}

    def inputs(self, c, case):
        if not case.startswith("lr:"):
            return _Builder.inputs(self, c, case)
        _, form, what = case.split(":")
        if form == "str":
            return dict(lr_scheduler=what)
        other = {"step_lr": "reduce_lr_on_plateau", "reduce_lr_on_plateau": "step_lr"}
        vals = {"step_lr": {k: (Atom(v) if isinstance(v, str) else v) for k, v in self.STEP.items()},
                "reduce_lr_on_plateau": {k: (Atom(v) if isinstance(v, str) else v) for k, v in self.PLATEAU.items()}}
        d = {}
        keys = what.split(",")
        real = [k for k in keys if k != "None"][0]
        for k in keys:
            if k == "None":
                d[other[real]] = None
            else:
                d[k] = vals[k]
        return dict(lr_scheduler=d)

    def ensures(self, c, result, **args):
        if "lr_scheduler" not in args:
            return _Builder.ensures(self, c, result, **args)
        lr = args["lr_scheduler"]
        sched = _get(result, "lr_scheduler")
        out = []
        if isinstance(lr, str):
            ref = c.interp.call(c.interp.resolve_dotted("sleap_nn.config.trainer_config." + ("StepLRConfig" if lr == "step_lr" else "ReduceLROnPlateauConfig")), [], {})
            out.append(("PL/named-scheduler-with-schema-defaults", _obj_equal(c.interp, _get(sched, lr), ref)))
            other = "reduce_lr_on_plateau" if lr == "step_lr" else "step_lr"
            out.append(("PL/the-other-scheduler-stays-unset", _get(sched, other) is None))
            return out
        for name, sub in lr.items():
            if sub is None:
                out.append(("PL/scheduler-%s-supplied-as-None-stays-None" % name, _get(sched, name) is None))
                continue
            got = _get(sched, name)
            if not isinstance(got, Obj):
                out.append(("PL/scheduler-%s-settings-are-placed-in-the-config" % name, False))
                continue
            for k, v in sub.items():
                out.append(("PL/scheduler-%s.%s-is-the-supplied-value" % (name, k), _same_value(_get(got, k), v)))
        return out

    not_decided = ()

    def allowed_exception(self, c, exc, **a):
        if exc.cls_name == "ValueError" and "learning_rate" in a:
            return V.b_or(V.b_not(V.f_lt(0.0, a["learning_rate"])), V.f_lt(a["early_stopping_min_delta"], 0.0), V.f_lt(a["early_stopping_patience"], 0.0))
        return False


BACKBONES = ["unet", "unet_medium_rf", "unet_large_rf", "convnext", "convnext_tiny", "convnext_small", "convnext_base", "convnext_large",
             "swint", "swint_tiny", "swint_small", "swint_base"]
BACKBONE_SCHEMA = {"unet": ("unet", "UNetConfig"), "unet_medium_rf": ("unet", "UNetMediumRFConfig"), "unet_large_rf": ("unet", "UNetLargeRFConfig"),
                   "convnext": ("convnext", "ConvNextConfig"), "convnext_tiny": ("convnext", "ConvNextConfig"), "convnext_small": ("convnext", "ConvNextSmallConfig"),
                   "convnext_base": ("convnext", "ConvNextBaseConfig"), "convnext_large": ("convnext", "ConvNextLargeConfig"),
                   "swint": ("swint", "SwinTConfig"), "swint_tiny": ("swint", "SwinTConfig"), "swint_small": ("swint", "SwinTSmallConfig"), "swint_base": ("swint", "SwinTBaseConfig")}
HEADS = {"single_instance": "SingleInstanceConfig", "centroid": "CentroidConfig", "centered_instance": "CenteredInstanceConfig", "bottomup": "BottomUpConfig"}


@contract
class GetModelConfig(Contract):
    target = "sleap_nn.train.get_model_config"
    props = ("C20",)
    level = "property"
    functional = False
    no_crosscheck = True
    no_replay = True
    dims = ()
    cases = tuple("%s+%s" % (b, h) for b in BACKBONES for h in HEADS)

    def inputs(self, c, case):
        b, h = case.split("+")
        return dict(init_weight=Atom("init_weight") if False else "default", pre_trained_weights=None,
                    pretrained_backbone_weights=Atom("pretrained_backbone_weights"), pretrained_head_weights=Atom("pretrained_head_weights"),
                    backbone_config=b, head_configs=h)

    def ensures(self, c, result, init_weight, pre_trained_weights, pretrained_backbone_weights, pretrained_head_weights, backbone_config, head_configs):
        if not isinstance(result, Obj):
            return [("PL/returns-a-config-object", False)]
        interp = c.interp
        slot, cls = BACKBONE_SCHEMA[backbone_config]
        ref_b = interp.call(interp.resolve_dotted("sleap_nn.config.model_config." + cls), [], {})
        ref_h = interp.call(interp.resolve_dotted("sleap_nn.config.model_config." + HEADS[head_configs]), [], {})
        bc, hc = _get(result, "backbone_config"), _get(result, "head_configs")
        out = [("PL/arguments-at-their-places", V.b_and(_same_value(_get(result, "pretrained_backbone_weights"), pretrained_backbone_weights),
                                                         _same_value(_get(result, "pretrained_head_weights"), pretrained_head_weights),
                                                         _get(result, "init_weights") == init_weight, _get(result, "pre_trained_weights") is None)),
               ("PL/named-backbone-preset-with-schema-defaults", _obj_equal(interp, _get(bc, slot), ref_b)),
               ("PL/exactly-one-backbone-set", all((_get(bc, s) is None) == (s != slot) for s in ("unet", "convnext", "swint"))),
               ("PL/named-head-with-schema-defaults", _obj_equal(interp, _get(hc, head_configs), ref_h)),
               ("PL/exactly-one-head-set", all((_get(hc, s) is None) == (s != head_configs) for s in HEADS))]
        return out


@contract
class ValidateProportion(Contract):
    """Configuration objects reject out-of-range probabilities (and accept the rest)."""

    target = "sleap_nn.config.data_config.IntensityConfig"
    props = ("C20",)
    level = "property"
    functional = False
    no_crosscheck = True
    no_replay = True
    dims = ()
    cases = ("uniform_noise_p", "gaussian_noise_p", "contrast_p", "brightness_p", "geometric:affine_p", "geometric:erase_p", "geometric:mixup_p")

    def inputs(self, c, case):
        c.case = case
        return dict(p=c.real("p"))

    def run(self, interp, args):
        case = interp.path.case if hasattr(interp.path, "case") else None
        raise Unsupported("run is bound per case")

    def _run(self, interp, args, case):
        geo = case.startswith("geometric:")
        field = case.split(":")[-1]
        cls = interp.resolve_dotted("sleap_nn.config.data_config." + ("GeometricConfig" if geo else "IntensityConfig"))
        return interp.call(cls, [], {field: args["p"]})

    def allowed_exception(self, c, exc, p):
        if exc.cls_name == "ValueError":
            return V.b_not(V.b_and(V.f_le(0.0, p), V.f_le(p, 1.0)))
        return False

    def ensures(self, c, result, p):
        field = c.case.split(":")[-1]
        return [("PL/accepted-probability-is-in-[0,1]-and-stored", V.b_and(V.f_le(0.0, p), V.f_le(p, 1.0), V.same(_get(result, field), p)))]


def _vp_run(self, interp, args):
    return self._run(interp, args, self._cur_case)


ValidateProportion.run = _vp_run


@contract
class OneOf(Contract):
    """More than one backbone / head type at once is rejected; zero or one is accepted."""

    target = "sleap_nn.config.model_config.BackboneConfig"
    props = ("C20",)
    level = "property"
    functional = False
    no_crosscheck = True
    no_replay = True
    dims = ()
    cases = ("backbone", "head")

    def inputs(self, c, case):
        names = ("unet", "convnext", "swint") if case == "backbone" else tuple(HEADS)
        c.case = case
        # each slot is independently None or an (opaque) value
        return {n: c.bool("set_" + n) for n in names}

    def run(self, interp, args):
        case = self._cur_case
        cls = interp.resolve_dotted("sleap_nn.config.model_config." + ("BackboneConfig" if case == "backbone" else "HeadConfig"))
        kw = {}
        for n, flag in args.items():
            kw[n] = Atom(n) if interp.truth(flag) else None
        self._kw = kw
        return interp.call(cls, [], kw)

    def allowed_exception(self, c, exc, **flags):
        if exc.cls_name == "ValueError":
            n = sum(1 for v in self._kw.values() if v is not None)
            return n > 1
        return False

    def ensures(self, c, result, **flags):
        n = sum(1 for v in self._kw.values() if v is not None)
        return [("PL/at-most-one-type-set-when-accepted", n <= 1)]
