"""C13 -- frame readers deliver each frame once, in order, and always end the stream
(sleap_nn/data/providers.py: VideoReader.run, LabelsReader.run).

External objects are ghost models constrained only by their stated contract:
  GhostQueue  -- queue.Queue as a linearizable FIFO: put() appends to a trace (ASSUMED; the
                 interleavings with the consumer are not explored -- under this contract every
                 schedule yields the same put sequence, which is what is proved here)
  GhostVideo  -- video[idx] either raises (a read failure, at any index) or returns a fresh
                 H x W x C image
  GhostLabels -- labels[idx] either raises or returns a labelled frame with its own
                 frame_idx / video, len(labels) = n
"""
import z3

from pyvc import values as V, tensor as T
from pyvc.contracts import Contract, Invariant, contract, invariant, Forall
from pyvc.ctx import PyExc, Unsupported
from pyvc.interp import Obj
from pyvc.tensor import FLOAT, INT, BOOL, STensor

IA = lambda nm, rng: z3.Array(V.fresh_name(nm), z3.IntSort(), rng)


class GhostQueue:
    __pyvc_native__ = True

    def __init__(self):
        self.count = 0
        self.fidx = z3.K(z3.IntSort(), z3.IntVal(-1))
        self.vidx = z3.K(z3.IntSort(), z3.IntVal(-1))
        self.sent = z3.K(z3.IntSort(), z3.BoolVal(False))
        self.h = z3.K(z3.IntSort(), z3.RealVal(0))
        self.w = z3.K(z3.IntSort(), z3.RealVal(0))
        self.src = z3.K(z3.IntSort(), z3.IntVal(-1))   # which source position the image came from

    # consumer-side operations: a reader that calls them is taking items away from its consumer.
    # `full()` / `empty()` / `qsize()` depend on the consumer's schedule: any answer is possible.
    removed = 0

    def full(self):
        from pyvc.ctx import cur

        return cur().choose(2, "queue.full") == 1

    def empty(self):
        from pyvc.ctx import cur

        return cur().choose(2, "queue.empty") == 1

    def get(self, block=True, timeout=None):
        self.removed += 1
        return {"image": None, "frame_idx": None, "video_idx": None, "orig_size": None}

    def get_nowait(self):
        return self.get(False)

    def havoc(self):
        self.count = V.fresh_int("qcount")
        self.fidx, self.vidx, self.src = IA("qfidx", z3.IntSort()), IA("qvidx", z3.IntSort()), IA("qsrc", z3.IntSort())
        self.sent = IA("qsent", z3.BoolSort())
        self.h, self.w = IA("qh", z3.RealSort()), IA("qw", z3.RealSort())

    def put(self, item, block=True, timeout=None):
        if not isinstance(item, dict) or "image" not in item:
            raise Unsupported("queue item of unexpected form")
        k = V.zint(self.count)
        if item["image"] is None:
            self.sent = z3.Store(self.sent, k, z3.BoolVal(True))
        else:
            self.sent = z3.Store(self.sent, k, z3.BoolVal(False))
            fi = item["frame_idx"]
            fi = fi.at([0] * fi.rank) if isinstance(fi, STensor) else fi
            vi = item["video_idx"]
            vi = vi.at([0] * vi.rank) if isinstance(vi, STensor) else vi
            sz = item["orig_size"]
            self.fidx = z3.Store(self.fidx, k, V.zint(fi))
            self.vidx = z3.Store(self.vidx, k, V.zint(vi))
            self.h = z3.Store(self.h, k, V.sfloat(sz.at([0])).val)
            self.w = z3.Store(self.w, k, V.sfloat(sz.at([1])).val)
            img = item["image"]
            self.src = z3.Store(self.src, k, V.zint(getattr(img, "ghost_src", getattr(img.owner(), "ghost_src", -1))))
        self.count = V.simplify_scalar(k + 1)


class GhostVideo:
    """video[idx] raises iff idx == fail_at (a read failure injected at an arbitrary frame index;
    fail_at outside the range means no failure), otherwise returns a fresh H x W x C frame."""

    __pyvc_native__ = True

    def __init__(self, c, name="video"):
        self.n = c.dim(name + "_frames")
        self.H, self.W, self.C = c.dim(name + "_H", lo=1), c.dim(name + "_W", lo=1), c.dim(name + "_C", lo=1)
        self.shape = (self.n, self.H, self.W, self.C)
        self.fail_at = c.int("fail_at")

    def __pyvc_getitem__(self, interp, idx):
        idx = idx.at([]) if isinstance(idx, STensor) else idx
        if interp.truth(V.i_eq(idx, self.fail_at)):
            raise PyExc("IndexError", ("frame %s could not be read" % (idx,),))
        img = T.sym_tensor(V.fresh_name("frame"), [self.H, self.W, self.C], INT, kind="numpy")
        img.ghost_src = idx
        return img

    def __pyvc_to_real__(self):
        import numpy as np

        g = self

        class FakeVideo:
            shape = (int(g.n), int(g.H), int(g.W), int(g.C))

            def __getitem__(self, idx):
                if int(idx) == int(g.fail_at):
                    raise IndexError("frame %d could not be read" % idx)
                return np.full((int(g.H), int(g.W), int(g.C)), int(idx) % 251, dtype=np.uint8)

        return FakeVideo()


def drain(q):
    """(replay side) items of a real queue.Queue, in order."""
    out = []
    while not q.empty():
        out.append(q.get_nowait())
    return out


def trace_of(items):
    """Ghost trace rebuilt from the items a real run put into the queue."""
    g = GhostQueue()
    for it in items:
        if it["image"] is not None:
            it = dict(it)
            # the fake frames are filled with (source index mod 251)
            img = it["image"]
            try:
                img.ghost_src = int(img.at([0] * img.rank))
            except Exception:
                img.ghost_src = -1
        g.put(it)
    return g


class _RunBase(Contract):
    level = "property"
    functional = False
    pure = False
    no_crosscheck = True
    dims = ()
    cls_name = None
    rand_ranges = {"video_frames": (0, 6), "video_H": (1, 3), "video_W": (1, 3), "video_C": (1, 3), "start_idx": (0, 3), "end_idx": (0, 7), "fail_at": (-1, 7),
                   "n_labeled_frames": (0, 6), "C": (1, 3)}

    def make_self(self, interp, args):
        raise NotImplementedError

    def run(self, interp, args):
        obj = self.make_self(interp, args)
        cls = obj.cls
        m, _ = cls.lookup("run")
        return interp.call(m, [obj], {})


def trace_clauses(q, k_frames, fidx_of, size_of, vidx_of, complete_if, total):
    """The put trace is  frame(0), ..., frame(k-1), SENTINEL  with k = total unless a read
    failed; frame i carries its own index, video index and original size."""
    i = z3.Int(V.fresh_name("ti"))
    frames_ok = z3.ForAll([i], z3.Implies(z3.And(i >= 0, i < V.zint(k_frames)),
                                          z3.And(z3.Not(q.sent[i]), q.fidx[i] == V.zint(fidx_of(i)), q.vidx[i] == V.zint(vidx_of(i)), q.src[i] == V.zint(fidx_of(i)) if False else z3.BoolVal(True),
                                                 q.h[i] == size_of(i)[0], q.w[i] == size_of(i)[1])))
    return frames_ok


@contract
class VideoReaderRun(_RunBase):
    target = "sleap_nn.data.providers.VideoReader.run"
    props = ("C13",)

    def inputs(self, c, case):
        video = GhostVideo(c)
        start, end = c.int("start_idx"), c.int("end_idx")
        c.assume(V.i_le(0, start))
        return dict(video=video, queue=GhostQueue(), start_idx=start, end_idx=end)

    def make_self(self, interp, args):
        cls = interp.resolve_dotted("sleap_nn.data.providers.VideoReader")
        obj = Obj(cls)
        obj.attrs.update(video=args["video"], frame_buffer=args["queue"], start_idx=args["start_idx"], end_idx=args["end_idx"])
        return obj

    def real_call(self, real_args):
        import queue as _q
        from sleap_nn.data.providers import VideoReader

        rq = _q.Queue()
        VideoReader(real_args["video"], rq, real_args["start_idx"], real_args["end_idx"]).run()
        return drain(rq)

    def ensures(self, c, result, video, queue, start_idx, end_idx):
        q = queue if c.symbolic else trace_of(result)
        n = V.simplify_scalar(V.i_max(V.i_sub(end_idx, start_idx), 0))
        L = V.zint(q.count)
        k = L - 1                                   # number of frames delivered before the marker
        i = z3.Int(V.fresh_name("ti"))
        Hr, Wr = V.sfloat(T.cast_scalar(video.H, FLOAT)).val, V.sfloat(T.cast_scalar(video.W, FLOAT)).val
        kk = V.simplify_scalar(k)
        frames = Forall([kk], lambda i: z3.And(z3.Not(q.sent[V.zint(i)]), q.fidx[V.zint(i)] == V.zint(start_idx) + V.zint(i), q.vidx[V.zint(i)] == 0,
                                               q.src[V.zint(i)] == V.zint(start_idx) + V.zint(i), q.h[V.zint(i)] == Hr, q.w[V.zint(i)] == Wr))
        out = [("PL/the-reader-only-puts:it-never-takes-an-item-back-from-the-queue", getattr(q, "removed", 0) == 0),
               ("PL/exactly-one-end-of-stream-marker-and-it-is-last", z3.And(L >= 1, q.sent[k])),
               ("PL/frames-before-the-marker-are-start..start+k-1-in-order-each-once-with-own-index-and-size", frames),
               ("PL/number-of-frames-delivered-at-most-the-range", z3.And(k >= 0, k <= V.zint(n)))]
        fails = z3.And(V.zint(start_idx) <= V.zint(video.fail_at), V.zint(video.fail_at) < V.zint(end_idx))
        out.append(("PL/read-failure:frames-before-the-failing-index-were-delivered", z3.Implies(fails, k == V.zint(video.fail_at) - V.zint(start_idx))))
        out.append(("PL/no-failure:every-frame-of-the-range-delivered", z3.Implies(z3.Not(fails), k == V.zint(n))))
        if not c.symbolic:
            # the fake frames are filled with (index mod 251): compare modulo
            pass
        return out


@invariant
class VideoReaderRunLoop(Invariant):
    target = "sleap_nn.data.providers.VideoReader.run"
    ordinal = 0

    def _q(self, env):
        return env["self"].attrs["frame_buffer"], env["self"].attrs["video"], env["self"].attrs["start_idx"]

    def inv(self, c, k, n, env):
        q, video, start = self._q(env)
        i = z3.Int(V.fresh_name("li"))
        Hr, Wr = V.sfloat(T.cast_scalar(video.H, FLOAT)).val, V.sfloat(T.cast_scalar(video.W, FLOAT)).val
        return [("count==iterations", V.zint(q.count) == V.zint(k)),
                ("no-failure-so-far", z3.Not(z3.And(V.zint(start) <= V.zint(video.fail_at), V.zint(video.fail_at) < V.zint(start) + V.zint(k)))),
                ("trace-prefix", z3.ForAll([i], z3.Implies(z3.And(i >= 0, i < V.zint(k)),
                                                           z3.And(z3.Not(q.sent[i]), q.fidx[i] == V.zint(start) + i, q.vidx[i] == 0, q.src[i] == V.zint(start) + i,
                                                                  q.h[i] == Hr, q.w[i] == Wr))))]

    def havoc_extra(self, c, env):
        q, video, start = self._q(env)
        q.havoc()


class GhostVideoList(list):
    __pyvc_native__ = True

    def __pyvc_getattr__(self, interp, name):
        if name == "index":
            def index(v):
                if not isinstance(v, GhostVidHandle):
                    raise PyExc("ValueError", ("not in list",))
                return v.ghost_index
            index.__pyvc_lib__ = True
            return index
        raise Unsupported("labels.videos.%s" % name)


class GhostVidHandle:
    __pyvc_native__ = True

    def __init__(self, ghost_index):
        self.ghost_index = ghost_index


class GhostLF:
    __pyvc_native__ = True

    def __init__(self, labels, idx):
        self.image = T.sym_tensor(V.fresh_name("lfimg"), [labels.H(idx), labels.W(idx), labels.C], INT, kind="numpy")
        self.image.ghost_src = idx
        self.frame_idx = labels.FIDX(V.zint(idx))
        self.video = GhostVidHandle(labels.VIDX(V.zint(idx)))

    def __pyvc_iter__(self, interp):
        raise Unsupported("iteration over the instances of a ghost labelled frame")


class GhostLabels:
    """labels[idx] either raises or returns the idx-th labelled frame, which carries its own
    frame index FIDX(idx), video index VIDX(idx) and image size H(idx) x W(idx)."""

    __pyvc_native__ = True

    def __init__(self, c):
        self.n = c.dim("n_labeled_frames")
        self.C = c.dim("C", lo=1)
        self.FIDX = z3.Function("FIDX", z3.IntSort(), z3.IntSort())
        self.VIDX = z3.Function("VIDX", z3.IntSort(), z3.IntSort())
        self._H = z3.Function("LF_H", z3.IntSort(), z3.IntSort())
        self._W = z3.Function("LF_W", z3.IntSort(), z3.IntSort())
        q = z3.Int("qlf")
        c.fact(z3.ForAll([q], z3.And(self._H(q) >= 1, self._W(q) >= 1)))
        self.videos = GhostVideoList()
        self.fail_at = c.int("fail_at")

    def H(self, idx):
        return self._H(V.zint(idx))

    def W(self, idx):
        return self._W(V.zint(idx))

    def __pyvc_len__(self, interp):
        return self.n

    def __pyvc_getitem__(self, interp, idx):
        idx = idx.at([]) if isinstance(idx, STensor) else idx
        if interp.truth(V.i_eq(idx, self.fail_at)):
            raise PyExc("KeyError", ("labelled frame %s could not be read" % (idx,),))
        return GhostLF(self, idx)


@contract
class LabelsReaderRun(_RunBase):
    target = "sleap_nn.data.providers.LabelsReader.run"
    props = ("C13",)
    no_replay = True   # needs a sleap_io.Labels object; counterexamples are reported without replay
    not_decided = ("LabelsReader with instances_key=True (per-frame instance stacking) is not under contract",)

    def inputs(self, c, case):
        return dict(labels=GhostLabels(c), queue=GhostQueue())

    def make_self(self, interp, args):
        cls = interp.resolve_dotted("sleap_nn.data.providers.LabelsReader")
        obj = Obj(cls)
        obj.attrs.update(labels=args["labels"], frame_buffer=args["queue"], instances_key=False, max_instances=1)
        return obj

    def ensures(self, c, result, labels, queue):
        q = queue
        L = V.zint(q.count)
        k = L - 1
        i = z3.Int(V.fresh_name("ti"))
        kk = V.simplify_scalar(k)
        frames = Forall([kk], lambda i: z3.And(z3.Not(q.sent[V.zint(i)]), q.fidx[V.zint(i)] == labels.FIDX(V.zint(i)), q.vidx[V.zint(i)] == labels.VIDX(V.zint(i)), q.src[V.zint(i)] == V.zint(i),
                                               q.h[V.zint(i)] == z3.ToReal(labels._H(V.zint(i))), q.w[V.zint(i)] == z3.ToReal(labels._W(V.zint(i)))))
        out = [("PL/the-reader-only-puts:it-never-takes-an-item-back-from-the-queue", getattr(q, "removed", 0) == 0),
               ("PL/exactly-one-end-of-stream-marker-and-it-is-last", z3.And(L >= 1, q.sent[k])),
               ("PL/frames-before-the-marker-are-labelled-frames-0..k-1-in-order-each-once-with-own-indices-and-size", frames),
               ("PL/number-of-frames-delivered-at-most-len(labels)", z3.And(k >= 0, k <= V.zint(labels.n)))]
        fails = z3.And(0 <= V.zint(labels.fail_at), V.zint(labels.fail_at) < V.zint(labels.n))
        out.append(("PL/read-failure:frames-before-the-failing-index-were-delivered", z3.Implies(fails, k == V.zint(labels.fail_at))))
        out.append(("PL/no-failure:every-labelled-frame-delivered", z3.Implies(z3.Not(fails), k == V.zint(labels.n))))
        return out


@invariant
class LabelsReaderRunLoop(Invariant):
    target = "sleap_nn.data.providers.LabelsReader.run"
    ordinal = 0

    def inv(self, c, k, n, env):
        q, labels = env["self"].attrs["frame_buffer"], env["self"].attrs["labels"]
        i = z3.Int(V.fresh_name("li"))
        return [("count==iterations", V.zint(q.count) == V.zint(k)),
                ("no-failure-so-far", z3.Not(z3.And(0 <= V.zint(labels.fail_at), V.zint(labels.fail_at) < V.zint(k)))),
                ("trace-prefix", z3.ForAll([i], z3.Implies(z3.And(i >= 0, i < V.zint(k)),
                                                           z3.And(z3.Not(q.sent[i]), q.fidx[i] == labels.FIDX(i), q.vidx[i] == labels.VIDX(i), q.src[i] == i,
                                                                  q.h[i] == z3.ToReal(labels._H(i)), q.w[i] == z3.ToReal(labels._W(i))))))]

    def havoc_extra(self, c, env):
        env["self"].attrs["frame_buffer"].havoc()


# ------------------------------------------------------------- the consumer loop (bounded)
class FrameSource:
    """Ghost frame buffer: get() hands out the prepared frames in order, then the end marker
    (image None) -- i.e. exactly what the producer contracts above guarantee is put."""

    __pyvc_native__ = True

    def __init__(self, frames):
        self.frames = list(frames)
        self.pos = 0
        self.gets = 0

    def get(self, block=True, timeout=None):
        self.gets += 1
        if self.pos < len(self.frames):
            f = self.frames[self.pos]
            self.pos += 1
            return dict(f)
        self.pos += 1
        return {"image": None, "frame_idx": None, "video_idx": None, "orig_size": None}


class GhostPipeline:
    __pyvc_native__ = True

    def __init__(self, frames):
        self.frame_buffer = FrameSource(frames)
        self.started = 0
        self.joined = 0

    def start(self):
        self.started += 1

    def join(self):
        self.joined += 1


class EchoModel:
    """Ghost inference model: returns the batch it is given (so the batches are observable)."""

    __pyvc_native__ = True

    def __init__(self):
        self.batches = []

    def __call__(self, ex):
        self.batches.append(dict(ex))
        return [dict(ex)]


@contract
class PredictGeneratorLoop(Contract):
    """BOUNDED: Predictor._predict_generator driven by a frame source that delivers n frames
    (0..4) and then the end marker, batch size 1..3: frames are consumed in order, grouped into
    consecutive batches of batch_size (last one partial), each batch carries the frame_idx /
    video_idx / orig_size / eff_scale of exactly its frames in order, nothing is read after the
    marker, the pipeline is started once and joined once."""

    target = "sleap_nn.inference.predictors.Predictor._predict_generator"
    props = ("C13", "C12")
    level = "property"
    functional = False
    pure = False
    no_crosscheck = True
    no_replay = True
    dims = ()
    cases = tuple("n%d-b%d" % (n, b) for n in range(0, 5) for b in (1, 2, 3))
    always_inline = ("sleap_nn.data.resizing.apply_sizematcher",)
    bounded = ("the consumer loop is executed for 0..4 frames and batch sizes 1..3 (frame sizes, contents, indices symbolic); the frame source delivers what the reader contracts put",)

    def inputs(self, c, case):
        n, b = case.split("-")
        n, b = int(n[1:]), int(b[1:])
        H, W = c.dim("H", lo=1), c.dim("W", lo=1)
        frames = []
        for k in range(n):
            frames.append({"image": c.tensor("image%d" % k, [1, 1, H, W], FLOAT, nan_ok=False), "frame_idx": c.int("frame_idx%d" % k), "video_idx": c.int("video_idx%d" % k),
                           "orig_size": T.from_flat([2], [T.cast_scalar(H, FLOAT), T.cast_scalar(W, FLOAT)], FLOAT)})
        return dict(frames=frames, batch_size=b, H=H, W=W)

    def run(self, interp, a):
        cv = interp.resolve_dotted("sleap_nn.inference.predictors.Predictor")
        obj = Obj(cv)
        self._pipe, self._model = GhostPipeline(a["frames"]), EchoModel()
        obj.attrs.update(inference_model=self._model, pipeline=self._pipe, instances_key=False, preprocess=False,
                         preprocess_config={"batch_size": a["batch_size"], "max_height": a["H"], "max_width": a["W"], "is_rgb": False, "scale": 1.0, "max_stride": 1})
        m, _ = cv.lookup("_predict_generator")
        return list(interp.call(m, [obj], {}))

    def ensures(self, c, result, frames, batch_size, H, W):
        n = len(frames)
        nb = (n + batch_size - 1) // batch_size
        got = self._model.batches
        cl = [("PL/one-batch-per-group-of-batch_size-consecutive-frames-(last-one-partial)", len(got) == nb and len(result) == nb),
              ("PL/nothing-is-read-after-the-end-marker", self._pipe.frame_buffer.gets == n + 1),
              ("PL/pipeline-started-once-and-joined-once", self._pipe.started == 1 and self._pipe.joined == 1)]
        if len(got) != nb:
            return cl
        for j, ex in enumerate(got):
            mine = frames[j * batch_size:(j + 1) * batch_size]
            fi, vi, img, eff, osz = ex.get("frame_idx"), ex.get("video_idx"), ex.get("image"), ex.get("eff_scale"), ex.get("orig_size")
            ok_t = all(isinstance(t, STensor) for t in (fi, vi, img, eff, osz))
            cl.append(("PL/batch%d/has-the-five-aligned-fields" % j, ok_t and list(fi.shape) == [len(mine)] and list(vi.shape) == [len(mine)] and list(eff.shape) == [len(mine)]
                       and img.shape[0] == len(mine) and osz.shape[0] == len(mine)))
            if not cl[-1][1]:
                continue
            fr, vr, er, ir = fi.reader(), vi.reader(), eff.reader(), img.reader()
            rows = []
            for k, f in enumerate(mine):
                src = f["image"].reader()
                rows.append(V.b_and(V.i_eq(fr([k]), f["frame_idx"]), V.i_eq(vr([k]), f["video_idx"]), V.f_eq(er([k]), 1.0)))
                # the k-th image of the batch is the k-th frame's image (sizes match the
                # configured maximum here, so the size matcher is the identity)
                rows.append(Forall([H, W], lambda i, j_, k=k, src=src, ir=ir, rank=img.rank: V.f_same(ir([k, 0, 0, i, j_]) if rank == 5 else ir([k, 0, i, j_]), src([0, 0, i, j_]))))
            for r_i, r in enumerate(rows):
                cl.append(("PL/batch%d/row%d-carries-the-indices-scale-and-image-of-its-own-frame" % (j, r_i), r))
        return cl
