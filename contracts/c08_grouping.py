"""C08 -- peak grouping terminates with a partition of the detected peaks
(sleap_nn/inference/paf_grouping.py: get_connection_candidates, match_candidates_sample,
group_instances_sample, assign_connections_to_instances, make_predicted_instances,
toposort_edges).

BOUNDED: the per-sample grouping chain that PAFScorer.predict runs after scoring --
get_connection_candidates -> match_candidates_sample -> group_instances_sample (with
toposort_edges order and EdgeTypes built as PAFScorer.__attrs_post_init__ builds them) -- is
symbolically executed on the real source for every tree skeleton on 2..3 nodes (every edge
listing and orientation) with 0..2 detected peaks per node type (cases).  Within a case the
peak coordinates, peak values, the line score of every candidate pair (finite or NaN) and the
minimum line score are symbolic; every outcome of the assignment step (all optimal
assignments) and of every score comparison is explored.  The PAF sampling / scoring functions
are abstracted to "an arbitrary finite-or-NaN score per candidate" (the grouping depends on
the PAFs only through these scores)."""
import itertools

import z3

from pyvc import values as V, tensor as T
from pyvc.contracts import Contract, contract
from pyvc.ctx import PyExc, Unsupported, cur
from pyvc.tensor import FLOAT, INT, BOOL, STensor

PG = "sleap_nn.inference.paf_grouping."

SKELETONS = {
    # name: (n_nodes, edge list)
    "2a": (2, [(0, 1)]),
    "2b": (2, [(1, 0)]),
    "3chain": (3, [(0, 1), (1, 2)]),
    "3chain-rev": (3, [(1, 2), (0, 1)]),
    "3star": (3, [(0, 1), (0, 2)]),
    "3star1": (3, [(1, 0), (1, 2)]),
    "3in-rev": (3, [(2, 1), (1, 0)]),
    "3star2": (3, [(2, 0), (2, 1)]),
}


def _cases(skels, maxp, mips, max_twos=9):
    out = []
    for sk in skels:
        n = SKELETONS[sk][0]
        for counts in itertools.product(range(maxp + 1), repeat=n):
            if sum(1 for x in counts if x >= 2) > max_twos:
                continue  # path explosion: (NaN pattern x assignment x acceptance) per 2x2 edge
            for mip in mips:
                out.append("%s|%s|%s" % (sk, "-".join(map(str, counts)), mip))
    return tuple(out)


def _peak_order(counts):
    """Channel index of every detected peak in the order find_local_peaks lists them
    (position-major, so node types are interleaved): round-robin, highest node first."""
    left = list(counts)
    out = []
    while any(left):
        for node in reversed(range(len(left))):
            if left[node]:
                left[node] -= 1
                out.append(node)
    return out


def _decide(cond):
    """True / False when the path condition settles `cond`, None otherwise."""
    if isinstance(cond, bool):
        return cond
    p = cur()
    if p.provable(cond):
        return True
    if p.provable(V.b_not(cond)):
        return False
    return None


def _sum(xs):
    acc = 0.0
    for x in xs:
        acc = V.f_add(acc, x)
    return acc


@contract
class GroupingChain(Contract):
    target = PG + "group_instances_sample"
    props = ("C08",)
    level = "property"
    functional = False
    pure = False
    no_crosscheck = True
    concretize_masks = True
    always_inline = (PG + "get_connection_candidates", PG + "match_candidates_sample", PG + "assign_connections_to_instances",
                     PG + "make_predicted_instances", PG + "toposort_edges")
    dims = ()
    cases = (_cases(["2a", "2b"], 2, ["0", "2"]) + _cases(["3chain", "3chain-rev", "3star", "3in-rev"], 2, ["0"], max_twos=1)
             + _cases(["3chain-rev", "3star1"], 1, ["1", "2", "3", "0.5", "1.0"]))
    thorough_cases = _cases(["2a", "2b"], 2, ["0", "1", "2", "0.5", "1.0"]) + _cases([k for k in SKELETONS if k[0] == "3"], 2, ["0", "1", "2", "3", "0.5", "1.0"], max_twos=1)
    rand_ranges = {"min_line_scores": (-0.5, 0.9)}
    bounded = ("tree skeletons on 2..3 nodes (all listed edge orders/orientations), 0..2 peaks per node type (3 nodes: at most one node type with 2 peaks), min_instance_peaks in {0,1,2,3,0.5,1.0}; "
               "PAF line scoring abstracted to an arbitrary finite-or-NaN score per candidate pair; reported as a bounded stand-in, not an unbounded proof",)
    not_decided = ("make_line_subs / get_paf_lines / score_paf_lines / compute_distance_penalty (PAF sampling and scoring; interp1d and advanced indexing outside the modelled library subset): "
                   "totality for peaks outside the PAF extent and coincident peaks is NOT decided -- their effect (NaN scores) is covered through the abstract scores",
                   "the *_batch wrappers and PAFScorer.predict glue (torch nested tensors)",
                   "skeletons with more than 3 nodes, more than 2 peaks per node type, max_edge_length_ratio / n_points (scoring parameters)")

    # ---------------------------------------------------------------------------- inputs
    def inputs(self, c, case):
        sk, counts, mip = case.split("|")
        n_nodes, edges = SKELETONS[sk]
        counts = [int(x) for x in counts.split("-")]
        chan = _peak_order(counts)
        n_peaks = len(chan)
        peaks = c.tensor("peaks", [n_peaks, 2], FLOAT, nan_ok=False)
        vals = c.tensor("peak_vals", [n_peaks], FLOAT, nan_ok=False)
        scores = {}
        for k, (s, d) in enumerate(edges):
            sp = [i for i, ch in enumerate(chan) if ch == s]
            dp = [i for i, ch in enumerate(chan) if ch == d]
            for a in sp:
                for b in dp:
                    scores[(k, a, b)] = c.real("score_e%d_p%d_p%d" % (k, a, b), nan_ok=True)
        mls = c.real("min_line_scores")
        # identity of a peak is observable through its coordinates only if they differ
        pr = peaks.reader()
        for a in range(n_peaks):
            for b in range(a + 1, n_peaks):
                c.assume(V.b_not(V.f_eq(pr([a, 0]), pr([b, 0]))))
        return dict(n_nodes=n_nodes, edges=list(edges), chan=chan, peaks=peaks, peak_vals=vals, scores=scores,
                    min_line_scores=mls, min_instance_peaks=(float(mip) if "." in mip else int(mip)))

    # ------------------------------------------------------------------------------- run
    def run(self, interp, a):
        f = lambda name: interp.resolve_dotted(PG + name)
        chan = T.from_flat([len(a["chan"])], list(a["chan"]), INT)
        skel = T.from_nested([list(e) for e in a["edges"]], INT) if a["edges"] else None
        edge_inds, edge_peak_inds = interp.call(f("get_connection_candidates"), [chan, skel, a["n_nodes"]], {})
        # abstract scorer: one arbitrary score per candidate pair, keyed by the peaks it joins
        ei, ep = edge_inds.reader(), edge_peak_inds.reader()
        ncand = edge_inds.shape[0]
        if not isinstance(ncand, int):
            raise Unsupported("symbolic number of candidates")
        ls = []
        for r in range(ncand):
            key = (ei([r]), ep([r, 0]), ep([r, 1]))
            if key not in a["scores"]:
                raise PyExc("AssertionError", ("candidate %r does not join a source peak and a destination peak of its edge" % (key,),))
            ls.append(a["scores"][key])
        line_scores = T.from_flat([ncand], ls, FLOAT)
        matches = interp.call(f("match_candidates_sample"), [edge_inds, edge_peak_inds, line_scores, len(a["edges"])], {})
        ET = f("EdgeType")
        edge_types = [interp.call(ET, [s, d], {}) for (s, d) in a["edges"]]
        order = interp.call(f("toposort_edges"), [edge_types], {})
        groups = interp.call(f("group_instances_sample"),
                             [a["peaks"], a["peak_vals"], chan, matches[0], matches[1], matches[2], matches[3], a["n_nodes"], order, edge_types,
                              a["min_instance_peaks"], a["min_line_scores"]], {})
        return dict(cands=(edge_inds, edge_peak_inds), matches=matches, groups=groups)

    def real_call(self, ra):
        import torch
        from sleap_nn.inference import paf_grouping as pg

        chan = torch.tensor(ra["chan"], dtype=torch.int32)
        skel = torch.tensor(ra["edges"], dtype=torch.int32)
        edge_inds, edge_peak_inds = pg.get_connection_candidates(chan, skel, ra["n_nodes"])
        ls = torch.tensor([float(ra["scores"][(int(e), int(p[0]), int(p[1]))]) for e, p in zip(edge_inds, edge_peak_inds)], dtype=torch.float32)
        matches = pg.match_candidates_sample(edge_inds, edge_peak_inds, ls, len(ra["edges"]))
        edge_types = [pg.EdgeType(s, d) for (s, d) in ra["edges"]]
        order = pg.toposort_edges(edge_types)
        groups = pg.group_instances_sample(ra["peaks"], ra["peak_vals"], chan, matches[0], matches[1], matches[2], matches[3], ra["n_nodes"], order, edge_types,
                                           ra["min_instance_peaks"], float(ra["min_line_scores"]))
        return dict(cands=(edge_inds, edge_peak_inds), matches=matches, groups=groups)

    # --------------------------------------------------------------------------- ensures
    def ensures(self, c, result, n_nodes, edges, chan, peaks, peak_vals, scores, min_line_scores, min_instance_peaks):
        out = []
        node_peaks = [[i for i, ch in enumerate(chan) if ch == n] for n in range(n_nodes)]  # node-grouped -> index into peaks
        # ---- candidates: every (source peak, destination peak) pair of every edge, once
        edge_inds, edge_peak_inds = result["cands"]
        ei, ep = edge_inds.reader(), edge_peak_inds.reader()
        ncand = edge_inds.shape[0]
        got = [(ei([r]), ep([r, 0]), ep([r, 1])) for r in range(ncand)]
        out.append(("PL/candidates-are-all-source-x-destination-pairs-of-each-edge-once", sorted(got) == sorted(scores.keys())))
        # ---- matches
        m_e, m_s, m_d, m_sc = result["matches"]
        nm = m_e.shape[0]
        if not all(isinstance(t, STensor) and t.rank == 1 and t.shape[0] == nm for t in (m_e, m_s, m_d, m_sc)) or not isinstance(nm, int):
            return out + [("PL/matches-are-four-vectors-of-equal-length", False)]
        me, ms, md, msc = m_e.reader(), m_s.reader(), m_d.reader(), m_sc.reader()
        M = [(me([r]), ms([r]), md([r]), msc([r])) for r in range(nm)]
        if not all(isinstance(x, int) for (k, i, j, _) in M for x in (k, i, j)):
            return out + [("PL/match-indices-are-concrete-on-every-path", False)]
        ok_rng = all(0 <= k < len(edges) and 0 <= i < len(node_peaks[edges[k][0]]) and 0 <= j < len(node_peaks[edges[k][1]]) for (k, i, j, _) in M)
        out.append(("PL/matches-join-a-source-peak-and-a-destination-peak-of-their-edge", ok_rng))
        if not ok_rng:
            return out
        one2one = all(not (a[0] == b[0] and (a[1] == b[1] or a[2] == b[2])) for x, a in enumerate(M) for b in M[x + 1:])
        out.append(("PL/matches-are-one-to-one-per-edge", one2one))
        true_score = lambda k, i, j: scores[(k, node_peaks[edges[k][0]][i], node_peaks[edges[k][1]][j])]
        out.append(("PL/every-match-carries-the-line-score-of-its-pair-and-is-scored",
                    V.b_and(*[V.b_and(V.f_same(sc, true_score(k, i, j)), V.b_not(V.f_isnan(sc))) for (k, i, j, sc) in M])))
        for k, (s, d) in enumerate(edges):
            R, C = len(node_peaks[s]), len(node_peaks[d])
            kk = min(R, C)
            mine = [(i, j) for (k2, i, j, _) in M if k2 == k]
            if kk == 0:
                out.append(("PL/edge%d/no-match-without-peaks" % k, not mine))
                continue
            if R <= C:
                assigns = [list(zip(range(R), cols)) for cols in itertools.permutations(range(C), R)]
            else:
                assigns = [sorted(zip(rows, range(C))) for rows in itertools.permutations(range(R), C)]
            scored = lambda a: V.b_and(*[V.b_not(V.f_isnan(true_score(k, i, j))) for (i, j) in a])
            tot = lambda a: _sum([true_score(k, i, j) for (i, j) in a])
            some_complete = V.b_or(*[scored(a) for a in assigns])
            is_complete = len(mine) == kk
            best = V.b_and(*[V.b_implies(scored(b), V.f_le(tot(b), tot(mine))) for b in assigns])
            out.append(("PL/edge%d/matches-maximise-the-total-line-score-among-complete-one-to-one-assignments" % k,
                        V.b_implies(some_complete, V.b_and(is_complete, best))))
        # ---- groups
        g = result["groups"]
        if not (isinstance(g, tuple) and len(g) == 3 and all(isinstance(t, STensor) for t in g)):
            return out + [("PL/returns-three-arrays", False)]
        inst, pk, isc = g
        ni = inst.shape[0]
        out.append(("PL/group-shapes", isinstance(ni, int) and list(inst.shape) == [ni, n_nodes, 2] and list(pk.shape) == [ni, n_nodes] and list(isc.shape) == [ni]))
        if not out[-1][1]:
            return out
        ir, pkr, scr = inst.reader(), pk.reader(), isc.reader()
        prd, pvr = peaks.reader(), peak_vals.reader()
        # accepted matches: score >= min_line_scores (every comparison is settled on a path of
        # the real code; an unsettled one is enumerated both ways)
        flags = [_decide(V.f_le(min_line_scores, sc)) for (_, _, _, sc) in M]
        und = [x for x, fl in enumerate(flags) if fl is None]
        if len(und) > 4:
            raise Unsupported("more than 4 unsettled score comparisons")
        thr = min_instance_peaks if isinstance(min_instance_peaks, int) else int(min_instance_peaks * n_nodes)
        alts = []
        for combo in itertools.product([True, False], repeat=len(und)):
            fl = list(flags)
            hyp = []
            for x, v in zip(und, combo):
                fl[x] = v
                cond = V.f_le(min_line_scores, M[x][3])
                hyp.append(cond if v else V.b_not(cond))
            acc = [m for m, ok in zip(M, fl) if ok]
            # connected components of the accepted matches over peaks (node, index in node)
            parent = {}

            def find(x):
                while parent.setdefault(x, x) != x:
                    x = parent[x]
                return x

            for (k, i, j, _) in acc:
                a, b = (edges[k][0], i), (edges[k][1], j)
                parent[find(a)] = find(b)
            comps = {}
            for x in list(parent):
                comps.setdefault(find(x), []).append(x)
            comps = [sorted(v) for v in comps.values()]
            kept = [cp for cp in comps if thr <= 0 or len(cp) >= thr]
            if any(len(set(n for n, _ in cp)) != len(cp) for cp in kept):
                # cannot happen for a tree skeleton with one-to-one matches
                alts.append(V.b_implies(V.b_and(*hyp) if hyp else True, False))
                continue
            if len(kept) != ni:
                alts.append(V.b_implies(V.b_and(*hyp) if hyp else True, False))
                continue

            def row_is(r, cp):
                cl = []
                members = dict(cp)
                for n in range(n_nodes):
                    if n in members:
                        p = node_peaks[n][members[n]]
                        cl += [V.f_same(ir([r, n, 0]), prd([p, 0])), V.f_same(ir([r, n, 1]), prd([p, 1])), V.f_same(pkr([r, n]), pvr([p]))]
                    else:
                        cl += [V.f_isnan(ir([r, n, 0])), V.f_isnan(ir([r, n, 1])), V.f_isnan(pkr([r, n]))]
                esc = [sc for (k, i, j, sc) in acc if (edges[k][0], i) in cp]
                cl.append(V.f_same(scr([r]), _sum(esc)))
                return V.b_and(*cl)

            perms = [V.b_and(*[row_is(r, kept[q]) for r, q in enumerate(perm)]) for perm in itertools.permutations(range(ni))]
            alts.append(V.b_implies(V.b_and(*hyp) if hyp else True, V.b_or(*perms) if perms else True))
        out.append(("PL/instances-are-the-connected-components-of-the-accepted-matches-with-their-peaks-scores-and-summed-edge-scores", V.b_and(*alts)))
        return out
