"""C07 -- global peak detection (sleap_nn/inference/peak_finding.py: find_global_peaks*)."""
import itertools

import z3

from pyvc import values as V, tensor as T
from pyvc.contracts import Contract, contract, Forall
from pyvc.ctx import Unsupported
from pyvc.tensor import FLOAT, INT, BOOL, STensor


def global_clauses(c, result, cms, threshold, half=None, position_hyp=None, patch=None, no_bound=False):
    """For every (sample, channel): if the map's maximum is >= threshold the reported point is
    a cell attaining the maximum and the reported value is the maximum; otherwise the point
    is NaN and the value 0.  `half`: refined points lie within half a patch of such a cell."""
    if not (isinstance(result, tuple) and len(result) == 2 and all(isinstance(x, STensor) for x in result)):
        return [("PL/returns-2-tensors", False)]
    pts, vals = result
    if pts.rank != 3 or vals.rank != 2:
        return [("PL/ranks", False)]
    S, C, H, W = cms.shape
    cr, pr, vr = cms.reader(), pts.reader(), vals.reader()
    out = [("PL/shapes", V.b_and(V.i_eq(pts.shape[0], S), V.i_eq(pts.shape[1], C), V.i_eq(pts.shape[2], 2), V.i_eq(vals.shape[0], S), V.i_eq(vals.shape[1], C)))]

    def is_upper_bound(v, s, cc):
        if isinstance(H, int) and isinstance(W, int):
            return V.b_and(*[V.f_le(cr([s, cc, i, j]), v) for i in range(H) for j in range(W)])
        i, j = z3.Int(V.fresh_name("ub_i")), z3.Int(V.fresh_name("ub_j"))
        return z3.ForAll([i, j], V.zbool(V.b_implies(V.b_and(i >= 0, V.i_lt(i, H), j >= 0, V.i_lt(j, W)), V.f_le(cr([s, cc, i, j]), v))))

    def exists_cell(pred):
        if isinstance(H, int) and isinstance(W, int):
            return V.b_or(*[pred(i, j) for i in range(H) for j in range(W)])
        i, j = z3.Int(V.fresh_name("ex_i")), z3.Int(V.fresh_name("ex_j"))
        return z3.Exists([i, j], V.zbool(V.b_and(i >= 0, V.i_lt(i, H), j >= 0, V.i_lt(j, W), pred(i, j))))

    def coord_is(p, cell):
        cellf = T.cast_scalar(cell, FLOAT)
        if half is None:
            return V.f_eq(p, cellf)
        return V.b_and(V.f_le(V.f_sub(cellf, half), p), V.f_le(p, V.f_add(cellf, half)))

    def has_above(s, cc):
        # "the map's maximum reaches the threshold"  <=>  some cell does
        return exists_cell(lambda i, j: V.f_le(threshold, cr([s, cc, i, j])))

    def above(s, cc):
        v = vr([s, cc])
        x, y = pr([s, cc, 0]), pr([s, cc, 1])
        # the reported value is the maximum and the point is a cell where the map attains it
        # (refined: within half a patch of such a cell)
        gpk = c.path.ghosts.get("gpk") if (half is not None and getattr(c, "symbolic", False)) else None
        if gpk is not None:
            # witness form (implies the existential): the cell is the one the rough detector's
            # contract exposes, (AI(s,c), AJ(s,c))
            _, AI, AJ = gpk
            wi, wj = AI(V.zint(s), V.zint(cc)), AJ(V.zint(s), V.zint(cc))
            in_rng = V.b_and(wi >= 0, V.i_lt(wi, H), wj >= 0, V.i_lt(wj, W))
            at_max = V.b_and(in_rng, coord_is(x, wj), coord_is(y, wi), V.f_same(cr([s, cc, wi, wj]), v))
            attained = V.b_and(in_rng, V.f_same(cr([s, cc, wi, wj]), v))
        else:
            at_max = exists_cell(lambda i, j: V.b_and(coord_is(x, j), coord_is(y, i), V.f_same(cr([s, cc, i, j]), v)))
            attained = exists_cell(lambda i, j: V.f_same(cr([s, cc, i, j]), v))
        if half is not None and position_hyp is not None:
            at_max = V.b_implies(position_hyp, at_max)
        if no_bound:
            at_max = True  # even patch sizes: the bound on the move is not decided (see not_decided)
        return V.b_implies(has_above(s, cc), V.b_and(is_upper_bound(v, s, cc), attained, at_max))

    def below(s, cc):
        return V.b_implies(V.b_not(has_above(s, cc)), V.b_and(V.f_same(vr([s, cc]), 0.0), V.f_isnan(pr([s, cc, 0])), V.f_isnan(pr([s, cc, 1]))))

    out.append(("PL/maximum>=threshold:value-is-the-maximum-and-point-is-a-cell-attaining-it", Forall([S, C], above)))
    out.append(("PL/maximum<threshold:NaN-point-and-value-0", Forall([S, C], below)))
    if patch is not None:
        R = patch // 2
        offs = [(di, dj) for di in range(-R, R + 1) for dj in range(-R, R + 1) if (di, dj) > (0, 0)]

        def sym_about(s, cc, wi, wj):
            inside = V.b_and(V.i_le(R, wi), V.i_le(V.i_add(wi, R), V.i_sub(H, 1)), V.i_le(R, wj), V.i_le(V.i_add(wj, R), V.i_sub(W, 1)))
            eqs = [V.f_same(cr([s, cc, V.i_add(wi, di), V.i_add(wj, dj)]), cr([s, cc, V.i_sub(wi, di), V.i_sub(wj, dj)])) for (di, dj) in offs]
            return inside, eqs

        def unmoved(s, cc):
            x, y = pr([s, cc, 0]), pr([s, cc, 1])
            gpk = c.path.ghosts.get("gpk") if getattr(c, "symbolic", False) else None
            if gpk is not None:
                _, AI, AJ = gpk
                wi, wj = AI(V.zint(s), V.zint(cc)), AJ(V.zint(s), V.zint(cc))
            elif isinstance(H, int) and isinstance(W, int):
                # concrete evaluation: the first (row-major) cell attaining the maximum
                cells = [(i, j) for i in range(H) for j in range(W)]
                best = cells[0]
                for ij in cells[1:]:
                    if cr([s, cc, ij[0], ij[1]]) > cr([s, cc, best[0], best[1]]):
                        best = ij
                wi, wj = best
            else:
                return True
            inside, eqs = sym_about(s, cc, wi, wj)
            if inside is False:
                return True
            hyp = V.b_and(has_above(s, cc), inside, *eqs)
            if position_hyp is not None:
                hyp = V.b_and(position_hyp, hyp)
            return V.b_implies(hyp, V.b_and(V.f_eq(x, T.cast_scalar(wj, FLOAT)), V.f_eq(y, T.cast_scalar(wi, FLOAT))))

        out.append(("PL/symmetric-bump-centred-on-a-cell-is-left-unmoved", Forall([S, C], unmoved)))
    return out


class _GBase(Contract):
    level = "property"
    functional = False
    dims = ("S", "C", "H", "W")
    dim_ranges = {"S": (1, 2), "C": (1, 2), "H": (1, 2), "W": (1, 2)}
    rand_ranges = {"S": (1, 2), "C": (1, 3), "H": (2, 6), "W": (2, 6), "cms": (0.0, 3.0), "threshold": (0.0, 2.0)}

    def _inputs(self, c):
        S, C, H, W = c.dim("S", lo=1), c.dim("C", lo=1), c.dim("H", lo=1), c.dim("W", lo=1)
        # domain: finite maps (a NaN cell makes torch.max, hence the reported value, NaN)
        return dict(cms=c.tensor("cms", [S, C, H, W], FLOAT, nan_ok=False), threshold=c.real("threshold"))

    def _requires(self, cms, threshold):
        return [("rank4", cms.rank == 4),
                ("non-empty-map", V.b_and(V.i_le(1, cms.shape[0]), V.i_le(1, cms.shape[1]), V.i_le(1, cms.shape[2]), V.i_le(1, cms.shape[3])))]


@contract
class FindGlobalPeaksRough(_GBase):
    target = "sleap_nn.inference.peak_finding.find_global_peaks_rough"
    props = ("C07", "C12", "C02")

    def inputs(self, c, case):
        return self._inputs(c)

    def requires(self, c, cms, threshold=0.1):
        return self._requires(cms, threshold)

    def ensures(self, c, result, cms, threshold=0.1):
        return global_clauses(c, result, cms, threshold)

    def post(self, c, cms, threshold=0.1):
        return rough_post(c, cms, threshold)


def rough_post(c, cms, threshold):
    """Skolemised form of the rough contract for callers: M(s,c) bounds every cell and is
    attained at the in-range cell (AI(s,c), AJ(s,c)); the point is (AJ, AI) and the value M
    when M >= threshold, NaN / 0 otherwise."""
    S, C, H, W = cms.shape
    cr = cms.reader()
    nm = V.fresh_name("gpk")
    Mv = z3.Function(nm + "_m", z3.IntSort(), z3.IntSort(), z3.RealSort())
    AI = z3.Function(nm + "_i", z3.IntSort(), z3.IntSort(), z3.IntSort())
    AJ = z3.Function(nm + "_j", z3.IntSort(), z3.IntSort(), z3.IntSort())
    s_, c_, i_, j_ = [z3.Int(V.fresh_name("g")) for _ in range(4)]
    rng_sc = V.b_and(s_ >= 0, V.i_lt(s_, S), c_ >= 0, V.i_lt(c_, C))
    rng_ij = V.b_and(i_ >= 0, V.i_lt(i_, H), j_ >= 0, V.i_lt(j_, W))
    sk = V.sink()
    cell = V.sfloat(cr([s_, c_, i_, j_]))
    sk.add(z3.ForAll([s_, c_, i_, j_], V.zbool(V.b_implies(V.b_and(rng_sc, rng_ij), Mv(s_, c_) >= cell.val))))
    at = V.sfloat(cr([s_, c_, AI(s_, c_), AJ(s_, c_)]))
    sk.add(z3.ForAll([s_, c_], V.zbool(V.b_implies(rng_sc, V.b_and(AI(s_, c_) >= 0, V.i_lt(AI(s_, c_), H), AJ(s_, c_) >= 0, V.i_lt(AJ(s_, c_), W),
                                                                      at.val == Mv(s_, c_)))), patterns=[Mv(s_, c_)]))
    c.path.ghosts["gpk"] = (Mv, AI, AJ)
    # the bound  M(s,c) >= cms[s,c,i,j]  kept for explicit instantiation by callers' clauses
    from pyvc.contracts import Forall as _Forall

    c.path.ghosts.setdefault("call_facts", {}).setdefault("sleap_nn.inference.peak_finding.find_global_peaks", []).append(
        _Forall([S, C, H, W], lambda s, cc, i, j: V.f_le(cr([s, cc, i, j]), V.finite_real(Mv(V.zint(s), V.zint(cc))))))

    def pt(idx):
        s, cc, k = idx
        m = V.finite_real(Mv(V.zint(s), V.zint(cc)))
        coord = V.ite(V.i_eq(k, 0), AJ(V.zint(s), V.zint(cc)), AI(V.zint(s), V.zint(cc))) if not isinstance(k, int) else (AJ if k == 0 else AI)(V.zint(s), V.zint(cc))
        return V.f_ite(V.zbool(V.f_lt(m, threshold)), float("nan"), T.cast_scalar(coord, FLOAT))

    def vl(idx):
        s, cc = idx
        m = V.finite_real(Mv(V.zint(s), V.zint(cc)))
        return V.f_ite(V.zbool(V.f_lt(m, threshold)), 0.0, m)

    return (T.from_fn([S, C, 2], FLOAT, pt), T.from_fn([S, C], FLOAT, vl))


@contract
class FindGlobalPeaks(_GBase):
    target = "sleap_nn.inference.peak_finding.find_global_peaks"
    props = ("C07", "C12", "C02")
    # "integralP@SxC": integral refinement, patch size P, a batch of S samples x C channels
    cases = ("none", "integral5@1x1", "integral5@1x2", "integral3@2x1", "integral2@1x1")
    thorough_cases = cases + ("integral1@1x1", "integral3@1x1", "integral3@1x2")
    bounded = ("find_global_peaks(refinement='integral') is verified for concrete batch x channel counts (1x1, 1x2, 2x1; for 2x2 both solvers return unknown within budget) and unrolled patch sizes "
               "(quick 2,3,5; thorough adds 1; for 7 the solvers' verdict is unstable within budget, not claimed); map height/width, cell values and the threshold stay symbolic.  With symbolic batch/channel counts the "
               "same obligations are generated but z3/cvc5 return unknown (index bounds through the (S*C) flattening), so that case is not claimed",)
    not_decided = ("integral refinement with even patch sizes other than 2 (half-pixel crop boxes: for size 4 the bound obligation is generated but both solvers return unknown)",
                   "'on a Gaussian bump the refinement moves the estimate toward the true sub-pixel centre' (analytic fact about sampled Gaussians; "
                   "the bound on the move and 'a symmetric bump centred on a cell, window inside the image, is left unmoved' ARE decided)",
                   "integral refinement on maps with a one-pixel side (outside the trusted kornia crop contract) and on maps with negative cells (see known finding C06/negative-patch)")

    def inputs(self, c, case):
        if case == "none":
            d = self._inputs(c)
            d.update(refinement=None, integral_patch_size=5)
        else:
            # "integralP@SxC": integral refinement with a concrete batch/channel count
            P, sc = (case[len("integral"):].split("@") + [None])[:2]
            S, C = [int(x) for x in sc.split("x")] if sc else (c.dim("S", lo=1), c.dim("C", lo=1))
            H, W = c.dim("H", lo=1), c.dim("W", lo=1)
            d = dict(cms=c.tensor("cms", [S, C, H, W], FLOAT, nan_ok=False, lo=0.0), threshold=c.real("threshold"))
            c.assume(V.f_lt(0.0, d["threshold"]))
            d.update(refinement="integral", integral_patch_size=int(P))
        return d

    def requires(self, c, cms, threshold=0.2, refinement=None, integral_patch_size=5):
        ok = self._requires(cms, threshold)
        if refinement == "integral":
            ok.append(("int-patch", isinstance(integral_patch_size, int) and integral_patch_size >= 1))
            ok.append(("map-at-least-2x2", V.b_and(V.i_le(2, cms.shape[2]), V.i_le(2, cms.shape[3]))))
        return ok

    def ensures(self, c, result, cms, threshold=0.2, refinement=None, integral_patch_size=5):
        if refinement != "integral":
            return global_clauses(c, result, cms, threshold)
        half = (integral_patch_size - 1) / 2
        cr = cms.reader()
        if c.symbolic:
            idx = [z3.Int(V.fresh_name("nn")) for _ in range(4)]
            rng = V.b_and(*[V.b_and(i >= 0, V.i_lt(i, d)) for i, d in zip(idx, cms.shape)])
            v = V.sfloat(cr(idx))
            hyp = V.b_and(z3.ForAll(idx, V.zbool(V.b_implies(rng, v.val >= 0))), V.f_lt(0.0, threshold))
            c.instantiate_all_call_facts = True
            return global_clauses(c, result, cms, threshold, half=half, position_hyp=hyp, patch=integral_patch_size, no_bound=False)
        cells = itertools.product(*[range(int(d)) for d in cms.shape])
        in_region = any(cr(list(ix)) < 0 for ix in cells) or threshold <= 0
        return global_clauses(c, result, cms, threshold, half=(1e9 if in_region else half), patch=(None if in_region else integral_patch_size), no_bound=False)

    def post(self, c, cms, threshold=0.2, refinement=None, integral_patch_size=5):
        if refinement != "integral":
            return rough_post(c, cms, threshold)
        raise Unsupported("find_global_peaks(refinement='integral') is used through inlining only")
