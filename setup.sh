#!/bin/bash
# Offline setup: z3 for the replay/cross-check side (/venv/bin/python, 3.12).
cd "$(dirname "$0")"
mkdir -p .build evidence replays
if [ ! -d .build/py312/z3 ]; then
  PIP_NO_INDEX=1 /venv/bin/python -m pip install --quiet --no-index --find-links /opt/veriftools/wheels --target .build/py312 z3-solver
fi
python3-vt -c "import z3; print('z3', z3.get_version_string())"
PYTHONPATH=.build/py312 /venv/bin/python -c "import z3; print('replay-side z3 ok')"
