#!/usr/bin/env python3
"""Regenerate MANIFEST.json from the table below (kept valid at all times)."""
import json, os

HERE = os.path.dirname(os.path.abspath(__file__))
BASE_CMD = "cd /repo && /venv/bin/python -m pytest -ra -q -p no:cacheprovider --timeout=900 --continue-on-collection-errors"

CLAIMED = {
    "C01": dict(
        category="proof",
        text="Functional contracts on make_grid_vectors, make_confmaps, make_multi_confmaps (loop invariant), generate_confmaps, generate_multiconfmaps; the real source text is symbolically executed and every obligation (value = Gaussian of the grid/keypoint distance with sigma*stride, per-cell maximum over animals, range [0,1], finiteness, zero channel for missing keypoints, largest value at the nearest cell, shape) is discharged by z3 for all shapes, strides, sigmas and NaN patterns.",
        note="floats are extended reals with NaN (no rounding); torch op models in pyvc/lib_torch.py are trusted and cross-checked against the real library on random inputs; batch axis of the multi-instance variant fixed to one sample (all call sites); DataPipe wrappers covered under C18.",
        technique="contract-based deductive verification: symbolic execution of the real Python source against sidecar contracts, VCs discharged by z3 (cvc5 for unknowns)",
        design="3/C01",
    ),
    "C05": dict(
        category="proof",
        text="Contracts on distance_to_edge, make_edge_maps, make_pafs, make_multi_pafs (loop invariant over a ghost fold-sum), get_edge_points and generate_pafs. Proved for all shapes/strides/sigmas/NaN patterns: each animal's field is the unit vector source->destination times a weight in [0,1] that is non-increasing in the distance and (for edges of length >= 1 px) 1 on the segment; NaN-endpoint and zero-length edges contribute exactly 0; the output is the sum over the kept animals (induction lemma: sum over selected rows == masked sum over all animals), never NaN/inf, shape (2E, ceil(H/s), ceil(W/s)) with channels edge0.x, edge0.y, ...; animals kept have a node strictly inside the image.",
        note="floats as extended reals; generic real-arithmetic lemmas proved in isolation and instantiated explicitly; known finding C05/short-edge (edges shorter than 1 px) is carved out by the hypothesis |dst-src|^2 >= 1 and re-confirmed against the real code from a committed witness on every run; PartAffinityFieldsGenerator DataPipe covered under C18.",
        technique="contract-based deductive verification: symbolic execution of the real Python source against sidecar contracts, loop invariant + ghost fold-sum, VCs discharged by z3 (cvc5 for unknowns)",
        design="3/C05",
    ),
    "C06": dict(
        category="proof",
        text="Contracts on find_local_peaks_rough, find_local_peaks, integral_regression and make_centered_bboxes. The rough detector is proved sound, complete and duplicate-free against the brute-force definition (value > threshold and strictly greater than every in-bounds 8-neighbour), with the right sample/channel indices, (x,y) order and value, for all batch/channel/map sizes (incl. 1xN and single-pixel maps), NaN cells and thresholds >= -1e4; independence of other samples/channels is a corollary (the characterisation mentions only map (s,c)). With integral refinement the rows, order, indices and values are unchanged and the refined point lies within (patch-1)/2 of its grid cell (hull lemma of integral_regression) for maps without negative/NaN cells.",
        note="trusted: kornia dilation (pad and zero-kernel offset -1e4, read from the installed source), kornia crop_and_resize restricted to unit-scale axis-aligned boxes on images with sides >= 2 and finite 3x3 neighbourhoods, torch.where row-major selection contract; patch sizes unrolled (quick 5; thorough 1,3,5,7); known finding C06/negative-patch carved out and re-confirmed from a committed witness on every run.",
        technique="contract-based deductive verification: symbolic execution of the real Python source against sidecar contracts, VCs discharged by z3 (cvc5 for unknowns)",
        design="3/C06",
    ),
    "C07": dict(
        category="proof",
        text="Contracts on find_global_peaks_rough and find_global_peaks (no refinement): for every (sample, channel), if some cell reaches the threshold the reported value bounds every cell, is attained, and the reported point is a cell attaining it; otherwise the point is NaN and the value 0 -- for all map sizes, ties, batch/channel counts and thresholds; relational: the same map as the only channel and as channel b among several gives the same point and value ('one channel's result does not depend on the others'; with integral refinement for 1 vs 2 channels, patch 3/5). The tied-maxima defect of the pinned tree was found by this check and repaired (fix: commit 4cbc914).",
        note="domain: finite maps (no NaN cells); torch.max contract = documented guarantee (a maximal value and an index attaining it; row-major flat index for the merged H*W axis). Not decided: integral refinement of global peaks (obligations generated, solver unknown) and the analytic 'moves toward the true centre' clause.",
        technique="contract-based deductive verification: symbolic execution of the real Python source against sidecar contracts, VCs discharged by z3 (cvc5 for unknowns)",
        design="3/C07",
    ),
    "C15": dict(
        category="proof",
        text="Contracts on compute_instance_area and compute_oks: the result equals the closed form sum over gt-visible nodes of (prediction missing ? 0 : exp(-d^2/norm)) / #gt-visible (both normalisations, scalar scale or bounding-box area) for any number of gt/predicted instances, coordinates and NaN patterns; from it: OKS in [0,1], 1 for identical poses, gt-missing nodes ignored, prediction-missing nodes score 0, result entry (g,p) depends only on poses g and p (re-ordering instances permutes the matrix), and no exception escapes. BOUNDED part (shared with C16): match_instances for 1..2 ground-truth x 0..2 predicted instances: pairs / false negatives are instances of the two frames, nothing matched twice, the false negatives are exactly the unmatched ground truth, match scores in (0,1]. The IndexError for more than one prediction in the pinned tree was found by the totality obligation and repaired (fix: commit 727654a).",
        note="node axis unrolled (1..2 nodes quick, 1..4 thorough); domain: >= 1 gt-visible node, stddev > 0, scale >= 0; numpy op models trusted and cross-checked. Monotonicity in the keypoint distance is a discharged lemma on the closed form (skeletons of 1..2 nodes, any node, any finite alternative position). Not decided: translation invariance as a separate obligation, greedy_matching / compute_iou / compute_cosine_sim, larger frames in match_instances.",
        technique="contract-based deductive verification: symbolic execution of the real Python source against sidecar contracts, generic arithmetic lemmas instantiated explicitly, VCs discharged by z3 (cvc5 for unknowns)",
        design="3/C15",
    ),
    "C04": dict(
        category="proof",
        text="Contracts on the functional geometry API: find_padding_for_stride (0 <= pad < stride, sum divisible, 0 when divisible), apply_pad_to_stride (output sides the smallest multiples of the stride, content unmoved, zeros only at bottom/right), resize_image / apply_resizer (size int(side*scale); keypoints multiplied by scale exactly when the image is resized; unit scale is the identity), apply_sizematcher (output exactly (max_height, max_width), eff_scale the smaller side ratio, identity when sizes match), make_centered_bboxes, generate_crops (crop exactly crop_size; keypoints, centroid and pixels shifted by the same top-left corner; missing keypoints stay missing), and the resize registration lemma (content lands within one output pixel of the scaled keypoint when the size truncation loses <= 0.5 px). All for symbolic sizes, strides, scales, centroids.",
        note="trusted: torchvision resize (shape + documented sampling map), F.pad, kornia crop_and_resize (unit-scale boxes, sides >= 2). Known finding C04/resize-truncation carved out of the registration lemma and re-confirmed from a committed witness. Not decided: geometric/intensity augmentation (kornia AugmentationSequential), the CenteredInstanceDataset re-crop, find_instance_crop_size, the four Dataset classes end to end (sleap_nn.data.augmentation/custom_datasets do not import in this environment and need sio/kornia object models).",
        technique="contract-based deductive verification: symbolic execution of the real Python source against sidecar contracts, VCs discharged by z3 (cvc5 for unknowns)",
        design="3/C04",
    ),
    "C11": dict(
        category="proof",
        text="Frame (no write to argument storage) and label-preservation contracts: generate_centroids (result = anchor if visible else bounding-box midpoint of the visible nodes, NaN when none; input keypoints untouched), find_points_bbox_midpoint, generate_crops, apply_resizer, apply_pad_to_stride and the confidence-map / PAF generators (every argument tensor provably unmodified on every path; missing keypoints stay NaN / contribute a zero channel). BOUNDED part: process_lf on frames with 1..3 instances (user-made / predicted patterns, each possibly empty), 1..2 nodes: the sample holds exactly the non-empty labelled instances in order with their coordinates unchanged (missing keypoints stay NaN) followed by NaN padding, num_instances is their count, the image is the frame image channel-first, and it carries its own frame / video index and size. The write-through of the fallback midpoint into the caller's keypoints in the pinned tree was found by the frame obligation and repaired (fix: commit in known_findings.txt).",
        note="node axis of the centroid functions unrolled (1..3 nodes). Aliasing rules of torch views/copies are part of the trusted tensor model. Not decided: the Dataset classes (__getitem__ determinism over call sequences, cache immutability, _get_lf_idx_list/_get_instance_idx_list filters, __len__) -- custom_datasets does not import here and needs sleap_io / kornia object models.",
        technique="contract-based deductive verification: symbolic execution with storage/alias tracking, frame obligations discharged by z3",
        design="3/C11",
    ),
    "C17": dict(
        category="exploration",
        text="BOUNDED STAND-IN (not a proof): toposort_edges is run for every rooted labelled tree on 2..4 nodes (quick; 2..5 thorough) with every ordering of its edge list plus seeded samples of larger trees with arbitrary node labels, through the symbolic interpreter on the real source (networkx contract model) and through the real function with the real networkx; each result must be a permutation of the edge indices listing an edge only after the edge into its source.",
        note="the function's own code (comprehensions and list.index over a symbolic-length list, delegating to networkx) is outside the verifier's subset, so contracts cannot carry this property unboundedly; the finite quantifier of the property (trees up to 7 nodes) is covered exhaustively only up to the stated size.",
        technique="bounded exhaustive check of the real function (stand-in where contract-based deductive verification does not reach), labelled bounded",
        design="3/C17",
    ),
    "C13": dict(
        category="proof",
        text="Trace contracts on VideoReader.run and LabelsReader.run with every frame read declared 'may raise': on every path (normal completion, a read failure at any index) the sequence of queue puts is frame(start), ..., frame(start+k-1), END-MARKER with each frame carrying its own frame index, video index, source position and original size, exactly one marker, last; k equals the whole range when nothing failed and the failing position otherwise -- for all ranges (incl. empty), frame counts and frame sizes, by loop invariant over a ghost put-trace. BOUNDED part: the consumer loop Predictor._predict_generator driven by a frame source that delivers 0..4 frames and then the end marker, batch sizes 1..3 (frame contents, sizes, indices symbolic): frames are consumed in order and grouped into consecutive batches of batch_size (the last one partial), each batch carries frame_idx / video_idx / eff_scale / image of exactly its own frames in order, nothing is read after the marker, the pipeline is started once and joined once.",
        note="ASSUMED: queue.Queue is a linearizable blocking FIFO (put appends to the trace; a blocked put resumes after a get). Under that contract every producer/consumer interleaving and queue capacity yields this same put sequence; the schedules themselves are NOT explored. Not decided: the consumer loop beyond the bounded frame counts, with preprocess=True / instances_key=True / size matching to a larger canvas; LabelsReader with instances_key=True; termination of the bounded range loop is by construction of range(), not a discharged obligation.",
        technique="contract-based deductive verification: loop invariant over a ghost trace, exceptional paths through try/except/finally, VCs discharged by z3",
        design="3/C13",
    ),
    "C20": dict(
        category="proof",
        text="Symbolic execution of the config builders and schema classes with opaque argument atoms: get_data_config / get_trainer_config / get_model_config put every supplied argument unmodified at its documented path, every option without a builder argument equals the default the attrs schema declares, each backbone preset (12) x head type (4) yields exactly that preset/head with schema defaults and exactly one backbone/head set; get_aug_config enables every augmentation named in a list of ANY length and order (loop invariants over a ghost list whose elements are nondeterministic names) and every single name; validators reject exactly out-of-range probabilities and negative scales; the oneof unions reject more than one member. The order-dependent disabling of rotation/scale/translate in the pinned tree was found by the loop invariant and repaired (fix: commit in known_findings.txt).",
        note="attrs semantics (define/field/validators/converters/__attrs_post_init__) are modelled by the interpreter from the class ASTs; argument values are opaque atoms (identity only) or symbolic numbers. Not decided: OmegaConf structured merge / YAML round-trip losslessness and idempotence (verify_training_cfg; library behaviour), the lr_scheduler argument, dict-form backbone/head arguments, builder defaults that intentionally differ from schema defaults.",
        technique="contract-based deductive verification: symbolic execution of the real Python source (attrs classes synthesised from their ASTs), loop invariants, VCs discharged by z3",
        design="3/C20",
    ),
    "C02": dict(
        category="proof",
        text="(1) Decode chain under the ideal-network axiom (the network output is the C01 Gaussian target of the keypoints in the coordinates of the tensor it is given): for SingleInstanceInferenceModel.forward and FindInstancePeaks.forward (refinement None) every visible keypoint inside the map extent whose maximum reaches the threshold is returned within stride/(2*input_scale*eff_scale) per axis in original-image coordinates, invisible keypoints give NaN with value 0, the crop bounding box is rescaled by the same factors, other inputs pass through -- for all batch sizes, image sizes, strides, sigmas, scales (lemma chain: maximum bounds the neighbours -> exp argument order -> reported cell at least as close -> within half a step -> scaling). (2) Provider parity: make_pipeline of the single-instance, top-down and bottom-up predictors sets the same preprocess switch and config for LabelsReader and VideoReader; the divergence in the pinned tree was found by this obligation, demonstrated on the real code and repaired (fix: commit in known_findings.txt).",
        note="ideal-network output is an axiom (IdealNet ghost); find_global_peaks enters through its Skolemised contract (C07); thresholds > 0. Not decided: refinement='integral' in the chain, CentroidCrop.forward/_generate_crops (data-dependent batching over symbolic peak counts), re-addition of the crop offset in TopDownPredictor._make_labeled_frames_from_generator, the per-frame body of _predict_generator, real networks.",
        technique="contract-based deductive verification: symbolic execution of the real Python source against sidecar contracts, in-context lemma chain, VCs discharged by z3 (cvc5 for unknowns)",
        design="3/C02",
    ),
    "C09": dict(
        category="other",
        text="BOUNDED (not an unbounded proof): the real Tracker.track (from_config, get_features, update_candidates, get_scores, scores_to_cost_matrix, assign_tracks, both candidate classes incl. update_tracks/add_new_tracks/get_new_track_id, hungarian_matching and the real greedy_matching code) is symbolically executed from the initial tracker state through every history of up to 2 frames (thorough: 3 frames for Hungarian) with 0..2 detections per frame, for both candidate methods and both matching algorithms; instance scores, the new-track threshold and all association scores are symbolic and every matching outcome is explored (all optimal Hungarian assignments, all orders of the symbolic costs for greedy). Per frame: no exception, only given detections returned, none twice, every detection above the threshold returned with a track, tracks pairwise distinct. Three defects of the pinned tree were found this way and two repaired (fix: commit in known_findings.txt).",
        note="feature extraction and the scoring functions are abstracted to arbitrary finite values (safety depends on them only through the data flow), so the three feature/score combinations collapse into one; window size 1; no inductive invariant over arbitrary tracker states (histories start from the empty state); scipy linear_sum_assignment under a trusted contract (optimal complete assignment, ValueError when infeasible).",
        technique="contract-based symbolic execution of the real code over bounded histories (bounded stand-in), obligations discharged by z3",
        design="3/C09",
    ),
    "C08": dict(
        category="other",
        text="BOUNDED (not an unbounded proof): the per-sample grouping chain PAFScorer.predict runs after scoring -- the real get_connection_candidates, match_candidates_sample, toposort_edges, group_instances_sample, assign_connections_to_instances and make_predicted_instances -- is symbolically executed for every tree skeleton on 2..3 nodes (all edge listings/orientations) with 0..2 peaks per node type; peak coordinates/values, the line score of every candidate pair (finite or NaN) and the minimum line score are symbolic, every optimal assignment and every comparison outcome is explored. Per path: no exception; candidates are exactly all source x destination pairs; matches are one-to-one per edge, carry their pair's score, and maximise the total score among complete one-to-one assignments; instances are exactly the connected components of the accepted (score >= minimum) matches, each with its own peaks and peak scores, NaN elsewhere, instance score = sum of its accepted edge scores, instances below min_instance_peaks (int or fraction) dropped whole. The 'cost matrix is infeasible' crash on NaN scores in the pinned tree was found by the totality obligation and repaired (fix: commit in known_findings.txt).",
        note="PAF sampling/scoring (make_line_subs, get_paf_lines, score_paf_lines, compute_distance_penalty) is abstracted to an arbitrary finite-or-NaN score per candidate pair and is NOT decided; the *_batch wrappers / PAFScorer.predict glue (nested tensors) are not covered (the contract harness composes the per-sample functions in the same order); scipy linear_sum_assignment under a trusted contract; torch.argsort tie order explored nondeterministically.",
        technique="contract-based symbolic execution of the real code over bounded structures (bounded stand-in), obligations discharged by z3",
        design="3/C08",
    ),
    "C12": dict(
        category="proof",
        text="Relational (two-run) contracts, all batch sizes symbolic: the real function is executed on batch A and on batch B where sample b of B is sample a of A and all other samples of B (and the batch size) are arbitrary; proved: find_global_peaks_rough / find_global_peaks, SingleInstanceInferenceModel.forward and FindInstancePeaks.forward (both stride variants) report for that sample exactly the same points, values (and crop bounding box), and each run's output carries the frame_idx / video_idx (/centroid) tensors of its own batch unchanged. For find_local_peaks_rough / find_local_peaks the per-sample functional characterisation is proved instead: the rows are exactly the strict local maxima above threshold, each once, in increasing (sample,row,column,channel) order with their own sample/channel index -- so a sample's rows are a function of that sample's maps alone and empty samples contribute no rows without shifting the others. BOUNDED part: CentroidCrop.forward for a batch of 2 frames with 0..2(3) centroids each and max_instances in {None,1,2} (detector abstracted to its C06 characterisation; points, values, scales symbolic): with return_crops=False each frame's rows are its OWN centroids scaled by its own eff_scale followed by NaN padding, none twice, and with max_instances set the kept ones are the highest-scoring; with return_crops=True there is one crop dict per frame WITH detections, in frame order, carrying the frame index, video index, eff_scale and centroid values of its own frame (an empty frame is skipped without shifting its batch-mates); channel independence of find_global_peaks (the map alone vs. one of several channels; integral refinement for 1 vs 2 channels); integral refinement of find_global_peaks relationally for a frame alone vs. one of two samples (1 channel, patch 3/5).",
        note="ASSUMED: the network maps each sample independently of its batch-mates in eval mode (ghost TableNet); torch.max/argmax return the first maximal index (torch documentation). Not decided: CentroidCrop with use_gt_centroids and the crop pixels themselves, PAFScorer batch glue (BottomUpInferenceModel's per-sample split is decided under C03); _predict_generator metadata alignment is decided for bounded frame counts (consumer-loop contract shared with C13).",
        technique="contract-based deductive verification: relational two-run symbolic execution of the real Python source, VCs discharged by z3 (cvc5 for unknowns)",
        design="3/C12",
    ),
    "C18": dict(
        category="proof",
        text="PARTIAL CLAIM -- only the second sentence of the property ('each legacy DataPipe block returns what its functional counterpart returns'). Relational contracts, all shapes and values symbolic: the real block class is instantiated on a one-example source and its real __iter__ is executed, the functional counterpart is executed on the same example, and the keys the block writes are proved equal to the function's result (and the other keys passed through) for Normalizer (float / uint8 input, gray / rgb, 1 / 3 channels) vs apply_normalization + convert_to_grayscale/rgb, Resizer vs apply_resizer, PadToStride vs apply_pad_to_stride, InstanceCentroidFinder vs generate_centroids, InstanceCropper vs generate_crops (one crop per frame), ConfidenceMapGenerator vs generate_confmaps, MultiConfidenceMapGenerator (centroid and instance modes, all slots real) vs generate_multiconfmaps. PartAffinityFieldsGenerator and generate_pafs are each proved against the SAME closed-form contract (kept animals, per-animal unit vector x weight, sum over animals, channel layout, shape), which makes their results equal. The functional generators themselves are pinned to their closed forms under C01/C04/C05/C11.",
        note="NOT decided (no claim): agreement of the in-memory dataset, the .npz-chunk-cached dataset and the chunk-generation + streaming path (custom_datasets / get_data_chunks / streaming_datasets need sleap_io, PIL, litdata and kornia object models; custom_datasets does not import in this environment); InstanceCropper with several real instances (the block re-yields one mutated dict). Trusted: torchvision resize is a function of (tensor, size); rgb_to_grayscale weights from the torchvision documentation.",
        technique="contract-based deductive verification: relational symbolic execution of the real block class and the real function, VCs discharged by z3 (cvc5 for unknowns)",
        design="3/C18",
    ),
    "C16": dict(
        category="other",
        text="BOUNDED in the number of instances / matched pairs (values symbolic), executed on the real source: Evaluator.voc_metrics (0..3 matched pairs, 0..1 missed instances, two ordered symbolic match thresholds): AP, AR, mAP, mAR in [0,1], AP and AR non-increasing in the match threshold, all-perfect matches with nothing missed give AR = 1 and AP >= 1 - 1e-9, no matched pairs give zeros; Evaluator.pck_metrics (up to 3x2 pair x node distances incl. NaN, two ordered pixel thresholds): PCK in [0,1], non-decreasing in the pixel threshold, a keypoint counts iff present and closer than the threshold, perfect predictions give PCK = fraction of visible keypoints; Evaluator.mOKS = mean of the pair scores, in [0,1], 1 for perfect pairs; match_instances (1..2 ground-truth x 0..2 predicted instances, 1..2 nodes): pairs/false negatives are instances of the two frames, nothing matched twice, false negatives are exactly the unmatched ground truth, match scores in (0,1], identical predictions are all matched with OKS 1 (label sets without coinciding instances); relational: deleting the lowest-scoring prediction never increases the number of matches reaching a threshold; compute_dists (<= 2x2): Euclidean distance per node, NaN iff a keypoint is missing, 0 for identical predictions, frame indices / video paths of the ground truth in order; Evaluator.distance_metrics (<= 2x2 distances): mean and the five percentiles lie between 0 and the largest distance, are NaN when nothing is visible and 0 for perfect predictions; Evaluator.visibility_metrics (<= 2x2): the confusion counts are the node-visibility counts, precision/recall in [0,1] or NaN exactly when undefined, 1 for identical predictions. compute_oks enters through its closed-form contract (C15).",
        note="Two genuine violations of the property as stated were found, replayed on the real code and recorded as known findings with committed witnesses (design of the greedy VOC-style matching; not repairable by a small patch): C16/greedy-deletion (deleting a confident poor prediction can increase recall) and C16/coinciding-instances (perfect predictions of animals that coincide on the visible nodes of one of them are cross-matched: mean OKS 0.75). Not decided: find_frame_pairs / Evaluator.__init__ over sleap_io Labels, voc_metrics with match_score_by='pck', the bounding-box-area normalisation inside match_instances, larger frames.",
        technique="contract-based symbolic execution of the real code over bounded structures (bounded stand-in) incl. a relational two-run contract, obligations discharged by z3 (cvc5 for unknowns)",
        design="3/C16",
    ),
    "C10": dict(
        category="other",
        text="BOUNDED (not an unbounded proof), on the C09 harness: the real Tracker (from_config, track, get_features, update_candidates, get_scores, scores_to_cost_matrix, assign_tracks, both candidate classes, hungarian and greedy matching) is symbolically executed from its initial state through every admissible scene of up to 2 animals over up to 3 frames with window 1 (thorough: window 2, up to 4 frames for Hungarian): every presence pattern the property allows (a newcomer only while every known animal is detected; absences shorter than the window) and every detection order. Separation is formalised on the association scores: every same-animal score >= hi, every different-animal score <= lo, lo < hi symbolic; detection scores above the new-track threshold. Per scene: every detection is tracked, each animal carries one track name on all frames in which it is detected, no two animals ever hold the same name.",
        note="feature extraction and the three scoring functions are abstracted (the hypothesis 'far apart compared with how far they move' is ASSUMED to yield separated association scores; that step is not decided); no inductive invariant over arbitrary tracker states; scipy linear_sum_assignment under a trusted contract.",
        technique="contract-based symbolic execution of the real code over bounded histories (bounded stand-in), obligations discharged by z3",
        design="3/C10",
    ),
    "C14": dict(
        category="proof",
        text="PARTIAL CLAIM -- UNet family, shapes only. For each configuration of the (finite) grid max_stride x output_stride x stem_stride x filters_rate x convs_per_block x up_interpolate x middle_block x head type/strides (quick: a sample of 68; thorough: the full grid) the real constructors (Model.__init__, get_head, get_backbone, UNet.from_config, Encoder, Decoder, SimpleConvBlock, SimpleUpsamplingBlock, Head.make_head, MaxPool2dWithSamePadding) are executed and the real Model.forward / UNet.forward / Encoder.forward / Decoder.forward / MaxPool2dWithSamePadding.forward are symbolically executed twice on the same model object with inputs B x C x (max_stride*h) x (max_stride*w), all of B, h, w symbolic and different between the calls. Proved: no layer rejects its input (the channel bookkeeping of encoder, decoder, skip connections and heads lines up), one output per head named after it, with (parts | 2 x edges) channels and spatial size input / head stride, on both calls.",
        note="torch.nn layers enter through trusted SHAPE contracts (Conv2d, ConvTranspose2d, BatchNorm2d, activations, Upsample, Sequential, ModuleList, max_pool2d, pad: channel-count precondition and documented output size); layer VALUES are not modelled, so 'deterministic, independent of earlier calls and of batch-mates' is decided only as far as shapes go. Not decided: ConvNeXt and Swin-T backbones (torchvision internals). Known findings C14/convs-per-block-1, C14/no-middle-block and C14/head-at-max-stride (UNet with convs_per_block=1, with middle_block=False, or with a head at the max stride raises in forward for every input) are carved out of the grid (convs_per_block >= 2, middle_block=True, head strides < max_stride) and re-confirmed from committed witnesses on every run.",
        technique="contract-based deductive verification: symbolic execution of the real Python source with library layers under shape contracts, VCs discharged by z3",
        design="3/C14",
    ),
    "C03": dict(
        category="proof",
        text="PARTIAL CLAIM -- the addressing / layout / coordinate-chain half of C03, not the reassembly statement itself. (1) make_line_subs (peaks, candidates, PAF size and stride symbolic; sample points unrolled 2,3,5): result shape (candidates, points, 2, 3); the first sample point addresses the source peak's cell [row = round(y/stride), col = round(x/stride)] clipped into the tensor; every subscript lies inside the PAF tensor; the two entries of a point address the same cell with channels 2*edge and 2*edge+1 -- the layout generate_pafs is proved to write under C05 (edge-major, x then y). (2) BottomUpInferenceModel.forward / _generate_cms_peaks (batch 1..2; everything else symbolic): the PAF tensor handed to the scorer is the channel-last view of the network's PAF output; for each sample the points, channels and values given to the scorer are, row by row, confidence-map-stride x a strict local maximum above threshold of THAT sample's maps with its channel and value; the scorer's instances of sample b are returned divided by input_scale and by eff_scale[b]; frame/video indices pass through. (3) score_paf_lines_batch with its three callees replaced by recording ghosts (batch 1..2): each sample's PAFs / peaks / channel indices / candidates go to that sample's calls, stride and line-point count are passed through, and the edge-length limit handed to the scoring step is at least max_edge_length_ratio x max(height, width) x stride. find_local_peaks enters through its proved contract (C06), grouping is decided under C08.",
        note="NOT decided (no claim): the analytic core of C03 -- that on ideal confidence maps / PAFs the true edge outscores every false candidate so that exactly the labelled animals come back (score_paf_lines over sampled Gaussians); get_paf_lines / score_paf_lines / compute_distance_penalty; integral refinement in the bottom-up chain; interior sample points of a line beyond being in bounds. ASSUMED: the vendored interp1d (sleap_nn/inference/utils.py) interpolates linearly between two knots (listed as an assumed repository contract).",
        technique="contract-based deductive verification: symbolic execution of the real Python source against sidecar contracts with ghost network / scorer objects, VCs discharged by z3 (cvc5 for unknowns)",
        design="3/C03",
    ),
}

NOT_APPLICABLE = {
    "C19": "no pre/postcondition on a function of this repository expresses it: training completion, artifacts and crash-point file contents live in Lightning/wandb/OmegaConf and the file system (DESIGN.md section 5)",
}
NOT_BUILT = []


def main():
    checks = []
    for pid in sorted(CLAIMED):
        c = CLAIMED[pid]
        checks.append({
            "property_id": pid,
            "quick_cmd": "./check %s --tier quick" % pid,
            "thorough_cmd": "./check %s --tier thorough" % pid,
            "evidence_file": "evidence/%s.json" % pid,
            "replay_cmd_template": "./check %s --replay {path}" % pid,
            "engine": "pyvc",
            "level_claimed": {"category": c["category"], "text": c["text"], "design_ref": c["design"]},
            "level_note": c["note"],
            "technique": c["technique"],
        })
    na = [{"property_id": k, "reason": v} for k, v in sorted(NOT_APPLICABLE.items())]
    for pid in NOT_BUILT:
        if pid not in CLAIMED:
            na.append({"property_id": pid, "reason": "not built yet in this session (planned in DESIGN.md section 3); no check is claimed"})
    na.sort(key=lambda d: d["property_id"])
    m = {
        "version": 1,
        "setup_cmd": "./setup.sh",
        "hooks": {
            "guard": "SLEAP_NN_VERIF",
            "enable": "no source hooks are needed: the verifier reads /repo's working tree as text; SLEAP_NN_VERIF=1 is exported by ./check for completeness",
            "baseline_off_cmd": BASE_CMD,
            "source_commits": [],
            "add_only": True,
        },
        "engines": [{
            "name": "pyvc",
            "path": "pyvc/",
            "serves_properties": sorted(CLAIMED),
            "kind_free_text": "symbolic-execution based deductive verifier for Python/torch source (sidecar contracts in contracts/, z3 + cvc5 back ends, counterexample replay on the real code under /venv/bin/python)",
        }],
        "checks": checks,
        "not_applicable": na,
        "notes": "See DESIGN.md. Exit codes of ./check: 0 held, 1 VIOLATION, 2 undecided, 3 checker broken.",
    }
    with open(os.path.join(HERE, "MANIFEST.json"), "w") as f:
        json.dump(m, f, indent=1)
    print("wrote MANIFEST.json with %d checks" % len(checks))


if __name__ == "__main__":
    main()
