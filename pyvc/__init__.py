"""pyvc -- a small symbolic-execution based deductive verifier for the Python/torch
code of talmolab/sleap-nn.  See /verif/DESIGN.md section 2.

The engine never imports the repository: it parses the .py files under /repo on every
run and symbolically executes the real source text against sidecar contracts
(/verif/contracts).  Obligations are discharged with z3 (cvc5 for z3's unknowns).
"""
