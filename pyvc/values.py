"""Scalar value layer: booleans, mathematical integers, extended reals with NaN.

Scalar universe
  bool : Python bool            | z3 BoolRef
  int  : Python int             | z3 ArithRef of sort Int   (mathematical integers)
  float: Python float           | SFloat(nan, inf, val)     (extended reals + NaN)

SFloat encodes IEEE special values exactly and finite values as *reals* (no rounding,
no overflow, no signed zero):  nan, inf are booleans (Python or z3), val is a z3 Real;
when inf holds, the sign of val (+1/-1) is the sign of the infinity.

All arithmetic goes through the functions below; they constant-fold on concrete
operands (CPython semantics, IEEE for floats) so the very same code path also serves
the concrete cross-check mode.
"""
from __future__ import annotations

import math
from fractions import Fraction

import z3

# --------------------------------------------------------------------------- context
# A tiny global "sink" that lazily-instantiated facts (exp axioms, selection facts, ...)
# are written to.  The interpreter installs the current path's sink.


class FactSink:
    def __init__(self):
        self.facts = []          # z3 Bool
        self.aux = []            # z3 Bool (second-stage facts)
        self.exp_terms = {}      # arg sexpr -> (arg, term)
        self.fresh_counter = 0
        self.notes = []

    def add(self, f):
        if f is True:
            return
        if f is False:
            self.facts.append(z3.BoolVal(False))
            return
        self.facts.append(f)

    def add_aux(self, f, terms=()):
        """Auxiliary (nonlinear / transcendental) facts: only used in the second discharge
        stage, and only when every EXP/SQRT application they talk about occurs in the
        obligation at hand (relevance filter) -- they slow down or derail obligations that
        do not need them."""
        if f is True:
            return
        self.aux.append((f, tuple(t.get_id() for t in terms), tuple(terms)))  # owns the terms (ids are reused after GC)

    def relevant_aux(self, exprs):
        """Aux facts whose tagged terms all occur in the given expressions."""
        if not self.aux:
            return []
        seen = set()
        stack = list(exprs)
        visited = set()
        while stack:
            e = stack.pop()
            i = e.get_id()
            if i in visited:
                continue
            visited.add(i)
            if z3.is_quantifier(e):
                stack.append(e.body())
                continue
            if z3.is_app(e):
                stack.extend(e.children())
        return [f for (f, ids, _) in self.aux if all(i in visited for i in ids)]


_SINK = [FactSink()]


def sink() -> FactSink:
    return _SINK[-1]


def push_sink(s: FactSink):
    _SINK.append(s)


def pop_sink():
    _SINK.pop()


_fresh = [0]


def fresh_name(prefix: str) -> str:
    _fresh[0] += 1
    return "%s!%d" % (prefix, _fresh[0])


def reset_fresh():
    _fresh[0] = 0


def fresh_int(prefix="k"):
    return z3.Int(fresh_name(prefix))


def fresh_real(prefix="r"):
    return z3.Real(fresh_name(prefix))


def fresh_bool(prefix="b"):
    return z3.Bool(fresh_name(prefix))


# --------------------------------------------------------------------------- kinds


class SFloat:
    __slots__ = ("nan", "inf", "val")

    def __init__(self, nan, inf, val):
        self.nan = nan
        self.inf = inf
        self.val = val

    def __repr__(self):
        return "SFloat(nan=%s, inf=%s, val=%s)" % (self.nan, self.inf, self.val)

    # operator sugar for contract authors -------------------------------------
    def __add__(self, o):
        return f_add(self, o)

    __radd__ = __add__

    def __sub__(self, o):
        return f_sub(self, o)

    def __rsub__(self, o):
        return f_sub(o, self)

    def __mul__(self, o):
        return f_mul(self, o)

    __rmul__ = __mul__

    def __truediv__(self, o):
        return f_div(self, o)

    def __rtruediv__(self, o):
        return f_div(o, self)

    def __neg__(self):
        return f_neg(self)

    def __pow__(self, o):
        return f_pow(self, o)

    def __lt__(self, o):
        return f_lt(self, o)

    def __le__(self, o):
        return f_le(self, o)

    def __gt__(self, o):
        return f_lt(o, self)

    def __ge__(self, o):
        return f_le(o, self)

    def __eq__(self, o):  # IEEE equality (NaN != NaN)
        return f_eq(self, o)

    def __ne__(self, o):
        return b_not(f_eq(self, o))

    __hash__ = None

    def __bool__(self):
        raise TypeError("symbolic float used as a concrete bool")


def is_z3(x):
    return isinstance(x, z3.ExprRef)


def is_symbolic(x):
    return isinstance(x, (z3.ExprRef, SFloat))


def is_bool_kind(x):
    return isinstance(x, bool) or (isinstance(x, z3.ExprRef) and z3.is_bool(x))


def is_int_kind(x):
    return (isinstance(x, int) and not isinstance(x, bool)) or (
        isinstance(x, z3.ExprRef) and z3.is_int(x)
    )


def is_float_kind(x):
    return isinstance(x, (float, SFloat)) or (isinstance(x, z3.ExprRef) and z3.is_real(x))


def is_scalar(x):
    return isinstance(x, (bool, int, float, SFloat)) or (
        isinstance(x, z3.ExprRef) and (z3.is_bool(x) or z3.is_arith(x))
    )


def is_concrete_scalar(x):
    return isinstance(x, (bool, int, float))


# --------------------------------------------------------------------------- booleans


def zbool(x):
    if isinstance(x, bool):
        return z3.BoolVal(x)
    return x


def b_not(a):
    if isinstance(a, bool):
        return not a
    if z3.is_true(a):
        return False
    if z3.is_false(a):
        return True
    if z3.is_not(a):
        return a.arg(0)
    return z3.Not(a)


def _norm_b(a):
    if isinstance(a, bool):
        return a
    if z3.is_true(a):
        return True
    if z3.is_false(a):
        return False
    return a


def b_and(*xs):
    out = []
    for a in xs:
        a = _norm_b(a)
        if a is True:
            continue
        if a is False:
            return False
        out.append(a)
    if not out:
        return True
    if len(out) == 1:
        return out[0]
    return z3.And(*out)


def b_or(*xs):
    out = []
    for a in xs:
        a = _norm_b(a)
        if a is False:
            continue
        if a is True:
            return True
        out.append(a)
    if not out:
        return False
    if len(out) == 1:
        return out[0]
    return z3.Or(*out)


def b_implies(a, b):
    return b_or(b_not(a), b)


def b_iff(a, b):
    a = _norm_b(a)
    b = _norm_b(b)
    if isinstance(a, bool):
        return b if a else b_not(b)
    if isinstance(b, bool):
        return a if b else b_not(a)
    return a == b


def b_xor(a, b):
    return b_not(b_iff(a, b))


# --------------------------------------------------------------------------- ints


def zint(x):
    if isinstance(x, bool):
        return z3.IntVal(1 if x else 0)
    if isinstance(x, int):
        return z3.IntVal(x)
    if isinstance(x, z3.ExprRef) and z3.is_bool(x):
        return z3.If(x, z3.IntVal(1), z3.IntVal(0))
    return x


def _simp(e):
    return e


def i_add(a, b):
    if isinstance(a, int) and isinstance(b, int):
        return a + b
    if isinstance(a, int) and a == 0:
        return zint(b)
    if isinstance(b, int) and b == 0:
        return zint(a)
    return zint(a) + zint(b)


def i_sub(a, b):
    if isinstance(a, int) and isinstance(b, int):
        return a - b
    if isinstance(b, int) and b == 0:
        return zint(a)
    return zint(a) - zint(b)


def i_mul(a, b):
    if isinstance(a, int) and isinstance(b, int):
        return a * b
    if isinstance(a, int):
        if a == 0:
            return 0
        if a == 1:
            return zint(b)
    if isinstance(b, int):
        if b == 0:
            return 0
        if b == 1:
            return zint(a)
    return zint(a) * zint(b)


def i_neg(a):
    if isinstance(a, int):
        return -a
    return -zint(a)


def i_floordiv(a, b):
    """Python floor division.  z3 `/` on Ints is Euclidean (rounds so that the remainder
    is non-negative), which equals floor division for b > 0; for b < 0 use -((-a) .. )."""
    if isinstance(a, int) and isinstance(b, int):
        return a // b
    if isinstance(b, int):
        if b == 1:
            return zint(a)
        if b > 0:
            return zint(a) / z3.IntVal(b)
        if b < 0:
            # floor(a/b) = floor((-a)/(-b))
            return (-zint(a)) / z3.IntVal(-b)
    a_, b_ = zint(a), zint(b)
    return z3.If(b_ > 0, a_ / b_, (-a_) / (-b_))


def i_mod(a, b):
    """Python modulo (sign follows the divisor)."""
    if isinstance(a, int) and isinstance(b, int):
        return a % b
    if isinstance(b, int) and b > 0:
        return zint(a) % z3.IntVal(b)
    a_, b_ = zint(a), zint(b)
    return z3.If(b_ > 0, a_ % b_, -((-a_) % (-b_)))


def i_lt(a, b):
    if isinstance(a, int) and isinstance(b, int):
        return a < b
    return zint(a) < zint(b)


def i_le(a, b):
    if isinstance(a, int) and isinstance(b, int):
        return a <= b
    return zint(a) <= zint(b)


def i_eq(a, b):
    if isinstance(a, int) and isinstance(b, int):
        return a == b
    a_, b_ = zint(a), zint(b)
    if a_.eq(b_):
        return True
    return a_ == b_


def i_abs(a):
    if isinstance(a, int):
        return abs(a)
    return z3.If(a >= 0, a, -a)


def i_max(a, b):
    if isinstance(a, int) and isinstance(b, int):
        return max(a, b)
    a_, b_ = zint(a), zint(b)
    return z3.If(a_ >= b_, a_, b_)


def i_min(a, b):
    if isinstance(a, int) and isinstance(b, int):
        return min(a, b)
    a_, b_ = zint(a), zint(b)
    return z3.If(a_ <= b_, a_, b_)


# --------------------------------------------------------------------------- floats


def q(x) -> z3.ArithRef:
    """Python number -> z3 Real constant (decimal reading of the float literal)."""
    if isinstance(x, bool):
        x = int(x)
    if isinstance(x, int):
        return z3.RealVal(x)
    fr = Fraction(repr(float(x)))
    return z3.Q(fr.numerator, fr.denominator)


def sfloat(x) -> SFloat:
    """Lift any numeric scalar to SFloat."""
    if isinstance(x, SFloat):
        return x
    if isinstance(x, bool):
        return SFloat(False, False, q(int(x)))
    if isinstance(x, int):
        return SFloat(False, False, q(x))
    if isinstance(x, float):
        if math.isnan(x):
            return SFloat(True, False, q(0))
        if math.isinf(x):
            return SFloat(False, True, q(1 if x > 0 else -1))
        return SFloat(False, False, q(x))
    if isinstance(x, z3.ExprRef):
        if z3.is_int(x):
            return SFloat(False, False, z3.ToReal(x))
        if z3.is_real(x):
            return SFloat(False, False, x)
        if z3.is_bool(x):
            return SFloat(False, False, z3.If(x, q(1), q(0)))
    raise TypeError("cannot lift %r to float" % (x,))


def finite_real(r) -> SFloat:
    return SFloat(False, False, r)


def _conc_num(x):
    return isinstance(x, (int, float)) and not isinstance(x, z3.ExprRef)


def _pyfloat(x):
    return float(x)


def _sign(v):
    # sign of a real z3 term as Real (+1 for >= 0 : signed zero is not modelled)
    return z3.If(v >= 0, q(1), q(-1))


def f_neg(a):
    if _conc_num(a):
        return -float(a)
    a = sfloat(a)
    return SFloat(a.nan, a.inf, -a.val)


def f_add(a, b):
    if _conc_num(a) and _conc_num(b):
        return float(a) + float(b)
    a, b = sfloat(a), sfloat(b)
    if a.inf is False and b.inf is False:
        return SFloat(b_or(a.nan, b.nan), False, a.val + b.val)
    nan = b_or(a.nan, b.nan, b_and(a.inf, b.inf, a.val != b.val))
    inf = b_or(a.inf, b.inf)
    val = z3.If(zbool(a.inf), a.val, z3.If(zbool(b.inf), b.val, a.val + b.val))
    return SFloat(nan, inf, val)


def f_sub(a, b):
    if _conc_num(a) and _conc_num(b):
        return float(a) - float(b)
    return f_add(a, f_neg(b))


def f_mul(a, b):
    if _conc_num(a) and _conc_num(b):
        return float(a) * float(b)
    a, b = sfloat(a), sfloat(b)
    if a.inf is False and b.inf is False:
        return SFloat(b_or(a.nan, b.nan), False, a.val * b.val)
    nan = b_or(
        a.nan,
        b.nan,
        b_and(a.inf, b_not(b.inf), b.val == 0),
        b_and(b.inf, b_not(a.inf), a.val == 0),
    )
    inf = b_or(a.inf, b.inf)
    val = z3.If(zbool(inf), _sign(a.val) * _sign(b.val), a.val * b.val)
    return SFloat(nan, inf, val)


def f_div(a, b):
    if _conc_num(a) and _conc_num(b):
        a, b = float(a), float(b)
        if b == 0.0:
            if a == 0.0 or math.isnan(a):
                return math.nan
            return math.inf if a > 0 else -math.inf
        return a / b
    a, b = sfloat(a), sfloat(b)
    b_zero = b_and(b_not(b.inf), b.val == 0)
    if isinstance(b_zero, z3.ExprRef):
        b_zero_s = z3.simplify(b_zero)
        if z3.is_true(b_zero_s):
            b_zero = True
        elif z3.is_false(b_zero_s):
            b_zero = False
    if b_zero is not False and b_zero is not True:
        from . import ctx as _ctx

        try:
            if _ctx.cur().provable(b_not(b_zero), 400):
                b_zero = False
        except TypeError:
            if _ctx.cur().provable(b_not(b_zero)):
                b_zero = False
    a_zero = b_and(b_not(a.inf), a.val == 0)
    nan = b_or(a.nan, b.nan, b_and(a.inf, b.inf), b_and(a_zero, b_zero))
    inf = b_and(b_not(nan), b_or(a.inf, b_zero))
    if b_zero is False and b.inf is False:
        quot = a.val / b.val
    else:
        safe_b = z3.If(zbool(b_or(b_zero, b.inf)), q(1), b.val)
        quot = z3.If(zbool(b.inf), q(0), a.val / safe_b)
    if inf is False:
        val = quot
    else:
        # sign of the infinity: sign(a) * sign(b) (sign(0) = +)
        val = z3.If(zbool(inf), _sign(a.val) * _sign(b.val), quot)
    return SFloat(nan, inf, val)


def f_pow(a, n):
    """a ** n for a small non-negative concrete integer exponent n, or 0.5."""
    if _conc_num(a) and _conc_num(n):
        try:
            return float(a) ** n
        except (OverflowError, ZeroDivisionError):
            return math.inf
    if isinstance(n, float) and n == int(n):
        n = int(n)
    if isinstance(n, int) and 0 <= n <= 8:
        if n == 0:
            return 1.0
        r = a
        for _ in range(n - 1):
            r = f_mul(r, a)
        return r
    if isinstance(n, float) and n == 0.5:
        return f_sqrt(a)
    if isinstance(n, int) and -8 <= n < 0:
        return f_div(1.0, f_pow(a, -n))
    raise NotImplementedError("pow with exponent %r" % (n,))


def f_square(a):
    return f_mul(a, a)


def f_isnan(a):
    if _conc_num(a):
        return math.isnan(float(a))
    if is_int_kind(a):
        return False
    return sfloat(a).nan


def f_isinf(a):
    if _conc_num(a):
        return math.isinf(float(a))
    if is_int_kind(a):
        return False
    a = sfloat(a)
    return b_and(b_not(a.nan), a.inf)


def f_isfinite(a):
    if _conc_num(a):
        return math.isfinite(float(a))
    if is_int_kind(a):
        return True
    a = sfloat(a)
    return b_and(b_not(a.nan), b_not(a.inf))


def _ext_lt(a: SFloat, b: SFloat):
    """a < b on extended reals, both assumed non-NaN."""
    if a.inf is False and b.inf is False:
        return a.val < b.val
    return z3.If(
        zbool(a.inf),
        z3.And(a.val < 0, z3.Not(z3.And(zbool(b.inf), b.val < 0))),
        z3.If(zbool(b.inf), b.val > 0, a.val < b.val),
    )


def _ext_eq(a: SFloat, b: SFloat):
    if a.inf is False and b.inf is False:
        return a.val == b.val
    return z3.And(zbool(b_iff(a.inf, b.inf)), a.val == b.val)


TOL = [0.0]  # relative tolerance of concrete float comparisons (replay mode only)


def _tol(a, b):
    return TOL[0] * (1.0 + max(abs(a), abs(b))) if TOL[0] else 0.0


def f_lt(a, b):
    if _conc_num(a) and _conc_num(b):
        return float(a) < float(b)
    a, b = sfloat(a), sfloat(b)
    return b_and(b_not(a.nan), b_not(b.nan), _ext_lt(a, b))


def f_le(a, b):
    if _conc_num(a) and _conc_num(b):
        a, b = float(a), float(b)
        if TOL[0] and math.isfinite(a) and math.isfinite(b):
            return a <= b + _tol(a, b)
        return a <= b
    a, b = sfloat(a), sfloat(b)
    return b_and(b_not(a.nan), b_not(b.nan), b_or(_ext_lt(a, b), _ext_eq(a, b)))


def f_eq(a, b):
    """IEEE ==  (NaN is not equal to anything)."""
    if _conc_num(a) and _conc_num(b):
        a, b = float(a), float(b)
        if TOL[0] and math.isfinite(a) and math.isfinite(b):
            return abs(a - b) <= _tol(a, b)
        return a == b
    a, b = sfloat(a), sfloat(b)
    return b_and(b_not(a.nan), b_not(b.nan), _ext_eq(a, b))


def f_same(a, b):
    """Identity of values including NaN == NaN (what 'the output equals the spec' means)."""
    if _conc_num(a) and _conc_num(b):
        a, b = float(a), float(b)
        if math.isnan(a) or math.isnan(b):
            return math.isnan(a) and math.isnan(b)
        if TOL[0] and math.isfinite(a) and math.isfinite(b):
            return abs(a - b) <= _tol(a, b)
        return a == b
    a, b = sfloat(a), sfloat(b)
    return b_or(
        b_and(a.nan, b.nan),
        b_and(b_not(a.nan), b_not(b.nan), _ext_eq(a, b)),
    )


def f_ite(c, a, b):
    if isinstance(c, bool):
        return a if c else b
    if _conc_num(a) and _conc_num(b) and float(a) == float(b) and not math.isnan(float(a)):
        return a
    a, b = sfloat(a), sfloat(b)
    nan = _ite_b(c, a.nan, b.nan)
    inf = _ite_b(c, a.inf, b.inf)
    val = z3.If(c, a.val, b.val) if not a.val.eq(b.val) else a.val
    return SFloat(nan, inf, val)


def _ite_b(c, x, y):
    if isinstance(x, bool) and isinstance(y, bool):
        if x == y:
            return x
        return c if x else b_not(c)
    if isinstance(x, bool):
        return b_or(c, y) if x else b_and(b_not(c), y)
    if isinstance(y, bool):
        return b_or(b_not(c), x) if y else b_and(c, x)
    return z3.If(c, x, y)


def f_abs(a):
    if _conc_num(a):
        return abs(float(a))
    a = sfloat(a)
    return SFloat(a.nan, a.inf, z3.If(a.val >= 0, a.val, -a.val))


def f_max(a, b):
    """torch.maximum / np.maximum: NaN-propagating."""
    if _conc_num(a) and _conc_num(b):
        a, b = float(a), float(b)
        if math.isnan(a) or math.isnan(b):
            return math.nan
        return max(a, b)
    a, b = sfloat(a), sfloat(b)
    r = f_ite(zbool(_ext_lt(a, b)), b, a)
    return SFloat(b_or(a.nan, b.nan), r.inf, r.val)


def f_min(a, b):
    if _conc_num(a) and _conc_num(b):
        a, b = float(a), float(b)
        if math.isnan(a) or math.isnan(b):
            return math.nan
        return min(a, b)
    a, b = sfloat(a), sfloat(b)
    r = f_ite(zbool(_ext_lt(b, a)), b, a)
    return SFloat(b_or(a.nan, b.nan), r.inf, r.val)


BIG = 3.4028234663852886e38  # float32 max, what nan_to_num maps +-inf to


def f_nan_to_num(a, nan=0.0, posinf=None, neginf=None):
    posinf = BIG if posinf is None else posinf
    neginf = -BIG if neginf is None else neginf
    if _conc_num(a):
        a = float(a)
        if math.isnan(a):
            return float(nan)
        if math.isinf(a):
            return float(posinf) if a > 0 else float(neginf)
        return a
    a = sfloat(a)
    r = f_ite(zbool(a.nan), nan, a) if a.nan is not False else a
    if a.inf is not False:
        r = f_ite(zbool(b_and(b_not(a.nan), a.inf, a.val > 0)), posinf, r)
        r = f_ite(zbool(b_and(b_not(a.nan), a.inf, a.val < 0)), neginf, r)
    return r


def f_clamp(a, lo=None, hi=None):
    """torch.clamp: NaN stays NaN."""
    r = a
    if lo is not None:
        r = f_max_nanfirst(r, lo)
    if hi is not None:
        r = f_min_nanfirst(r, hi)
    return r


def f_max_nanfirst(a, b):
    # clamp semantics: result NaN iff a is NaN (b is a finite bound)
    return f_max(a, b)


def f_min_nanfirst(a, b):
    return f_min(a, b)


# -- uninterpreted transcendental functions with lazily instantiated axioms -----------

EXP = z3.Function("EXP", z3.RealSort(), z3.RealSort())
SQRT = z3.Function("SQRT", z3.RealSort(), z3.RealSort())
LOG2 = z3.Function("LOG2", z3.RealSort(), z3.RealSort())


def _register_exp(arg):
    s = sink()
    key = arg.sexpr()
    if key in s.exp_terms:
        return s.exp_terms[key][1]
    t = EXP(arg)
    # pointwise axioms
    s.add_aux(t > 0, [t])
    s.add_aux(z3.Implies(arg <= 0, t <= 1), [t])
    s.add_aux(z3.Implies(arg >= 0, t >= 1), [t])
    s.add_aux(z3.Implies(arg < 0, t < 1), [t])
    s.add_aux(z3.Implies(arg == 0, t == 1), [t])
    # pairwise monotonicity with the terms seen so far
    for (a2, t2) in s.exp_terms.values():
        s.add_aux(z3.Implies(arg <= a2, t <= t2), [t, t2])
        s.add_aux(z3.Implies(a2 <= arg, t2 <= t), [t, t2])
        s.add_aux(z3.Implies(arg < a2, t < t2), [t, t2])
        s.add_aux(z3.Implies(a2 < arg, t2 < t), [t, t2])
    s.exp_terms[key] = (arg, t)
    return t


def f_exp(a):
    if _conc_num(a):
        a = float(a)
        try:
            return math.exp(a)
        except OverflowError:
            return math.inf
    a = sfloat(a)
    if a.inf is False:
        return SFloat(a.nan, False, _register_exp(a.val))
    # exp(+inf)=+inf, exp(-inf)=0
    pos_inf = b_and(a.inf, a.val > 0)
    neg_inf = b_and(a.inf, a.val < 0)
    fin_arg = z3.If(zbool(a.inf), q(0), a.val)
    t = _register_exp(fin_arg)
    val = z3.If(zbool(pos_inf), q(1), z3.If(zbool(neg_inf), q(0), t))
    return SFloat(a.nan, pos_inf, val)


def f_sqrt(a):
    if _conc_num(a):
        a = float(a)
        if math.isnan(a) or a < 0:
            return math.nan
        return math.sqrt(a) if not math.isinf(a) else math.inf
    a = sfloat(a)
    s = sink()
    fin_arg = a.val if a.inf is False else z3.If(zbool(a.inf), q(0), a.val)
    t = SQRT(fin_arg)
    s.add_aux(z3.Implies(fin_arg >= 0, t >= 0), [t])
    s.add_aux(z3.Implies(fin_arg >= 0, t * t == fin_arg), [t])
    s.add_aux(z3.Implies(fin_arg > 0, t > 0), [t])
    s.add_aux(z3.Implies(fin_arg == 0, t == 0), [t])
    neg = b_and(b_not(a.inf), a.val < 0)
    nan = b_or(a.nan, neg, b_and(a.inf, a.val < 0))
    if a.inf is False:
        return SFloat(nan, False, t)
    return SFloat(nan, b_and(a.inf, a.val > 0), z3.If(zbool(a.inf), q(1), t))


def f_round(a):
    """round-half-even to a float (torch.round / np.round / np.rint)."""
    if _conc_num(a):
        a = float(a)
        if math.isnan(a) or math.isinf(a):
            return a
        return float(round(a))
    a = sfloat(a)
    r = _round_half_even_int(a.val)
    if a.inf is False:
        return SFloat(a.nan, False, z3.ToReal(r))
    return SFloat(a.nan, a.inf, z3.If(zbool(a.inf), a.val, z3.ToReal(r)))


def _round_half_even_int(v):
    fl = z3.ToInt(v)  # floor
    frac = v - z3.ToReal(fl)
    return z3.If(
        frac < q(0.5),
        fl,
        z3.If(frac > q(0.5), fl + 1, z3.If(fl % 2 == 0, fl, fl + 1)),
    )


def f_round_to_int(a):
    """Python round(x) -> int (finite x assumed; checked by caller)."""
    if _conc_num(a):
        return int(round(float(a)))
    a = sfloat(a)
    return _round_half_even_int(a.val)


def f_floor_to_int(a):
    if _conc_num(a):
        return math.floor(float(a))
    return z3.ToInt(sfloat(a).val)


def f_ceil_to_int(a):
    if _conc_num(a):
        return math.ceil(float(a))
    v = sfloat(a).val
    return -z3.ToInt(-v)


def f_trunc_to_int(a):
    """int(x): truncation toward zero."""
    if _conc_num(a):
        return int(float(a))
    v = sfloat(a).val
    return z3.If(v >= 0, z3.ToInt(v), -z3.ToInt(-v))


def f_floor(a):
    if _conc_num(a):
        a = float(a)
        return a if (math.isnan(a) or math.isinf(a)) else float(math.floor(a))
    a = sfloat(a)
    if a.inf is False:
        return SFloat(a.nan, False, z3.ToReal(z3.ToInt(a.val)))
    return SFloat(a.nan, a.inf, z3.If(zbool(a.inf), a.val, z3.ToReal(z3.ToInt(a.val))))


# --------------------------------------------------------------------------- generic


def to_bool(x):
    """Python truthiness of a scalar as a (possibly symbolic) bool."""
    if isinstance(x, bool):
        return x
    if isinstance(x, (int, float)):
        return bool(x)
    if isinstance(x, SFloat):
        return b_or(x.nan, x.inf, x.val != 0)
    if z3.is_bool(x):
        return x
    if z3.is_int(x):
        return x != 0
    if z3.is_real(x):
        return x != 0
    raise TypeError(x)


def ite(c, a, b):
    """Generic scalar if-then-else."""
    if isinstance(c, bool):
        return a if c else b
    if is_bool_kind(a) and is_bool_kind(b):
        return _ite_b(c, a, b)
    if is_int_kind(a) and is_int_kind(b):
        if isinstance(a, int) and isinstance(b, int) and a == b:
            return a
        return z3.If(c, zint(a), zint(b))
    if is_bool_kind(a) and is_int_kind(b):
        return z3.If(c, zint(a), zint(b))
    if is_int_kind(a) and is_bool_kind(b):
        return z3.If(c, zint(a), zint(b))
    return f_ite(c, a, b)


def same(a, b):
    """Value identity for any two scalars (NaN == NaN)."""
    if is_bool_kind(a) and is_bool_kind(b):
        return b_iff(a, b)
    if (is_int_kind(a) or is_bool_kind(a)) and (is_int_kind(b) or is_bool_kind(b)):
        return i_eq(a if not isinstance(a, bool) else int(a), b if not isinstance(b, bool) else int(b))
    return f_same(a, b)


_INT_OPS = {
    "add": i_add,
    "sub": i_sub,
    "mul": i_mul,
    "floordiv": i_floordiv,
    "mod": i_mod,
    "lt": i_lt,
    "le": i_le,
    "gt": lambda a, b: i_lt(b, a),
    "ge": lambda a, b: i_le(b, a),
    "eq": i_eq,
    "ne": lambda a, b: b_not(i_eq(a, b)),
    "max": i_max,
    "min": i_min,
}
_FLOAT_OPS = {
    "add": f_add,
    "sub": f_sub,
    "mul": f_mul,
    "truediv": f_div,
    "lt": f_lt,
    "le": f_le,
    "gt": lambda a, b: f_lt(b, a),
    "ge": lambda a, b: f_le(b, a),
    "eq": f_eq,
    "ne": lambda a, b: b_not(f_eq(a, b)),
    "max": f_max,
    "min": f_min,
}


def _as_int(x):
    if isinstance(x, bool):
        return int(x)
    if isinstance(x, z3.ExprRef) and z3.is_bool(x):
        return zint(x)
    return x


def binop(op, a, b):
    """Python-semantics binary operation on two scalars of any kind."""
    a_f = is_float_kind(a)
    b_f = is_float_kind(b)
    if op in ("and_", "or_", "xor") and is_bool_kind(a) and is_bool_kind(b):
        return {"and_": b_and, "or_": b_or, "xor": b_xor}[op](a, b)
    if op == "pow":
        if not a_f and not b_f and isinstance(b, int) and b >= 0:
            r = 1
            for _ in range(b):
                r = i_mul(r, _as_int(a))
            return r
        return f_pow(a, b)
    if op == "truediv":
        return f_div(a, b)
    if a_f or b_f:
        if op == "floordiv":
            return f_floor(f_div(a, b))
        if op == "mod":
            # a - floor(a/b)*b
            return f_sub(a, f_mul(f_floor(f_div(a, b)), b))
        return _FLOAT_OPS[op](a, b)
    return _INT_OPS[op](_as_int(a), _as_int(b))


def as_z3_bool(x):
    return zbool(to_bool(x))


def simplify_scalar(x):
    """z3.simplify, returning Python constants when the result is a literal."""
    if isinstance(x, z3.ExprRef):
        s = z3.simplify(x)
        if z3.is_true(s):
            return True
        if z3.is_false(s):
            return False
        if z3.is_int_value(s):
            return s.as_long()
        return s
    return x


def same_term(a, b):
    """Syntactic identity of two (possibly symbolic) integers."""
    if isinstance(a, z3.ExprRef) and isinstance(b, z3.ExprRef):
        return a.eq(b)
    return type(a) == type(b) and a == b
