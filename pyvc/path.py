"""One symbolic execution path: path condition, lazily instantiated facts, decisions,
incremental solver, obligations."""
from __future__ import annotations

import time

import z3

from . import ctx, values
from .ctx import PathAbort, PyExc, Unsupported
from .values import FactSink, b_and, b_not, simplify_scalar, zbool


class Obligation:
    def __init__(self, name, status, seconds, backend, model=None, detail="", level="helper"):
        self.name = name
        self.status = status  # 'proved' | 'failed' | 'unknown'
        self.seconds = seconds
        self.backend = backend
        self.model = model
        self.detail = detail
        self.level = level

    def to_json(self):
        return {
            "name": self.name,
            "status": self.status,
            "seconds": round(self.seconds, 4),
            "backend": self.backend,
            "level": self.level,
            "detail": self.detail,
        }


FEAS_TIMEOUT_MS = 3000
PROVE_TIMEOUT_MS = 20000


class Path:
    concrete_mode = False

    def __init__(self, decisions=(), observed_refinements=False, prove_timeout_ms=PROVE_TIMEOUT_MS, degraded=None):
        self.degraded = degraded if degraded is not None else [False]
        self.decisions = list(decisions)
        self.pos = 0
        self.taken = []
        self.forks = []
        self.sink = FactSink()
        self.pc = []
        self.pc_raw = []      # unsimplified branch conditions (term relevance only)
        self._facts_mark = 0
        self.solver = z3.Solver()
        self.solver.set("timeout", FEAS_TIMEOUT_MS)
        self._n_facts_added = 0
        self._n_pc_added = 0
        self.obligations = []
        self.observed_refinements = observed_refinements
        self.prove_timeout_ms = prove_timeout_ms
        self.solver_seconds = 0.0
        self.n_queries = 0
        self._prov_cache = {}
        self.inputs = []      # registered symbolic inputs (for model extraction)
        self.trace = []       # ghost events
        self.ghosts = {}      # ghost state of contracts (fold-sums ...)
        self.assumptions_used = set()

    # ------------------------------------------------------------------ solver sync
    def _sync(self):
        while self._n_pc_added < len(self.pc):
            self.solver.add(self.pc[self._n_pc_added])
            self._n_pc_added += 1
        while self._n_facts_added < len(self.sink.facts):
            self.solver.add(self.sink.facts[self._n_facts_added])
            self._n_facts_added += 1

    def assume(self, cond):
        if cond is True:
            return
        if cond is False:
            raise PathAbort("assumed False")
        self.pc.append(cond)

    def _check(self, extra, timeout_ms):
        self._sync()
        # The outcome of these auxiliary queries shapes the formulas built afterwards (a term
        # is simplified only if a side condition is provable), so it must not depend on how
        # busy the machine is: the budget is z3's deterministic resource counter (about 1500
        # units per nominal millisecond), with a generous wall-clock backstop.
        self.solver.set("rlimit", int(timeout_ms) * 1500)
        self.solver.set("timeout", int(timeout_ms) * 6)
        t0 = time.time()
        self.solver.push()
        try:
            self.solver.add(extra)
            r = self.solver.check()
        finally:
            self.solver.pop()
        dt = time.time() - t0
        self.solver_seconds += dt
        self.n_queries += 1
        return r

    def feasible(self, cond):
        r = self._check(zbool(cond), FEAS_TIMEOUT_MS)
        return r != z3.unsat

    def provable(self, cond, timeout_ms=FEAS_TIMEOUT_MS):
        cond = simplify_scalar(cond) if not isinstance(cond, bool) else cond
        if isinstance(cond, bool):
            return cond
        key = cond.get_id()
        hit = self._prov_cache.get(key)
        if hit is not None and hit[0].eq(cond):
            if hit[1] or hit[2] >= timeout_ms:
                return hit[1]
        r = self._check(z3.Not(cond), timeout_ms)
        res = r == z3.unsat
        # owns the key (AST ids are reused after GC); negative answers are only valid for the
        # facts known so far, but facts only grow, so a cached "not provable" can at worst
        # keep a term in its general (sound) form
        self._prov_cache[key] = (cond, res, timeout_ms)
        return res

    # ------------------------------------------------------------------ decisions
    def choose(self, n, label=""):
        """n-way nondeterministic choice (explored exhaustively by re-execution)."""
        if self.pos < len(self.decisions):
            d = self.decisions[self.pos]
            self.pos += 1
            self.taken.append(d)
            return d
        prefix = list(self.taken)
        for alt in range(1, n):
            self.forks.append(prefix + [alt])
        self.pos += 1
        self.taken.append(0)
        return 0

    def truth(self, cond):
        if isinstance(cond, bool):
            return cond
        c = simplify_scalar(cond)
        if isinstance(c, bool):
            return c
        if isinstance(cond, z3.ExprRef):
            self.pc_raw.append(cond)
        if self.pos < len(self.decisions):
            d = self.decisions[self.pos]
            self.pos += 1
            self.taken.append(d)
            self.pc.append(c if d else z3.Not(c))
            return bool(d)
        # structural shortcut: already on the path condition
        can_t = self.feasible(c)
        can_f = self.feasible(z3.Not(c)) if can_t else True
        prefix = list(self.taken)
        self.pos += 1
        if can_t and can_f:
            self.forks.append(prefix + [0])
            self.taken.append(1)
            self.pc.append(c)
            return True
        if can_t:
            self.taken.append(1)
            self.pc.append(c)
            return True
        if can_f:
            self.taken.append(0)
            self.pc.append(z3.Not(c))
            return False
        raise PathAbort("infeasible path")

    def require(self, cond, exc="RuntimeError", msg=""):
        if cond is True:
            return
        if not self.truth(cond):
            raise PyExc(exc, (msg,))

    # ------------------------------------------------------------------ obligations
    def prove(self, name, goal, hyps=(), level="helper", want_model=True):
        """Discharge  pc /\\ facts /\\ hyps  ==>  goal.

        Stage 1 uses the core facts only (path condition, library/contract facts); stage 2
        adds the auxiliary nonlinear/transcendental axioms; stage 3 hands z3's `unknown`
        to cvc5.  Fewer hypotheses can only make a proof harder, never unsound."""
        t0 = time.time()
        goal_s = simplify_scalar(goal) if not isinstance(goal, bool) else goal
        hyp = b_and(*hyps) if hyps else True
        if goal_s is True or hyp is False:
            ob = Obligation(name, "proved", time.time() - t0, "syntactic", level=level)
            self.obligations.append(ob)
            return ob
        self._sync()
        # the solver gets the goal as built (not z3.simplify'd): facts and quantifier
        # instances are built by the same constructors, so equal terms stay syntactically
        # equal, which spares the solver a nonlinear normalisation it often cannot do
        neg = z3.And(zbool(hyp), z3.Not(zbool(goal)))
        rel = [neg] + [x for x in (goal, hyp) if isinstance(x, z3.ExprRef)] + [p_ for p_ in self.pc + self.pc_raw if isinstance(p_, z3.ExprRef)]
        # ground facts added since the previous obligation (lemma instances, explicitly
        # instantiated postconditions) belong to this obligation's argument
        rel += [f for f in self.sink.facts[self._facts_mark:] if isinstance(f, z3.ExprRef) and not z3.is_quantifier(f)]
        self._facts_mark = len(self.sink.facts)
        aux = self.sink.relevant_aux(rel)
        if self.degraded[0]:
            # an obligation of this function has already failed with a counter-model:
            # remaining ones get a short budget (they are reported as unknown, not proved)
            s1 = z3.Solver()
            s1.set("timeout", 3000)
            for a_ in self.solver.assertions():
                s1.add(a_)
            for a_ in aux:
                s1.add(a_)
            s1.add(neg)
            r = s1.check()
            self.n_queries += 1
            dt = time.time() - t0
            if r == z3.unsat:
                ob = Obligation(name, "proved", dt, "z3+aux", level=level)
            elif r == z3.sat:
                ob = Obligation(name, "failed", dt, "z3+aux", model=s1.model() if want_model else None, level=level)
            else:
                ob = Obligation(name, "unknown", dt, "z3", detail="short budget after an earlier failed obligation", level=level)
            self.obligations.append(ob)
            return ob
        # stage 0: nonlinear products/quotients abstracted to uninterpreted functions --
        # decides the many obligations whose argument is structural, without letting the
        # nonlinear core wander (unsat of the abstraction implies unsat of the original)
        from .solver import check_abstracted

        t1 = time.time()
        try:
            r0 = check_abstracted(list(self.solver.assertions()) + [neg], timeout_ms=max(4000, self.prove_timeout_ms))
            if r0 != z3.unsat and aux:
                r0 = check_abstracted(list(self.solver.assertions()) + list(aux) + [neg], timeout_ms=4000)
                self.n_queries += 1
        except Exception:
            r0 = z3.unknown
        self.solver_seconds += time.time() - t1
        self.n_queries += 1
        if r0 == z3.unsat:
            ob = Obligation(name, "proved", time.time() - t0, "z3-abs", level=level)
            self.obligations.append(ob)
            return ob
        # fresh (non-incremental) solver: z3's incremental core is markedly weaker on
        # quantified + nonlinear queries (observed: unknown vs unsat in 1 s)
        s1 = z3.Solver()
        _t1 = self.prove_timeout_ms if not aux else min(self.prove_timeout_ms, 5000)
        s1.set("rlimit", int(_t1) * 1500)
        s1.set("timeout", int(_t1) * 6)
        for a in self.solver.assertions():
            s1.add(a)
        s1.add(neg)
        t1 = time.time()
        r = s1.check()
        self.solver_seconds += time.time() - t1
        self.n_queries += 1
        backend = "z3"
        s2 = None
        if r == z3.sat and not aux:
            s2 = s1
        if r != z3.unsat and aux:
            s2 = z3.Solver()
            s2.set("rlimit", int(self.prove_timeout_ms) * 1500)
            s2.set("timeout", int(self.prove_timeout_ms) * 6)
            for a in self.solver.assertions():
                s2.add(a)
            for a in aux:
                s2.add(a)
            s2.add(neg)
            t1 = time.time()
            r = s2.check()
            if r == z3.unknown:
                # portfolio: z3's verdict on nonlinear queries is sensitive to internal
                # ordering; retry with other seeds / arithmetic cores before giving up
                for seed, arith in ((7, 2), (13, 6)):
                    s3 = z3.Solver()
                    s3.set("timeout", max(2000, self.prove_timeout_ms // 3))
                    s3.set("random_seed", seed)
                    z3.set_param("smt.arith.solver", arith)
                    try:
                        for a_ in s2.assertions():
                            s3.add(a_)
                        r3 = s3.check()
                    finally:
                        z3.set_param("smt.arith.solver", 6)
                    self.n_queries += 1
                    if r3 != z3.unknown:
                        r, s2 = r3, s3
                        break
            self.solver_seconds += time.time() - t1
            self.n_queries += 1
            backend = "z3+aux"
        dt = time.time() - t0
        if r == z3.unsat:
            ob = Obligation(name, "proved", dt, backend, level=level)
        elif r == z3.sat:
            model = None
            if want_model:
                model = s2.model()
            ob = Obligation(name, "failed", dt, backend, model=model, level=level)
            self.degraded[0] = True
        else:
            ob = self._fallback(name, neg, dt, level, aux)
        self.obligations.append(ob)
        return ob

    def prove_isolated(self, name, goal, level="helper"):
        """Discharge a closed, path-independent lemma in a clean solver (no path facts)."""
        t0 = time.time()
        goal_s = simplify_scalar(goal) if not isinstance(goal, bool) else goal
        if goal_s is True:
            ob = Obligation(name, "proved", 0.0, "syntactic", level=level)
            self.obligations.append(ob)
            return ob
        neg = z3.Not(zbool(goal_s))
        aux = self.sink.relevant_aux([neg] + ([goal] if isinstance(goal, z3.ExprRef) else []))
        r = z3.unknown
        backend = "z3"
        for seed, arith in ((0, 6), (7, 2), (13, 6)):
            s1 = z3.Solver()
            s1.set("timeout", self.prove_timeout_ms)
            s1.set("random_seed", seed)
            for a_ in aux:
                s1.add(a_)
            s1.add(neg)
            r = s1.check()
            self.n_queries += 1
            if r != z3.unknown:
                break
        dt = time.time() - t0
        self.solver_seconds += dt
        if r == z3.unsat:
            ob = Obligation(name, "proved", dt, backend, level=level)
        elif r == z3.sat:
            ob = Obligation(name, "failed", dt, backend, model=None, level=level, detail="generic lemma is not valid: " + str(s1.model())[:300])
        else:
            from .solver import cvc5_check

            res, detail = cvc5_check(s1, timeout_s=20)
            ob = Obligation(name, "proved" if res == "unsat" else ("failed" if res == "sat" else "unknown"), time.time() - t0, "cvc5", level=level, detail=detail)
        self.obligations.append(ob)
        return ob

    def lemma_instance(self, name, kinds, body, inst):
        """Engine-level arithmetic lemma: `body(*vars)` is proved once per path in a clean
        solver over fresh variables (recorded as a helper obligation); its instance at the
        terms `inst` is then added as a fact."""
        key = ("engine-lemma", name)
        if key not in self.ghosts:
            vs = [z3.Int(values.fresh_name("EL_%s_%d" % (name, i))) if k == "int" else z3.Real(values.fresh_name("EL_%s_%d" % (name, i)))
                  for i, k in enumerate(kinds)]
            ob = self.prove_isolated("engine-lemma/" + name, body(*vs), level="helper")
            self.ghosts[key] = ob.status
        if self.ghosts[key] == "proved":
            f = body(*inst)
            if not isinstance(f, bool):
                self.sink.add(f)

    def _fallback(self, name, neg, dt, level, aux=()):
        from .solver import cvc5_check

        t0 = time.time()
        s2 = z3.Solver()
        for a in self.solver.assertions():
            s2.add(a)
        for a in aux:
            s2.add(a)
        s2.add(neg)
        res, detail = cvc5_check(s2, timeout_s=max(10, self.prove_timeout_ms // 1000))
        dt2 = time.time() - t0
        self.solver_seconds += dt2
        if res == "unsat":
            return Obligation(name, "proved", dt + dt2, "cvc5", level=level)
        if res == "sat":
            return Obligation(name, "failed", dt + dt2, "cvc5", detail=detail, level=level)
        # patience stage: budgets are wall-clock, so a busy machine can turn a 10-second proof
        # into `unknown`.  Before giving up, the first few such obligations of a function are
        # retried once with three times the budget (z3 with another seed, then cvc5).
        if len(self.degraded) > 1 and self.degraded[1] < 3 and not self.degraded[0]:
            self.degraded[1] += 1
            t1 = time.time()
            s3 = z3.Solver()
            s3.set("timeout", 3 * self.prove_timeout_ms)
            s3.set("random_seed", 23)
            for a_ in s2.assertions():
                s3.add(a_)
            r3 = s3.check()
            self.n_queries += 1
            if r3 == z3.unsat:
                self.solver_seconds += time.time() - t1
                return Obligation(name, "proved", dt + dt2 + time.time() - t1, "z3+aux(patience)", level=level)
            if r3 == z3.unknown:
                res, detail = cvc5_check(s2, timeout_s=max(30, 3 * self.prove_timeout_ms // 1000))
                self.solver_seconds += time.time() - t1
                if res == "unsat":
                    return Obligation(name, "proved", dt + dt2 + time.time() - t1, "cvc5(patience)", level=level)
                if res == "sat":
                    return Obligation(name, "failed", dt + dt2 + time.time() - t1, "cvc5", detail=detail, level=level)
            dt2 += time.time() - t1
        return Obligation(name, "unknown", dt + dt2, "z3+cvc5", detail=detail, level=level)

    def canary(self, name):
        """Vacuity guard: the assumptions on this path must not be refutable (the obligation
        `False` must not be provable).  Short budget: contradictions that matter are found
        by unit propagation / E-matching quickly; `unknown` counts as satisfiable."""
        self._sync()
        self.solver.set("timeout", 1500)
        r = self.solver.check()
        self.n_queries += 1
        if r == z3.unsat:
            return False
        if r == z3.unknown:
            from .solver import check_abstracted

            try:
                if check_abstracted(list(self.solver.assertions()), timeout_ms=1500) == z3.unsat:
                    return False
            except Exception:
                pass
        return True

    def enter(self):
        ctx.push(self)
        values.push_sink(self.sink)

    def leave(self):
        values.pop_sink()
        ctx.pop()
