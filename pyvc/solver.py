"""Second back end: cvc5 takes the queries z3 answers `unknown` to."""
from __future__ import annotations

import os
import subprocess
import tempfile


def cvc5_check(z3_solver, timeout_s=40):
    """Run /usr/bin/cvc5 on the assertions of a z3 solver.  Returns (res, detail) with res in
    {'unsat','sat','unknown'}."""
    smt = z3_solver.to_smt2()
    smt = "(set-logic ALL)\n" + smt
    if os.environ.get("PYVC_DUMP"):
        import hashlib

        with open(os.path.join(os.environ["PYVC_DUMP"], hashlib.md5(smt.encode()).hexdigest()[:8] + ".smt2"), "w") as f:
            f.write(smt)
    fd, path = tempfile.mkstemp(suffix=".smt2", prefix="pyvc_")
    try:
        with os.fdopen(fd, "w") as f:
            f.write(smt)
        try:
            p = subprocess.run(
                ["/usr/bin/cvc5", "--tlimit=%d" % (timeout_s * 1000), path],
                capture_output=True,
                text=True,
                timeout=timeout_s + 10,
            )
        except subprocess.TimeoutExpired:
            return "unknown", "cvc5 timeout"
        out = (p.stdout or "").strip().splitlines()
        first = out[0].strip() if out else ""
        if first in ("unsat", "sat"):
            return first, "cvc5: " + first
        return "unknown", "cvc5: " + (first or (p.stderr or "").strip()[:200])
    finally:
        try:
            os.unlink(path)
        except OSError:
            pass


# ----------------------------------------------------------------------------- abstraction
import z3 as _z3

_MULR = _z3.Function("MUL!r", _z3.RealSort(), _z3.RealSort(), _z3.RealSort())
_DIVR = _z3.Function("DIV!r", _z3.RealSort(), _z3.RealSort(), _z3.RealSort())
_MULI = _z3.Function("MUL!i", _z3.IntSort(), _z3.IntSort(), _z3.IntSort())
_DIVI = _z3.Function("DIV!i", _z3.IntSort(), _z3.IntSort(), _z3.IntSort())
_MODI = _z3.Function("MOD!i", _z3.IntSort(), _z3.IntSort(), _z3.IntSort())


def _is_num(e):
    return _z3.is_int_value(e) or _z3.is_rational_value(e)


def abstract_nl(e, memo):
    """Replace nonlinear multiplications / divisions by uninterpreted functions (the same
    function for the same operation everywhere).  If the abstracted query is unsat, so is
    the original: every model of the original extends to a model of the abstraction by
    interpreting MUL!/DIV! as the real operations."""
    k = e.get_id()
    r = memo.get(k)
    if r is not None:
        return r
    if _z3.is_quantifier(e):
        n = e.num_vars()
        vs = [_z3.Const("%s!a%d" % (e.var_name(i), k), e.var_sort(i)) for i in range(n)]
        rev = list(reversed(vs))
        body = _z3.substitute_vars(abstract_nl(e.body(), memo), *rev)
        pats = []
        for i in range(e.num_patterns()):
            p = e.pattern(i)
            pats.append(_z3.MultiPattern(*[_z3.substitute_vars(abstract_nl(c, memo), *rev) for c in p.children()]) if p.num_args() > 1
                        else _z3.substitute_vars(abstract_nl(p.arg(0), memo), *rev))
        if e.is_forall():
            r = _z3.ForAll(vs, body, patterns=pats)
        elif e.is_exists():
            r = _z3.Exists(vs, body, patterns=pats)
        else:
            r = e
        memo[k] = r
        return r
    if not _z3.is_app(e) or e.num_args() == 0:
        memo[k] = e
        return e
    args = [abstract_nl(a, memo) for a in e.children()]
    d = e.decl().kind()
    r = None
    if d == _z3.Z3_OP_MUL:
        nn = [a for a in args if not _is_num(a)]
        if len(nn) >= 2:
            nums = [a for a in args if _is_num(a)]
            F = _MULR if _z3.is_real(e) else _MULI
            acc = nn[0]
            for a in nn[1:]:
                acc = F(acc, a)
            for m in nums:
                acc = m * acc
            r = acc
    elif d == _z3.Z3_OP_DIV and not _is_num(args[1]):
        r = _DIVR(args[0], args[1])
    elif d == _z3.Z3_OP_IDIV and not _is_num(args[1]):
        r = _DIVI(args[0], args[1])
    elif d == _z3.Z3_OP_MOD and not _is_num(args[1]):
        r = _MODI(args[0], args[1])
    if r is None:
        try:
            r = e.decl()(*args)
        except Exception:
            r = e
    memo[k] = r
    return r


RL_PER_MS = 1500      # z3 resource units per nominal millisecond (measured on this image)


def check_abstracted(assertions, timeout_ms=5000):
    """Budget = z3's deterministic resource counter (so a proof found on a quiet machine is
    found on a busy one), with a wall-clock backstop six times the nominal time."""
    memo = {}
    s = _z3.Solver()
    s.set("rlimit", int(timeout_ms) * RL_PER_MS)
    s.set("timeout", int(timeout_ms) * 6)
    for a in assertions:
        s.add(abstract_nl(a, memo))
    return s.check()
