"""Second back end: cvc5 takes the queries z3 answers `unknown` to."""
from __future__ import annotations

import os
import subprocess
import tempfile


def cvc5_check(z3_solver, timeout_s=40):
    """Run /usr/bin/cvc5 on the assertions of a z3 solver.  Returns (res, detail) with res in
    {'unsat','sat','unknown'}."""
    smt = z3_solver.to_smt2()
    smt = "(set-logic ALL)\n" + smt
    if os.environ.get("PYVC_DUMP"):
        import hashlib

        with open(os.path.join(os.environ["PYVC_DUMP"], hashlib.md5(smt.encode()).hexdigest()[:8] + ".smt2"), "w") as f:
            f.write(smt)
    fd, path = tempfile.mkstemp(suffix=".smt2", prefix="pyvc_")
    try:
        with os.fdopen(fd, "w") as f:
            f.write(smt)
        try:
            p = subprocess.run(
                ["/usr/bin/cvc5", "--tlimit=%d" % (timeout_s * 1000), path],
                capture_output=True,
                text=True,
                timeout=timeout_s + 10,
            )
        except subprocess.TimeoutExpired:
            return "unknown", "cvc5 timeout"
        out = (p.stdout or "").strip().splitlines()
        first = out[0].strip() if out else ""
        if first in ("unsat", "sat"):
            return first, "cvc5: " + first
        return "unknown", "cvc5: " + (first or (p.stderr or "").strip()[:200])
    finally:
        try:
            os.unlink(path)
        except OSError:
            pass
