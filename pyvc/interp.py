"""Symbolic interpreter for the Python subset used by the anchored sleap-nn code.

It executes the *real* source text (ASTs from loader.py).  Calls to repository functions
that have a sidecar contract are replaced by assert-pre / assume-post (modular mode);
other repository functions are interpreted in place ("inlined").  Calls into libraries go
through the trusted models in lib_*.py; an unknown library name aborts with Unsupported
(= undecided), never a pass.
"""
from __future__ import annotations

import ast
import math
import operator

import z3

from . import ctx, tensor as T, values as V
from .ctx import PathAbort, PyExc, Unsupported
from .tensor import STensor


# =========================================================================== runtime values


class Closure:
    def __init__(self, fn, module, frames, qualname, cls=None):
        self.fn = fn
        self.module = module
        self.frames = frames  # enclosing local frames (for nested defs / lambdas)
        self.qualname = qualname
        self.cls = cls        # ClassVal that defines this method (for super())
        self.is_generator = any(isinstance(n, (ast.Yield, ast.YieldFrom)) for n in _walk_no_nested(fn))
        self.decorators = [d for d in getattr(fn, "decorator_list", [])]

    def __repr__(self):
        return "<closure %s>" % self.qualname


def _walk_no_nested(fn):
    body = fn.body if isinstance(fn.body, list) else [fn.body]
    stack = list(body)
    while stack:
        n = stack.pop()
        yield n
        for c in ast.iter_child_nodes(n):
            if isinstance(c, (ast.FunctionDef, ast.AsyncFunctionDef, ast.Lambda, ast.ClassDef)):
                continue
            stack.append(c)


class ClassVal:
    def __init__(self, node, module, qualname, bases, interp):
        self.node = node
        self.module = module
        self.qualname = qualname
        self.name = node.name if node is not None else qualname.split(".")[-1]
        self.bases = bases
        self.attrs = {}
        self.methods = {}
        self.is_attrs = False
        self.attrs_fields = []  # (name, default_expr or None, field_call or None)

    def mro(self):
        out = [self]
        for b in self.bases:
            if isinstance(b, ClassVal):
                for c in b.mro():
                    if c not in out:
                        out.append(c)
        return out

    def lookup(self, name):
        for c in self.mro():
            if name in c.methods:
                return c.methods[name], c
            if name in c.attrs:
                return c.attrs[name], c
        return None, None

    def lib_base_names(self):
        out = []
        for c in self.mro():
            for b in c.bases:
                if isinstance(b, LibRef):
                    out.append(b.dotted)
        return out

    def __repr__(self):
        return "<class %s>" % self.qualname


class Obj:
    def __init__(self, cls):
        self.cls = cls
        self.attrs = {}

    def __repr__(self):
        return "<%s object>" % self.cls.qualname

    # attrs classes (eq=True by default) compare -- and, when frozen, hash -- by field values;
    # this matters for instances used as dict keys / set members / `in` tests.  Only decided
    # for concrete field values; otherwise identity (symbolic fields as keys are unsupported).
    def _attrs_key(self):
        cls = self.cls
        if not getattr(cls, "is_attrs", False) or (getattr(cls, "attrs_kwargs", None) or {}).get("eq", True) is False:
            return None
        if cls.lookup("__eq__")[0] is not None:
            return None
        vals = []
        for k in sorted(self.attrs):
            v = self.attrs[k]
            if isinstance(v, Obj):
                v = v._attrs_key()
                if v is None:
                    return None
            elif isinstance(v, STensor) and v.rank == 0:
                v = v.at([])  # numpy scalar
            if not isinstance(v, (int, float, str, bool, tuple, type(None))):
                return None
            vals.append((k, v))
        return (id(cls), tuple(vals))

    def __eq__(self, o):
        if self is o:
            return True
        if not isinstance(o, Obj):
            return False
        k = self._attrs_key()
        return k is not None and k == o._attrs_key()

    def __ne__(self, o):
        return not self.__eq__(o)

    def __hash__(self):
        k = self._attrs_key()
        frozen = getattr(self.cls, "is_attrs", False) and (getattr(self.cls, "attrs_kwargs", None) or {}).get("frozen", False)
        if k is not None and frozen:
            return hash(k)
        if frozen and self.cls.lookup("__eq__")[0] is None:
            raise Unsupported("frozen attrs object with symbolic fields used as a dict key / set member")
        return id(self)


class BoundMethod:
    def __init__(self, func, self_obj):
        self.func = func
        self.self_obj = self_obj


class LibRef:
    """Reference to something outside the repository (module, function, class, constant)."""

    def __init__(self, dotted):
        self.dotted = dotted

    def __repr__(self):
        return "<lib %s>" % self.dotted

    def __eq__(self, o):
        return isinstance(o, LibRef) and o.dotted == self.dotted

    def __hash__(self):
        return hash(("LibRef", self.dotted))


class ModuleRef:
    def __init__(self, module):
        self.module = module


class ExcObj:
    def __init__(self, cls_name, args):
        self.cls_name = cls_name
        self.args = tuple(args)

    def __repr__(self):
        return "%s%r" % (self.cls_name, self.args)


class ExcClass:
    def __init__(self, name):
        self.name = name

    def __call__(self, *args):
        return ExcObj(self.name, args)


EXC_HIERARCHY = {
    "Exception": None,
    "ValueError": "Exception",
    "TypeError": "Exception",
    "IndexError": "LookupError",
    "KeyError": "LookupError",
    "LookupError": "Exception",
    "RuntimeError": "Exception",
    "NotImplementedError": "RuntimeError",
    "AssertionError": "Exception",
    "AttributeError": "Exception",
    "ZeroDivisionError": "ArithmeticError",
    "ArithmeticError": "Exception",
    "StopIteration": "Exception",
    "FileNotFoundError": "OSError",
    "OSError": "Exception",
    "ImportError": "Exception",
}


def exc_isinstance(name, handler):
    while name is not None:
        if name == handler:
            return True
        name = EXC_HIERARCHY.get(name, "Exception" if name != "Exception" else None)
    return handler == "BaseException"


class ReturnSig(Exception):
    def __init__(self, value):
        self.value = value


class BreakSig(Exception):
    pass


class ContinueSig(Exception):
    pass


class SymIter:
    """An iteration space of symbolic length (cut with a loop invariant)."""

    def __init__(self, length, get, what=""):
        self.length = length
        self.get = get
        self.what = what


class BuiltinType:
    def __init__(self, name, pytypes):
        self.name = name
        self.pytypes = pytypes

    def __repr__(self):
        return "<type %s>" % self.name


NONE_TYPE = type(None)

_BINOPS = {
    ast.Add: "add",
    ast.Sub: "sub",
    ast.Mult: "mul",
    ast.Div: "truediv",
    ast.FloorDiv: "floordiv",
    ast.Mod: "mod",
    ast.Pow: "pow",
    ast.BitAnd: "and_",
    ast.BitOr: "or_",
    ast.BitXor: "xor",
    ast.MatMult: "matmul",
    ast.LShift: "lshift",
    ast.RShift: "rshift",
}
_CMPOPS = {ast.Lt: "lt", ast.LtE: "le", ast.Gt: "gt", ast.GtE: "ge", ast.Eq: "eq", ast.NotEq: "ne"}


def is_sym(x):
    return isinstance(x, (z3.ExprRef, V.SFloat))


# =========================================================================== interpreter


class Interp:
    def __init__(self, loader, registry, path, top=None, inline=(), libs=None):
        self.loader = loader
        self.registry = registry      # contracts
        self.path = path
        self.top = top                # qualname under verification (interpreted, not contracted)
        self.inline = set(inline)     # qualnames to interpret instead of using their contract
        self.used_contracts = set()
        self.inlined = set()
        self.lib_used = set()
        self.depth = 0
        self.loop_ordinals = {}
        self.module_env = {}
        from . import lib_py, lib_torch, lib_numpy, lib_misc

        self.lib = {}
        for m in (lib_py, lib_torch, lib_numpy, lib_misc):
            self.lib.update(m.LIB)
        self.libconst = {}
        for m in (lib_py, lib_torch, lib_numpy, lib_misc):
            self.libconst.update(getattr(m, "CONST", {}))
        self.tmethods = dict(lib_torch.TMETHODS)
        self.tattrs = dict(lib_torch.TATTRS)
        self.builtins = lib_py.make_builtins(self)
        self.yields = None

    # ------------------------------------------------------------------ name resolution
    def module_globals(self, module):
        env = self.module_env.get(module.name)
        if env is None:
            env = {}
            self.module_env[module.name] = env
        return env

    def lookup_global(self, module, name):
        env = self.module_globals(module)
        if name in env:
            return env[name]
        if name in module.functions:
            v = self.make_function(module.functions[name], module, [], module.name + "." + name)
            env[name] = v
            return v
        if name in module.classes:
            v = self.make_class(module.classes[name], module, module.name + "." + name, [])
            env[name] = v
            return v
        if name in module.imports:
            v = self.resolve_dotted(module.imports[name])
            env[name] = v
            return v
        if name in module.assigns:
            fr = {}
            v = self.eval(module.assigns[name], Frame(module, fr, [], module.name))
            env[name] = v
            return v
        if name in self.builtins:
            return self.builtins[name]
        raise PyExc("NameError", ("name %r is not defined" % name,))

    def resolve_dotted(self, dotted):
        if self.loader.is_repo_name(dotted):
            r = self.loader.resolve(dotted)
            if r is None:
                raise Unsupported("cannot resolve repository name %s" % dotted)
            kind, m, node = r
            if kind == "module":
                return ModuleRef(m)
            if kind == "function":
                return self.lookup_global(m, node.name)
            if kind == "class":
                return self.lookup_global(m, node.name)
            if kind == "assign":
                return self.lookup_global(m, dotted.rsplit(".", 1)[1])
            if kind == "lib":
                return self.resolve_dotted(node)
            raise Unsupported("resolve kind %s" % kind)
        if dotted in self.libconst:
            return self.libconst[dotted]
        return LibRef(dotted)

    def make_function(self, fn, module, frames, qualname, cls=None):
        c = Closure(fn, module, frames, qualname, cls)
        return c

    def make_class(self, node, module, qualname, frames):
        fr = Frame(module, {}, frames, qualname)
        bases = [self.eval(b, fr) for b in node.bases]
        cv = ClassVal(node, module, qualname, bases, self)
        # decorators: attrs
        for d in node.decorator_list:
            dn = self._decorator_name(d, fr)
            if dn in ("attrs.define", "attr.s", "attrs.frozen", "attr.define", "attr.attrs", "attrs.mutable"):
                cv.is_attrs = True
                cv.attrs_define = dn.endswith("define") or dn.endswith("mutable")
                cv.attrs_kwargs = {}
                if isinstance(d, ast.Call):
                    for kw in d.keywords:
                        cv.attrs_kwargs[kw.arg] = self.eval(kw.value, fr)
            elif dn is not None and dn.endswith("oneof"):
                cv.oneof_decorator = d
            elif dn is not None:
                cv.other_decorators = getattr(cv, "other_decorators", []) + [(dn, d)]
        body_frame = Frame(module, {}, frames, qualname)
        for st in node.body:
            if isinstance(st, (ast.FunctionDef,)):
                cl = self.make_function(st, module, frames, qualname + "." + st.name, cls=cv)
                kinds = [self._decorator_name(d, fr) for d in st.decorator_list]
                if "staticmethod" in kinds:
                    cl.static = True
                if "classmethod" in kinds:
                    cl.classmethod = True
                if "property" in kinds:
                    cl.is_property = True
                setter = [k for k in kinds if k and k.endswith(".setter")]
                if setter:
                    cv.methods["__set_" + st.name] = cl
                    continue
                validator = [k for k in kinds if k and k.endswith(".validator")]
                if validator:
                    cv.field_validators = getattr(cv, "field_validators", {})
                    cv.field_validators[validator[0].rsplit(".", 1)[0]] = cl
                    continue
                cv.methods[st.name] = cl
            elif isinstance(st, ast.AnnAssign) and isinstance(st.target, ast.Name):
                if cv.is_attrs:
                    cv.attrs_fields.append((st.target.id, st.value, st.annotation))
                    if st.value is not None and not self._is_attrs_field_call(st.value, body_frame):
                        cv.attrs[st.target.id] = self.eval(st.value, body_frame)
                elif st.value is not None:
                    cv.attrs[st.target.id] = self.eval(st.value, body_frame)
                    body_frame.locals[st.target.id] = cv.attrs[st.target.id]
            elif isinstance(st, ast.Assign):
                v = self.eval(st.value, body_frame)
                for t in st.targets:
                    if isinstance(t, ast.Name):
                        cv.attrs[t.id] = v
                        body_frame.locals[t.id] = v
            elif isinstance(st, ast.Expr) and isinstance(st.value, ast.Constant):
                pass  # docstring
            elif isinstance(st, ast.Pass):
                pass
            else:
                raise Unsupported("class body statement %s in %s" % (type(st).__name__, qualname))
        if getattr(cv, "oneof_decorator", None) is not None:
            cv = self._apply_class_decorator(cv, cv.oneof_decorator, fr)
        return cv

    def _apply_class_decorator(self, cv, d, fr):
        dec = self.eval(d, fr)
        return self.call(dec, [cv], {})

    def _is_attrs_field_call(self, node, fr):
        if isinstance(node, ast.Call):
            dn = self._decorator_name(node.func, fr)
            return dn in ("attrs.field", "attr.ib", "attr.field", "attrs.Factory", "attr.Factory")
        return False

    def _decorator_name(self, d, fr):
        if isinstance(d, ast.Call):
            d = d.func
        parts = []
        while isinstance(d, ast.Attribute):
            parts.append(d.attr)
            d = d.value
        if isinstance(d, ast.Name):
            base = d.id
            mod = fr.module
            if base in mod.imports:
                base = mod.imports[base]
            parts.append(base)
            return ".".join(reversed(parts))
        return None

    # ------------------------------------------------------------------ calling
    def call(self, fn, args, kwargs, node=None):
        if isinstance(fn, Closure):
            return self.call_closure(fn, list(args), dict(kwargs))
        if isinstance(fn, BoundMethod):
            return self.call(fn.func, [fn.self_obj] + list(args), kwargs)
        if isinstance(fn, ClassVal):
            return self.instantiate(fn, list(args), dict(kwargs))
        if isinstance(fn, LibRef):
            return self.call_lib(fn.dotted, list(args), dict(kwargs))
        if isinstance(fn, Obj):
            m, _ = fn.cls.lookup("__call__")
            if m is not None:
                return self.call(m, [fn] + list(args), kwargs)
            lb = fn.cls.lib_base_names()
            if any(b in ("torch.nn.Module", "torch.nn.modules.Module", "lightning.LightningModule") or b.startswith("torch.nn.") for b in lb):
                m, _ = fn.cls.lookup("forward")
                if m is not None:
                    return self.call(m, [fn] + list(args), kwargs)
            raise PyExc("TypeError", ("object not callable",))
        if isinstance(fn, BuiltinType):
            return self.builtins["__construct__"](fn, args, kwargs)
        if isinstance(fn, ExcClass):
            return fn(*args)
        if callable(fn):
            try:
                return fn(*args, **kwargs)
            except (PyExc, Unsupported, PathAbort, ReturnSig, BreakSig, ContinueSig):
                raise
            except (TypeError, ValueError, KeyError, IndexError, AttributeError, ZeroDivisionError, StopIteration) as e:
                # native exception from a native container/builtin == what CPython raises
                if getattr(fn, "__pyvc_lib__", False):
                    raise
                raise PyExc(type(e).__name__, e.args)
        raise PyExc("TypeError", ("%r is not callable" % (fn,),))

    def call_lib(self, dotted, args, kwargs):
        f = self.lib.get(dotted)
        if f is None:
            raise Unsupported("no library model for %s" % dotted)
        self.lib_used.add(dotted)
        import inspect as _inspect

        try:
            _inspect.signature(f).bind(self, *args, **kwargs)
        except TypeError as e:
            # the code uses the library function in a way its model does not cover (another
            # keyword, more arguments): undecided, never a crash of the checker
            raise Unsupported("library model for %s does not cover this call (%s)" % (dotted, e))
        except ValueError:
            pass
        return f(self, *args, **kwargs)

    def bind_args(self, cl, args, kwargs):
        fn = cl.fn
        a = fn.args
        params = [p.arg for p in a.posonlyargs] + [p.arg for p in a.args]
        bound = {}
        args = list(args)
        if len(args) > len(params) and a.vararg is None:
            raise PyExc("TypeError", ("%s() takes %d positional arguments but %d were given" % (cl.qualname, len(params), len(args)),))
        for p, v in zip(params, args):
            bound[p] = v
        extra = args[len(params):]
        if a.vararg is not None:
            bound[a.vararg.arg] = tuple(extra)
        kwonly = [p.arg for p in a.kwonlyargs]
        extra_kw = {}
        for k, v in kwargs.items():
            if k in params or k in kwonly:
                if k in bound:
                    raise PyExc("TypeError", ("%s() got multiple values for argument %r" % (cl.qualname, k),))
                bound[k] = v
            elif a.kwarg is not None:
                extra_kw[k] = v
            else:
                raise PyExc("TypeError", ("%s() got an unexpected keyword argument %r" % (cl.qualname, k),))
        if a.kwarg is not None:
            bound[a.kwarg.arg] = extra_kw
        # defaults
        defaults = a.defaults
        nd = len(defaults)
        pos_params = params
        dframe = Frame(cl.module, {}, cl.frames, cl.qualname)
        for i, p in enumerate(pos_params):
            if p not in bound:
                j = i - (len(pos_params) - nd)
                if j < 0:
                    raise PyExc("TypeError", ("%s() missing required argument %r" % (cl.qualname, p),))
                bound[p] = self.eval(defaults[j], dframe)
        for p, d in zip(kwonly, a.kw_defaults):
            if p not in bound:
                if d is None:
                    raise PyExc("TypeError", ("%s() missing keyword-only argument %r" % (cl.qualname, p),))
                bound[p] = self.eval(d, dframe)
        return bound

    def call_closure(self, cl, args, kwargs):
        if isinstance(cl.fn, ast.Lambda):
            bound = self.bind_args(cl, args, kwargs)
            fr = Frame(cl.module, bound, cl.frames, cl.qualname)
            return self.eval(cl.fn.body, fr)
        # abstraction installed by the contract under verification (a ghost standing for a
        # repository function whose own contract is proved elsewhere); recorded as an assumption
        ov = getattr(self, "overrides", None)
        if ov and cl.qualname in ov and self.depth > 0:
            self.path.assumptions_used.add("abstracted_callee(%s)" % cl.qualname)
            return ov[cl.qualname](*args, **kwargs)
        # contract?
        con = self.registry.get(cl.qualname) if self.registry is not None else None
        if con is not None and cl.qualname != self.top and cl.qualname not in self.inline and self.depth > 0:
            bound = self.bind_args(cl, args, kwargs)
            self.used_contracts.add(cl.qualname)
            return con.apply_at_call(self, bound)
        if self.depth > 0:
            self.inlined.add(cl.qualname)
        bound = self.bind_args(cl, args, kwargs)
        return self.run_body(cl, bound)

    def run_body(self, cl, bound):
        fr = Frame(cl.module, bound, cl.frames, cl.qualname)
        fr.closure = cl
        self.depth += 1
        if self.depth > 60:
            raise Unsupported("call depth exceeded (recursion?) at %s" % cl.qualname)
        saved_yields = self.yields
        if cl.is_generator:
            self.yields = []
        try:
            try:
                self.exec_block(cl.fn.body, fr)
                result = None
            except ReturnSig as r:
                result = r.value
            if cl.is_generator:
                result = list(self.yields)
            return result
        finally:
            self.depth -= 1
            self.yields = saved_yields

    def instantiate(self, cv, args, kwargs):
        obj = Obj(cv)
        init, owner = cv.lookup("__init__")
        if cv.is_attrs or any(isinstance(c, ClassVal) and c.is_attrs for c in cv.mro()):
            if init is None:
                self.attrs_init(obj, cv, args, kwargs)
                return obj
        if init is not None:
            self.call(init, [obj] + args, kwargs)
            return obj
        lb = cv.lib_base_names()
        for b in lb:
            f = self.lib.get(b + ".__init__")
            if f is not None:
                f(self, obj, *args, **kwargs)
                return obj
        if args or kwargs:
            if lb:
                raise Unsupported("constructor of library base %s" % lb)
            raise PyExc("TypeError", ("%s() takes no arguments" % cv.name,))
        return obj

    def attrs_init(self, obj, cv, args, kwargs):
        fields = []
        for c in reversed(cv.mro()):
            if isinstance(c, ClassVal) and c.is_attrs:
                for f in c.attrs_fields:
                    fields = [g for g in fields if g[0] != f[0]] + [f + (c,)]
        args = list(args)
        if len(args) > len(fields):
            raise PyExc("TypeError", ("__init__() takes %d positional arguments" % len(fields),))
        given = {}
        for (name, _, _, _), v in zip(fields, args):
            given[name] = v
        for k, v in kwargs.items():
            if k not in [f[0] for f in fields]:
                raise PyExc("TypeError", ("__init__() got an unexpected keyword argument %r" % k,))
            if k in given:
                raise PyExc("TypeError", ("multiple values for %r" % k,))
            given[k] = v
        validators = []
        for (name, default, ann, owner) in fields:
            fr = Frame(owner.module, {}, [], owner.qualname)
            fieldspec = None
            if default is not None and self._is_attrs_field_call(default, fr):
                fieldspec = self.eval_field_call(default, fr)
            if name in given:
                val = given[name]
            elif fieldspec is not None:
                if "factory" in fieldspec:
                    val = self.call(fieldspec["factory"], [], {})
                elif "default" in fieldspec:
                    val = fieldspec["default"]
                    if isinstance(val, dict) and val.get("__factory__"):
                        val = self.call(val["fn"], [], {})
                else:
                    raise PyExc("TypeError", ("__init__() missing required argument %r" % name,))
            elif default is not None:
                val = self.eval(default, fr)
                val = self._copy_default(val)
            else:
                raise PyExc("TypeError", ("__init__() missing required argument %r" % name,))
            if fieldspec is not None and fieldspec.get("converter") is not None:
                val = self.call(fieldspec["converter"], [val], {})
            obj.attrs[name] = val
            if fieldspec is not None and fieldspec.get("validator") is not None:
                validators.append((name, fieldspec["validator"]))
            fv = getattr(owner, "field_validators", {})
            if name in fv:
                validators.append((name, fv[name]))
        for name, vd in validators:
            attr = Obj(ClassVal(None, None, "attrs.Attribute", [], self))
            attr.attrs["name"] = name
            vds = vd if isinstance(vd, (list, tuple)) else [vd]
            for one in vds:
                if isinstance(one, Closure) and one.cls is not None:
                    self.call(one, [obj, attr, obj.attrs[name]], {})
                else:
                    self.call(one, [obj, attr, obj.attrs[name]], {})
        post, _ = cv.lookup("__attrs_post_init__")
        if post is not None:
            self.call(post, [obj], {})

    def _copy_default(self, v):
        return v

    def eval_field_call(self, node, fr):
        spec = {}
        dn = self._decorator_name(node.func, fr)
        if dn in ("attrs.Factory", "attr.Factory"):
            spec["factory"] = self.eval(node.args[0], fr)
            return spec
        if node.args:
            spec["default"] = self.eval(node.args[0], fr)
        for kw in node.keywords:
            if kw.arg == "default":
                if isinstance(kw.value, ast.Call) and self._decorator_name(kw.value.func, fr) in ("attrs.Factory", "attr.Factory"):
                    spec["factory"] = self.eval(kw.value.args[0], fr)
                else:
                    spec["default"] = self.eval(kw.value, fr)
            elif kw.arg == "factory":
                spec["factory"] = self.eval(kw.value, fr)
            elif kw.arg in ("validator", "converter"):
                spec[kw.arg] = self.eval(kw.value, fr)
            elif kw.arg in ("init", "repr", "eq", "kw_only", "metadata", "type", "on_setattr", "hash", "order"):
                spec[kw.arg] = self.eval(kw.value, fr)
            else:
                raise Unsupported("attrs.field(%s=...)" % kw.arg)
        return spec

    # ------------------------------------------------------------------ statements
    def exec_block(self, stmts, fr):
        for st in stmts:
            self.exec(st, fr)

    def exec(self, st, fr):
        m = getattr(self, "exec_" + type(st).__name__, None)
        if m is None:
            raise Unsupported("statement %s @%s:%d" % (type(st).__name__, fr.module.path, st.lineno))
        try:
            return m(st, fr)
        except Unsupported as e:
            if "@" not in str(e):
                raise Unsupported("%s @%s:%d" % (e, fr.module.path, st.lineno))
            raise

    def exec_Expr(self, st, fr):
        if isinstance(st.value, ast.Constant):
            return
        self.eval(st.value, fr)

    def exec_Pass(self, st, fr):
        pass

    def exec_Import(self, st, fr):
        for a in st.names:
            if a.asname:
                fr.locals[a.asname] = self.resolve_dotted(a.name)
            else:
                top = a.name.split(".")[0]
                fr.locals[top] = self.resolve_dotted(top)

    def exec_ImportFrom(self, st, fr):
        mod = st.module or ""
        for a in st.names:
            fr.locals[a.asname or a.name] = self.resolve_dotted(mod + "." + a.name)

    def exec_Return(self, st, fr):
        raise ReturnSig(self.eval(st.value, fr) if st.value is not None else None)

    def exec_Break(self, st, fr):
        raise BreakSig()

    def exec_Continue(self, st, fr):
        raise ContinueSig()

    def exec_Global(self, st, fr):
        raise Unsupported("global statement")

    def exec_Nonlocal(self, st, fr):
        fr.nonlocals = getattr(fr, "nonlocals", set()) | set(st.names)

    def exec_Delete(self, st, fr):
        for t in st.targets:
            if isinstance(t, ast.Name):
                fr.locals.pop(t.id, None)
            elif isinstance(t, ast.Subscript):
                base = self.eval(t.value, fr)
                key = self.eval_index(t.slice, fr)
                if isinstance(base, (dict, list)):
                    try:
                        del base[self.conc_key(key)]
                    except (KeyError, IndexError) as e:
                        raise PyExc(type(e).__name__, e.args)
                else:
                    raise Unsupported("del on %r" % type(base))
            elif isinstance(t, ast.Attribute):
                base = self.eval(t.value, fr)
                if isinstance(base, Obj):
                    base.attrs.pop(t.attr, None)
                else:
                    raise Unsupported("del attribute")
            else:
                raise Unsupported("del target")

    def exec_Assert(self, st, fr):
        v = self.eval(st.test, fr)
        if not self.truth(v):
            raise PyExc("AssertionError", ())

    def exec_Raise(self, st, fr):
        if st.exc is None:
            cur = getattr(fr, "current_exc", None)
            if cur is None:
                raise PyExc("RuntimeError", ("No active exception to reraise",))
            raise cur
        e = self.eval(st.exc, fr)
        if isinstance(e, ExcClass):
            e = e()
        if isinstance(e, ExcObj):
            raise PyExc(e.cls_name, e.args, value=e)
        if isinstance(e, Obj):
            raise PyExc(e.cls.name, (), value=e)
        raise Unsupported("raise of %r" % (e,))

    def exec_FunctionDef(self, st, fr):
        cl = self.make_function(st, fr.module, [fr] + fr.frames, fr.qualname + ".<locals>." + st.name)
        v = cl
        for d in reversed(st.decorator_list):
            dec = self.eval(d, fr)
            v = self.call(dec, [v], {})
        fr.locals[st.name] = v

    def exec_ClassDef(self, st, fr):
        fr.locals[st.name] = self.make_class(st, fr.module, fr.qualname + ".<locals>." + st.name, [fr] + fr.frames)

    def exec_If(self, st, fr):
        if self.truth(self.eval(st.test, fr)):
            self.exec_block(st.body, fr)
        else:
            self.exec_block(st.orelse, fr)

    def exec_Assign(self, st, fr):
        v = self.eval(st.value, fr)
        for t in st.targets:
            self.assign(t, v, fr)

    def exec_AnnAssign(self, st, fr):
        if st.value is not None:
            self.assign(st.target, self.eval(st.value, fr), fr)

    def exec_AugAssign(self, st, fr):
        op = _BINOPS[type(st.op)]
        t = st.target
        if isinstance(t, ast.Name):
            cur = self.load_name(t.id, fr)
            rhs = self.eval(st.value, fr)
            if isinstance(cur, STensor):
                self.inplace_tensor(cur, op, rhs)
                return
            if isinstance(cur, list) and op == "add":
                cur.extend(self.iterate_concrete(rhs))
                return
            self.store_name(t.id, self.binop(op, cur, rhs), fr)
        elif isinstance(t, ast.Subscript):
            base = self.eval(t.value, fr)
            key = self.eval_index(t.slice, fr)
            cur = self.getitem(base, key)
            rhs = self.eval(st.value, fr)
            if isinstance(cur, STensor) and cur.base is not None and cur.owner() is (base.owner() if isinstance(base, STensor) else None):
                self.inplace_tensor(cur, op, rhs)
                return
            if isinstance(cur, STensor):
                new = T.clone(cur)
                self.inplace_tensor(new, op, rhs)
                self.setitem(base, key, new)
                return
            self.setitem(base, key, self.binop(op, cur, rhs))
        elif isinstance(t, ast.Attribute):
            base = self.eval(t.value, fr)
            cur = self.getattr(base, t.attr)
            rhs = self.eval(st.value, fr)
            if isinstance(cur, STensor):
                self.inplace_tensor(cur, op, rhs)
                return
            self.setattr(base, t.attr, self.binop(op, cur, rhs))
        else:
            raise Unsupported("augassign target")

    def inplace_tensor(self, t, op, rhs):
        res = T.tbinop(op, t, rhs)
        # in-place: result must have t's shape and is cast to t's dtype
        if len(res.shape) != t.rank:
            raise PyExc("RuntimeError", ("output with shape %s doesn't match the broadcast shape %s" % (t.shape, res.shape),))
        for a, b in zip(res.shape, t.shape):
            e = T.dims_equal(a, b)
            if e is False:
                raise PyExc("RuntimeError", ("output with shape %s doesn't match the broadcast shape %s" % (t.shape, res.shape),))
            if e is None:
                self.path.require(V.i_eq(a, b), "RuntimeError", "in-place op shape mismatch")
        if t.dtype == T.INT and res.dtype == T.FLOAT:
            raise PyExc("RuntimeError", ("result type Float can't be cast to the desired output type Long",))
        rr = res.reader()
        dt = t.dtype
        t.write(lambda idx, old: T.cast_scalar(rr(idx), dt))

    def exec_For(self, st, fr):
        it = self.iterate(self.eval(st.iter, fr))
        if isinstance(it, SymIter):
            return self.exec_for_symbolic(st, fr, it)
        broke = False
        for x in it:
            self.assign(st.target, x, fr)
            try:
                self.exec_block(st.body, fr)
            except BreakSig:
                broke = True
                break
            except ContinueSig:
                continue
        if not broke:
            self.exec_block(st.orelse, fr)

    def exec_While(self, st, fr):
        inv = self.loop_invariant(fr, st)
        if inv is not None:
            return self.exec_while_invariant(st, fr, inv)
        n = 0
        broke = False
        while self.truth(self.eval(st.test, fr)):
            n += 1
            if n > 64:
                raise Unsupported("while loop without invariant exceeded 64 unrollings")
            try:
                self.exec_block(st.body, fr)
            except BreakSig:
                broke = True
                break
            except ContinueSig:
                continue
        if not broke:
            self.exec_block(st.orelse, fr)

    def loop_ordinal(self, fr, st):
        fn = getattr(fr, "closure", None)
        if fn is None:
            return None
        loops = [n for n in ast.walk(fn.fn) if isinstance(n, (ast.For, ast.While))]
        loops.sort(key=lambda n: (n.lineno, n.col_offset))
        for i, n in enumerate(loops):
            if n is st:
                return i
        return None

    def loop_invariant(self, fr, st):
        if self.registry is None:
            return None
        o = self.loop_ordinal(fr, st)
        if o is None:
            return None
        return self.registry.get_invariant(fr.qualname, o)

    def assigned_names(self, stmts):
        out = []
        for st in stmts:
            for n in ast.walk(st):
                if isinstance(n, ast.Name) and isinstance(n.ctx, (ast.Store, ast.Del)):
                    if n.id not in out:
                        out.append(n.id)
                elif isinstance(n, ast.AugAssign) and isinstance(n.target, ast.Name):
                    if n.target.id not in out:
                        out.append(n.target.id)
                elif isinstance(n, (ast.Assign, ast.AugAssign)):
                    tg = n.targets if isinstance(n, ast.Assign) else [n.target]
                    for t in tg:
                        b = t
                        while isinstance(b, (ast.Subscript, ast.Attribute)):
                            b = b.value
                        if isinstance(b, ast.Name) and isinstance(t, (ast.Subscript,)) and b.id not in out:
                            out.append(b.id)
        return out

    def exec_for_symbolic(self, st, fr, it):
        inv = self.loop_invariant(fr, st)
        if inv is None:
            raise Unsupported("loop over symbolic range without invariant (%s loop %s)" % (fr.qualname, self.loop_ordinal(fr, st)))
        if st.orelse:
            raise Unsupported("for/else over symbolic range")
        n = it.length
        name = "%s/loop%d" % (fr.qualname, inv.ordinal)
        assigned = [a for a in self.assigned_names(st.body) if a in fr.locals]
        # 1. invariant holds on entry
        inv.check(self, fr, 0, n, name + "/entry")
        which = self.path.choose(2, label=name)
        # 2. havoc everything the body may change
        inv.havoc(self, fr, assigned)
        if which == 0:
            # after the loop
            inv.assume(self, fr, n, n)
            self.path.assume(V.zbool(V.i_le(0, n)))
            return
        # arbitrary iteration k
        k = V.fresh_int("k")
        self.path.assume(z3.And(k >= 0, V.zbool(V.i_lt(k, n))))
        inv.assume(self, fr, k, n)
        self.assign(st.target, it.get(k), fr)
        try:
            self.exec_block(st.body, fr)
        except ContinueSig:
            pass
        except BreakSig:
            raise Unsupported("break inside an invariant-cut loop")
        inv.check(self, fr, k + 1, n, name + "/preserved")
        raise PathAbort("loop body checked")

    def exec_while_invariant(self, st, fr, inv):
        raise Unsupported("while loop with invariant")

    def exec_With(self, st, fr):
        for item in st.items:
            cm = self.eval(item.context_expr, fr)
            if item.optional_vars is not None:
                self.assign(item.optional_vars, cm, fr)
        self.exec_block(st.body, fr)

    def exec_Try(self, st, fr):
        def run_finally():
            if st.finalbody:
                self.exec_block(st.finalbody, fr)

        try:
            try:
                self.exec_block(st.body, fr)
            except PyExc as e:
                handled = False
                for h in st.handlers:
                    if self.handler_matches(h, e, fr):
                        handled = True
                        if h.name:
                            fr.locals[h.name] = e.value if e.value is not None else ExcObj(e.cls_name, e.exc_args)
                        saved = getattr(fr, "current_exc", None)
                        fr.current_exc = e
                        try:
                            self.exec_block(h.body, fr)
                        finally:
                            fr.current_exc = saved
                        break
                if not handled:
                    raise
            else:
                self.exec_block(st.orelse, fr)
        except (PyExc, ReturnSig, BreakSig, ContinueSig):
            run_finally()
            raise
        run_finally()

    def handler_matches(self, h, e, fr):
        if h.type is None:
            return True
        t = self.eval(h.type, fr)
        ts = t if isinstance(t, tuple) else (t,)
        for one in ts:
            if isinstance(one, ExcClass):
                if exc_isinstance(e.cls_name, one.name):
                    return True
            elif isinstance(one, ClassVal):
                if e.value is not None and isinstance(e.value, Obj) and one in e.value.cls.mro():
                    return True
            else:
                raise Unsupported("except clause type %r" % (one,))
        return False

    # ------------------------------------------------------------------ assignment
    def assign(self, target, v, fr):
        if isinstance(target, ast.Name):
            self.store_name(target.id, v, fr)
        elif isinstance(target, (ast.Tuple, ast.List)):
            items = self.iterate_concrete(v)
            stars = [i for i, e in enumerate(target.elts) if isinstance(e, ast.Starred)]
            if stars:
                s = stars[0]
                nafter = len(target.elts) - s - 1
                if len(items) < len(target.elts) - 1:
                    raise PyExc("ValueError", ("not enough values to unpack",))
                for e, x in zip(target.elts[:s], items[:s]):
                    self.assign(e, x, fr)
                self.assign(target.elts[s].value, list(items[s: len(items) - nafter]), fr)
                for e, x in zip(target.elts[s + 1:], items[len(items) - nafter:]):
                    self.assign(e, x, fr)
            else:
                if len(items) != len(target.elts):
                    raise PyExc("ValueError", ("too many values to unpack (expected %d)" % len(target.elts) if len(items) > len(target.elts) else "not enough values to unpack (expected %d, got %d)" % (len(target.elts), len(items)),))
                for e, x in zip(target.elts, items):
                    self.assign(e, x, fr)
        elif isinstance(target, ast.Subscript):
            base = self.eval(target.value, fr)
            key = self.eval_index(target.slice, fr)
            self.setitem(base, key, v)
        elif isinstance(target, ast.Attribute):
            base = self.eval(target.value, fr)
            self.setattr(base, target.attr, v)
        else:
            raise Unsupported("assignment target %s" % type(target).__name__)

    def store_name(self, name, v, fr):
        if name in getattr(fr, "nonlocals", ()):
            for f in fr.frames:
                if name in f.locals:
                    f.locals[name] = v
                    return
        fr.locals[name] = v

    def load_name(self, name, fr):
        if name in fr.locals:
            return fr.locals[name]
        for f in fr.frames:
            if name in f.locals:
                return f.locals[name]
        return self.lookup_global(fr.module, name)

    # ------------------------------------------------------------------ expressions
    def eval(self, node, fr):
        m = getattr(self, "eval_" + type(node).__name__, None)
        if m is None:
            raise Unsupported("expression %s @%s:%d" % (type(node).__name__, fr.module.path, getattr(node, "lineno", 0)))
        return m(node, fr)

    def eval_Constant(self, node, fr):
        return node.value

    def eval_Name(self, node, fr):
        return self.load_name(node.id, fr)

    def eval_Tuple(self, node, fr):
        return tuple(self._elts(node.elts, fr))

    def eval_List(self, node, fr):
        return list(self._elts(node.elts, fr))

    def eval_Set(self, node, fr):
        return set(self._elts(node.elts, fr))

    def _elts(self, elts, fr):
        out = []
        for e in elts:
            if isinstance(e, ast.Starred):
                out.extend(self.iterate_concrete(self.eval(e.value, fr)))
            else:
                out.append(self.eval(e, fr))
        return out

    def eval_Dict(self, node, fr):
        d = {}
        for k, v in zip(node.keys, node.values):
            if k is None:
                d.update(self.eval(v, fr))
            else:
                d[self.conc_key(self.eval(k, fr))] = self.eval(v, fr)
        return d

    def eval_JoinedStr(self, node, fr):
        parts = []
        for v in node.values:
            if isinstance(v, ast.Constant):
                parts.append(str(v.value))
            else:
                try:
                    x = self.eval(v.value, fr)
                    parts.append(str(x) if not is_sym(x) and not isinstance(x, STensor) else "<sym>")
                except Unsupported:
                    parts.append("<?>")
        return "".join(parts)

    def eval_Lambda(self, node, fr):
        return Closure(node, fr.module, [fr] + fr.frames, fr.qualname + ".<lambda>")

    def eval_IfExp(self, node, fr):
        if self.truth(self.eval(node.test, fr)):
            return self.eval(node.body, fr)
        return self.eval(node.orelse, fr)

    def eval_BoolOp(self, node, fr):
        if isinstance(node.op, ast.And):
            v = True
            for e in node.values:
                v = self.eval(e, fr)
                if not self.truth(v):
                    return v
            return v
        v = False
        for e in node.values:
            v = self.eval(e, fr)
            if self.truth(v):
                return v
        return v

    def eval_UnaryOp(self, node, fr):
        v = self.eval(node.operand, fr)
        if isinstance(node.op, ast.Not):
            if isinstance(v, z3.ExprRef) and z3.is_bool(v):
                return V.b_not(v)
            return not self.truth(v)
        if isinstance(node.op, ast.USub):
            if isinstance(v, STensor):
                return T.tunary(lambda x: V.f_neg(x) if v.dtype == T.FLOAT else V.i_neg(x), v)
            if V.is_float_kind(v):
                return V.f_neg(v)
            if V.is_int_kind(v) or isinstance(v, bool):
                return V.i_neg(int(v) if isinstance(v, bool) else v)
            raise Unsupported("unary minus on %r" % type(v))
        if isinstance(node.op, ast.UAdd):
            return v
        if isinstance(node.op, ast.Invert):
            if isinstance(v, STensor) and v.dtype == T.BOOL:
                return T.tunary(lambda x: V.b_not(V.to_bool(x)), v, dtype=T.BOOL)
            if isinstance(v, bool):
                return ~int(v)
            if isinstance(v, int):
                return ~v
            if V.is_bool_kind(v):
                raise Unsupported("~ on symbolic python bool")
            raise Unsupported("~ on %r" % type(v))
        raise Unsupported("unary op")

    def eval_BinOp(self, node, fr):
        a = self.eval(node.left, fr)
        b = self.eval(node.right, fr)
        return self.binop(_BINOPS[type(node.op)], a, b)

    def binop(self, op, a, b):
        from .lib_torch import NestedTensor as _NT

        if isinstance(a, _NT) and not isinstance(b, (_NT, list, tuple)):
            # arithmetic of a nested tensor with a scalar / 0-d tensor applies per component
            return _NT([self.binop(op, x, b) for x in a])
        if isinstance(a, STensor) or isinstance(b, STensor):
            if op == "matmul":
                raise Unsupported("matmul")
            if isinstance(a, (list, tuple)) or isinstance(b, (list, tuple)):
                if isinstance(a, (list, tuple)):
                    a = T.from_nested(list(a))
                else:
                    b = T.from_nested(list(b))
            return T.tbinop(op, a, b)
        if V.is_scalar(a) and V.is_scalar(b):
            if is_sym(a) or is_sym(b):
                if op in ("floordiv", "mod"):
                    # ZeroDivisionError is an outcome
                    if V.is_int_kind(b) or isinstance(b, bool):
                        self.path.require(V.b_not(V.i_eq(b, 0)), "ZeroDivisionError", "integer division or modulo by zero")
                if op in ("floordiv", "mod") and (V.is_int_kind(a) or isinstance(a, bool)) and isinstance(b, z3.ExprRef) and z3.is_int(b):
                    # the defining facts of floor division by a symbolic positive divisor
                    self.path.lemma_instance(
                        "div-mod-definition", ["int", "int"],
                        lambda x, y: z3.Implies(y > 0, z3.And(x == y * V.i_floordiv(x, y) + V.i_mod(x, y), V.i_mod(x, y) >= 0, V.i_mod(x, y) < y)),
                        (V.zint(a), b))
                if op == "truediv":
                    # python float division by zero raises (numpy/torch scalars do not)
                    bz = V.f_eq(b, 0.0) if V.is_float_kind(b) else V.i_eq(b, 0)
                    self.path.require(V.b_not(bz), "ZeroDivisionError", "division by zero")
                return V.binop(op, a, b)
            try:
                return _native_binop(op, a, b)
            except ZeroDivisionError as e:
                raise PyExc("ZeroDivisionError", e.args)
            except OverflowError as e:
                raise PyExc("OverflowError", e.args)
        if isinstance(a, Obj):
            m, _ = a.cls.lookup("__%s__" % op.rstrip("_"))
            if m is not None:
                return self.call(m, [a, b], {})
        try:
            return _native_binop(op, a, b)
        except TypeError as e:
            raise PyExc("TypeError", e.args)

    def eval_Compare(self, node, fr):
        left = self.eval(node.left, fr)
        result = True
        for op, rn in zip(node.ops, node.comparators):
            right = self.eval(rn, fr)
            r = self.compare(op, left, right)
            if len(node.ops) == 1:
                return r
            if isinstance(r, STensor):
                raise Unsupported("chained comparison of tensors")
            if not self.truth(r):
                return False
            left = right
        return result

    def compare(self, op, a, b):
        if isinstance(op, ast.Is):
            return self.identical(a, b)
        if isinstance(op, ast.IsNot):
            return not self.identical(a, b)
        if isinstance(op, ast.In):
            return self.contains(b, a)
        if isinstance(op, ast.NotIn):
            r = self.contains(b, a)
            return V.b_not(r) if V.is_bool_kind(r) else (not r)
        name = _CMPOPS[type(op)]
        if isinstance(a, STensor) or isinstance(b, STensor):
            if (a is None or b is None) or isinstance(a, str) or isinstance(b, str):
                return name == "ne"
            if isinstance(a, (list, tuple)):
                a = T.from_nested(list(a))
            if isinstance(b, (list, tuple)):
                b = T.from_nested(list(b))
            return T.tbinop(name, a, b)
        if V.is_scalar(a) and V.is_scalar(b):
            if is_sym(a) or is_sym(b):
                if V.is_bool_kind(a) and V.is_bool_kind(b) and name in ("eq", "ne"):
                    r = V.b_iff(a, b)
                    return r if name == "eq" else V.b_not(r)
                return V.binop(name, a, b)
            return getattr(operator, name)(a, b)
        if isinstance(a, (tuple, list)) and isinstance(b, (tuple, list)) and name in ("eq", "ne"):
            if type(a) is not type(b) and not (isinstance(a, (tuple,)) and isinstance(b, (tuple,))):
                # list vs tuple are never equal in Python
                if isinstance(a, list) != isinstance(b, list):
                    return name == "ne"
            if len(a) != len(b):
                return name == "ne"
            parts = [self.compare(ast.Eq(), x, y) for x, y in zip(a, b)]
            parts = [self._as_boolkind(p) for p in parts]
            r = V.b_and(*parts)
            return r if name == "eq" else V.b_not(r)
        if name in ("eq", "ne"):
            if a is None or b is None:
                r = a is None and b is None
                return r if name == "eq" else not r
            if is_sym(a) or is_sym(b):
                return name == "ne"
            if isinstance(a, (Obj, ClassVal, Closure, LibRef)) or isinstance(b, (Obj, ClassVal, Closure, LibRef)):
                if isinstance(a, Obj):
                    m, _ = a.cls.lookup("__eq__")
                    if m is not None:
                        r = self.call(m, [a, b], {})
                        return r if name == "eq" else V.b_not(r)
                    if a.cls.is_attrs and isinstance(b, Obj) and b.cls is a.cls:
                        parts = [self._as_boolkind(self.compare(ast.Eq(), a.attrs.get(k), b.attrs.get(k))) for k in a.attrs]
                        r = V.b_and(*parts)
                        return r if name == "eq" else V.b_not(r)
                r = a is b or (isinstance(a, LibRef) and isinstance(b, LibRef) and a == b)
                return r if name == "eq" else not r
            try:
                r = a == b
            except Exception as e:
                raise Unsupported("comparison %r == %r" % (type(a), type(b)))
            if not isinstance(r, bool):
                raise Unsupported("comparison result %r" % type(r))
            return r if name == "eq" else not r
        try:
            return getattr(operator, name)(a, b)
        except TypeError as e:
            raise PyExc("TypeError", e.args)

    def _as_boolkind(self, p):
        if isinstance(p, STensor):
            if p.rank == 0:
                return V.to_bool(p.at([]))
            raise PyExc("ValueError", ("truth value of a tensor with more than one element is ambiguous",))
        if V.is_bool_kind(p):
            return p
        return bool(p)

    def identical(self, a, b):
        if a is None or b is None:
            return a is None and b is None
        if isinstance(a, bool) and isinstance(b, bool):
            return a == b
        if isinstance(a, (str,)) and isinstance(b, str):
            return a == b
        if isinstance(a, LibRef) and isinstance(b, LibRef):
            return a == b
        return a is b

    def contains(self, container, x):
        if isinstance(container, dict):
            return self.conc_key(x) in container
        if isinstance(container, str):
            return x in container
        if isinstance(container, (list, tuple, set, frozenset)) or hasattr(container, "__pyvc_iter__"):
            items = list(container)
            if not is_sym(x) and all(not is_sym(i) and not isinstance(i, (STensor, Obj)) for i in items):
                try:
                    return x in items
                except Exception:
                    pass
            parts = []
            for i in items:
                r = self.compare(ast.Eq(), i, x)
                parts.append(self._as_boolkind(r))
            return V.b_or(*parts)
        if isinstance(container, range):
            if isinstance(x, int):
                return x in container
            return V.b_and(V.i_le(container.start, x), V.i_lt(x, container.stop), V.i_eq(V.i_mod(V.i_sub(x, container.start), container.step), 0))
        if isinstance(container, Obj):
            m, _ = container.cls.lookup("__contains__")
            if m is not None:
                return self.call(m, [container, x], {})
        if isinstance(container, STensor):
            return T.tany(T.tbinop("eq", container, x)).at([])
        try:
            return x in container
        except Exception:
            raise Unsupported("`in` on %r" % type(container))

    def eval_Attribute(self, node, fr):
        base = self.eval(node.value, fr)
        return self.getattr(base, node.attr)

    def getattr(self, base, name):
        if isinstance(base, Obj):
            if name in base.attrs:
                return base.attrs[name]
            if name == "__class__":
                return base.cls
            if name == "__dict__":
                return base.attrs
            v, owner = base.cls.lookup(name)
            if v is not None:
                if isinstance(v, Closure):
                    if getattr(v, "is_property", False):
                        return self.call(v, [base], {})
                    if getattr(v, "static", False):
                        return v
                    if getattr(v, "classmethod", False):
                        return BoundMethod(v, base.cls)
                    return BoundMethod(v, base)
                return v
            # library base classes
            for b in base.cls.lib_base_names():
                f = self.lib.get(b + "." + name)
                if f is not None:
                    return _LibBound(self, f, base)
            ga, _ = base.cls.lookup("__getattr__")
            if ga is not None:
                return self.call(ga, [base, name], {})
            raise PyExc("AttributeError", ("%r object has no attribute %r" % (base.cls.name, name),))
        if isinstance(base, ClassVal):
            v, owner = base.lookup(name)
            if v is not None:
                if isinstance(v, Closure) and getattr(v, "classmethod", False):
                    return BoundMethod(v, base)
                return v
            if name == "__name__":
                return base.name
            if name == "__attrs_attrs__" and any(isinstance(c, ClassVal) and c.is_attrs for c in base.mro()):
                out = []
                for c in reversed(base.mro()):
                    for f in getattr(c, "attrs_fields", []):
                        a = Obj(ClassVal(None, None, "attrs.Attribute", [], self))
                        a.attrs["name"] = f[0]
                        out.append(a)
                return tuple(out)
            if name == "__init__" and any(isinstance(c, ClassVal) and c.is_attrs for c in base.mro()):
                interp = self

                def attrs_generated_init(obj, *a, **k):
                    interp.attrs_init(obj, base, list(a), dict(k))

                attrs_generated_init.__pyvc_lib__ = True
                return attrs_generated_init
            raise PyExc("AttributeError", ("type object %r has no attribute %r" % (base.name, name),))
        if isinstance(base, ModuleRef):
            return self.lookup_global(base.module, name)
        if isinstance(base, LibRef):
            d = base.dotted + "." + name
            if d in self.libconst:
                return self.libconst[d]
            return LibRef(d)
        if isinstance(base, STensor):
            if name == "size" and base.kind == "numpy":
                # ndarray.size is an attribute (number of elements), Tensor.size a method
                from .tensor import prod as _prod

                return _prod(base.shape)
            if name in self.tattrs:
                return self.tattrs[name](self, base)
            if name in self.tmethods:
                return _TensorMethod(self, self.tmethods[name], base, name)
            raise Unsupported("tensor attribute .%s" % name)
        if isinstance(base, ExcObj):
            if name == "args":
                return base.args
            raise PyExc("AttributeError", (name,))
        if isinstance(base, Closure):
            if name == "__name__":
                return getattr(base.fn, "name", "<lambda>")
            if name == "validator" or name == "setter":
                return lambda f: f
            raise PyExc("AttributeError", (name,))
        if is_sym(base) or isinstance(base, (int, float)) and not isinstance(base, bool):
            h = self.lib.get("scalar." + name)
            if h is not None:
                return lambda *a, **k: h(self, base, *a, **k)
        if hasattr(base, "__pyvc_getattr__"):
            return base.__pyvc_getattr__(self, name)
        if isinstance(base, (list, dict, tuple, str, set, frozenset, bytes, range)) or type(base).__module__ in ("collections", "builtins"):
            if isinstance(base, dict) and name in ("get", "pop", "setdefault", "__getitem__"):
                return _DictMethod(self, base, name)
            if isinstance(base, list) and name in ("index", "remove", "count", "sort", "pop", "insert"):
                return _ListMethod(self, base, name)
            try:
                return getattr(base, name)
            except AttributeError as e:
                raise PyExc("AttributeError", e.args)
        if isinstance(base, BuiltinType):
            raise Unsupported("attribute %s of builtin type %s" % (name, base.name))
        if hasattr(base, "__pyvc_native__"):
            try:
                return getattr(base, name)
            except AttributeError as e:
                raise PyExc("AttributeError", e.args)
        if base is None:
            raise PyExc("AttributeError", ("'NoneType' object has no attribute %r" % name,))
        raise Unsupported("attribute %s of %r" % (name, type(base)))

    def setattr(self, base, name, v):
        if isinstance(base, Obj):
            s, _ = base.cls.lookup("__set_" + name)
            if s is not None:
                self.call(s, [base, v], {})
                return
            if getattr(base.cls, "is_attrs", False) and getattr(base.cls, "attrs_define", False):
                # attrs.define classes run converters and validators on attribute assignment
                for c in base.cls.mro():
                    if not isinstance(c, ClassVal):
                        continue
                    for (fname, default, ann) in getattr(c, "attrs_fields", []):
                        if fname != name or default is None:
                            continue
                        fr = Frame(c.module, {}, [], c.qualname)
                        if self._is_attrs_field_call(default, fr):
                            spec = self.eval_field_call(default, fr)
                            if spec.get("converter") is not None:
                                v = self.call(spec["converter"], [v], {})
                            vd = spec.get("validator")
                            if vd is not None:
                                attr = Obj(ClassVal(None, None, "attrs.Attribute", [], self))
                                attr.attrs["name"] = name
                                for one in (vd if isinstance(vd, (list, tuple)) else [vd]):
                                    self.call(one, [base, attr, v], {})
            base.attrs[name] = v
            return
        if hasattr(base, "__pyvc_setattr__"):
            base.__pyvc_setattr__(self, name, v)
            return
        if hasattr(base, "__pyvc_native__"):
            setattr(base, name, v)
            return
        if isinstance(base, ClassVal):
            base.attrs[name] = v
            return
        raise Unsupported("setattr on %r" % type(base))

    def eval_Subscript(self, node, fr):
        base = self.eval(node.value, fr)
        key = self.eval_index(node.slice, fr)
        return self.getitem(base, key)

    def eval_index(self, sl, fr):
        if isinstance(sl, ast.Slice):
            return slice(
                self.eval(sl.lower, fr) if sl.lower is not None else None,
                self.eval(sl.upper, fr) if sl.upper is not None else None,
                self.eval(sl.step, fr) if sl.step is not None else None,
            )
        if isinstance(sl, ast.Tuple):
            return tuple(self.eval_index(e, fr) for e in sl.elts)
        return self.eval(sl, fr)

    def eval_Slice(self, node, fr):
        return self.eval_index(node, fr)

    def conc_key(self, k):
        if isinstance(k, STensor):
            if k.rank == 0 or all(T.conc(d) and d == 1 for d in k.shape):
                k = k.at([0] * k.rank)
            else:
                raise Unsupported("tensor used as a dict key/index")
        if is_sym(k):
            s = V.simplify_scalar(k) if isinstance(k, z3.ExprRef) else k
            if isinstance(s, (int, bool)):
                return s
            raise Unsupported("symbolic value used as a concrete key/index")
        if isinstance(k, tuple):
            return tuple(self.conc_key(x) for x in k)
        return k

    def getitem(self, base, key):
        if isinstance(base, STensor):
            return T.getitem(base, self._tkey(key))
        if isinstance(base, (list, tuple, str, range)):
            if isinstance(key, slice):
                sl = slice(self._conc_or_none(key.start), self._conc_or_none(key.stop), self._conc_or_none(key.step))
                return base[sl]
            if isinstance(key, STensor):
                key = self.conc_key(key)
            if is_sym(key):
                s = V.simplify_scalar(key)
                if isinstance(s, int):
                    key = s
                else:
                    return self._sym_index_list(base, key)
            if isinstance(key, bool):
                key = int(key)
            if not isinstance(key, int):
                raise PyExc("TypeError", ("list indices must be integers or slices, not %s" % type(key).__name__,))
            try:
                return base[key]
            except IndexError as e:
                raise PyExc("IndexError", e.args)
        if isinstance(base, dict):
            k = self.conc_key(key)
            try:
                if k in base:
                    return base[k]
                if hasattr(base, "__missing__"):
                    return base.__missing__(k)
                raise KeyError(k)
            except KeyError as e:
                raise PyExc("KeyError", e.args)
            except TypeError as e:
                raise PyExc("TypeError", e.args)
        if isinstance(base, Obj):
            m, _ = base.cls.lookup("__getitem__")
            if m is not None:
                return self.call(m, [base, key], {})
            for b in base.cls.lib_base_names():
                f = self.lib.get(b + ".__getitem__")
                if f is not None:
                    return f(self, base, key)
            raise PyExc("TypeError", ("%r object is not subscriptable" % base.cls.name,))
        if hasattr(base, "__pyvc_getitem__"):
            return base.__pyvc_getitem__(self, key)
        if isinstance(base, (LibRef, BuiltinType)):
            return base  # typing generics: List[int] etc.
        if base is None:
            raise PyExc("TypeError", ("'NoneType' object is not subscriptable",))
        raise Unsupported("subscript on %r" % type(base))

    def _sym_index_list(self, base, key):
        n = len(base)
        self.path.require(V.b_and(V.i_le(-n, key), V.i_lt(key, n)), "IndexError", "list index out of range")
        if n == 0:
            raise PyExc("IndexError", ("list index out of range",))
        # case split on the index value
        for j in range(n):
            if self.truth(V.b_or(V.i_eq(key, j), V.i_eq(key, j - n))):
                return base[j]
        raise PathAbort("index out of range")

    def _conc_or_none(self, v):
        if v is None:
            return None
        return self.conc_key(v)

    def _tkey(self, key):
        def one(k):
            if isinstance(k, slice):
                return slice(self._slice_part(k.start), self._slice_part(k.stop), self._slice_part(k.step))
            if isinstance(k, (list, tuple)):
                return list(k)
            return k

        if isinstance(key, tuple):
            return tuple(one(k) for k in key)
        return one(key)

    def _slice_part(self, v):
        if isinstance(v, STensor):
            return v.at([0] * v.rank)
        return v

    def setitem(self, base, key, v):
        if isinstance(base, STensor):
            T.setitem(base, self._tkey(key), v)
            return
        if isinstance(base, list):
            if isinstance(key, slice):
                base[slice(self._conc_or_none(key.start), self._conc_or_none(key.stop), self._conc_or_none(key.step))] = self.iterate_concrete(v)
                return
            if isinstance(key, STensor) and key.rank == 0:
                key = key.at([])
            if is_sym(key):
                sk = V.simplify_scalar(key)
                if not isinstance(sk, int):
                    n = len(base)
                    self.path.require(V.b_and(V.i_le(-n, key), V.i_lt(key, n)), "IndexError", "list assignment index out of range")
                    for j in range(n):
                        if self.truth(V.b_or(V.i_eq(key, j), V.i_eq(key, j - n))):
                            base[j] = v
                            return
                    raise PathAbort("index out of range")
            k = self.conc_key(key)
            try:
                base[k] = v
            except IndexError as e:
                raise PyExc("IndexError", e.args)
            return
        if isinstance(base, dict):
            base[self.conc_key(key)] = v
            return
        if isinstance(base, Obj):
            m, _ = base.cls.lookup("__setitem__")
            if m is not None:
                self.call(m, [base, key, v], {})
                return
        if hasattr(base, "__pyvc_setitem__"):
            base.__pyvc_setitem__(self, key, v)
            return
        if isinstance(base, tuple):
            raise PyExc("TypeError", ("'tuple' object does not support item assignment",))
        raise Unsupported("item assignment on %r" % type(base))

    def eval_Call(self, node, fr):
        # super()
        if isinstance(node.func, ast.Name) and node.func.id == "super" and not node.args:
            return self.make_super(fr)
        fn = self.eval(node.func, fr)
        args = []
        for a in node.args:
            if isinstance(a, ast.Starred):
                args.extend(self.iterate_concrete(self.eval(a.value, fr)))
            else:
                args.append(self.eval(a, fr))
        kwargs = {}
        for kw in node.keywords:
            if kw.arg is None:
                d = self.eval(kw.value, fr)
                if not isinstance(d, dict):
                    raise Unsupported("** on non-dict")
                kwargs.update(d)
            else:
                kwargs[kw.arg] = self.eval(kw.value, fr)
        # logger.* and print are no-ops that cannot raise (documented extraction drop)
        if isinstance(fn, LibRef) and (fn.dotted.startswith("loguru.logger.") or fn.dotted.startswith("logging.")):
            return None
        return self.call(fn, args, kwargs, node)

    def make_super(self, fr):
        cl = getattr(fr, "closure", None)
        if cl is None or cl.cls is None:
            raise Unsupported("super() outside a method")
        params = [p.arg for p in cl.fn.args.args]
        self_obj = fr.locals[params[0]]
        return _Super(self, cl.cls, self_obj)

    def eval_ListComp(self, node, fr):
        out = []
        self._comp(node.generators, 0, fr, lambda f: out.append(self.eval(node.elt, f)))
        return out

    def eval_GeneratorExp(self, node, fr):
        return self.eval_ListComp(node, fr)

    def eval_SetComp(self, node, fr):
        return set(self.eval_ListComp(node, fr))

    def eval_DictComp(self, node, fr):
        out = {}

        def add(f):
            out[self.conc_key(self.eval(node.key, f))] = self.eval(node.value, f)

        self._comp(node.generators, 0, fr, add)
        return out

    def _comp(self, gens, i, fr, emit):
        if i == len(gens):
            emit(fr)
            return
        g = gens[i]
        it = self.iterate(self.eval(g.iter, fr))
        if isinstance(it, SymIter):
            raise Unsupported("comprehension over a symbolic-length sequence")
        for x in it:
            sub = Frame(fr.module, {}, [fr] + fr.frames, fr.qualname)
            sub.closure = getattr(fr, "closure", None)
            self.assign(g.target, x, sub)
            if all(self.truth(self.eval(c, sub)) for c in g.ifs):
                self._comp(gens, i + 1, sub, emit)

    def eval_Yield(self, node, fr):
        v = self.eval(node.value, fr) if node.value is not None else None
        if self.yields is None:
            raise Unsupported("yield outside generator")
        self.yields.append(v)
        return None

    def eval_Starred(self, node, fr):
        raise Unsupported("starred expression")

    def eval_NamedExpr(self, node, fr):
        v = self.eval(node.value, fr)
        self.assign(node.target, v, fr)
        return v

    # ------------------------------------------------------------------ truth / iteration
    def truth(self, v):
        if isinstance(v, bool):
            return v
        if v is None:
            return False
        if isinstance(v, (int, float)):
            return bool(v)
        if isinstance(v, (str, list, tuple, dict, set, frozenset, range, bytes)):
            return len(v) > 0
        if isinstance(v, STensor):
            n = T.prod(v.shape)
            if isinstance(n, int):
                if n != 1:
                    if n == 0:
                        raise PyExc("RuntimeError", ("Boolean value of Tensor with no values is ambiguous",)) if v.kind == "torch" else PyExc("ValueError", ("truth value of an empty array is ambiguous",))
                    raise PyExc("RuntimeError" if v.kind == "torch" else "ValueError", ("Boolean value of Tensor with more than one value is ambiguous",))
            else:
                self.path.require(V.i_eq(n, 1), "RuntimeError" if v.kind == "torch" else "ValueError", "Boolean value of Tensor with more than one value is ambiguous")
            return self.path.truth(V.to_bool(v.at([0] * v.rank)))
        if isinstance(v, (z3.ExprRef, V.SFloat)):
            return self.path.truth(V.to_bool(v))
        if isinstance(v, Obj):
            m, _ = v.cls.lookup("__bool__")
            if m is not None:
                return self.truth(self.call(m, [v], {}))
            m, _ = v.cls.lookup("__len__")
            if m is not None:
                n = self.call(m, [v], {})
                return self.truth(V.binop("ne", n, 0) if is_sym(n) else n != 0)
            return True
        if hasattr(v, "__pyvc_truth__"):
            return self.truth(v.__pyvc_truth__(self))
        if hasattr(v, "__len__"):
            return len(v) > 0
        return True

    def iterate(self, v):
        """-> Python list (concrete length) or SymIter."""
        if hasattr(v, "__pyvc_iter__"):
            return v.__pyvc_iter__(self)
        if isinstance(v, (list, tuple)):
            return list(v)
        if isinstance(v, (set, frozenset, range, str)):
            return list(v)
        if isinstance(v, dict):
            return list(v.keys())
        if isinstance(v, SymIter):
            return v
        if isinstance(v, STensor):
            if v.rank == 0:
                raise PyExc("TypeError", ("iteration over a 0-d tensor",))
            n = v.shape[0]
            if isinstance(n, int):
                return [T.getitem(v, i) for i in range(n)]
            return SymIter(n, lambda k: T.getitem(v, k), "tensor rows")
        if isinstance(v, Obj):
            m, _ = v.cls.lookup("__iter__")
            if m is not None:
                return self.iterate(self.call(m, [v], {}))
            m, _ = v.cls.lookup("__getitem__")
            ln, _ = v.cls.lookup("__len__")
            if m is not None and ln is not None:
                n = self.call(ln, [v], {})
                if isinstance(n, int):
                    return [self.call(m, [v, i], {}) for i in range(n)]
                return SymIter(n, lambda k: self.call(m, [v, k], {}), "object items")
            raise PyExc("TypeError", ("%r object is not iterable" % v.cls.name,))
        if hasattr(v, "__pyvc_iter__"):
            return v.__pyvc_iter__(self)
        if hasattr(v, "__iter__") and type(v).__module__ in ("builtins", "collections", "itertools"):
            return list(v)
        if v is None:
            raise PyExc("TypeError", ("'NoneType' object is not iterable",))
        raise Unsupported("iteration over %r" % type(v))

    def iterate_concrete(self, v):
        it = self.iterate(v)
        if isinstance(it, SymIter):
            raise Unsupported("concrete iteration over a symbolic-length sequence (%s)" % it.what)
        return it


class Frame:
    def __init__(self, module, locals_, frames, qualname):
        self.module = module
        self.locals = locals_
        self.frames = frames
        self.qualname = qualname
        self.closure = None


class _Super:
    def __init__(self, interp, cls, obj):
        self.interp = interp
        self.cls = cls
        self.obj = obj

    def __pyvc_getattr__(self, interp, name):
        mro = self.obj.cls.mro() if isinstance(self.obj, Obj) else self.cls.mro()
        start = mro.index(self.cls) + 1 if self.cls in mro else 0
        for c in mro[start:]:
            if name in c.methods:
                return BoundMethod(c.methods[name], self.obj)
        # library base
        for c in mro:
            for b in c.bases:
                if isinstance(b, LibRef):
                    f = interp.lib.get(b.dotted + "." + name)
                    if f is not None:
                        return _LibBound(interp, f, self.obj)
                    if name == "__init__":
                        return lambda *a, **k: None
        if name == "__init__":
            return lambda *a, **k: None
        raise Unsupported("super().%s" % name)


class _LibBound:
    def __init__(self, interp, f, obj):
        self.interp = interp
        self.f = f
        self.obj = obj
        self.__pyvc_lib__ = True

    def __call__(self, *a, **k):
        return self.f(self.interp, self.obj, *a, **k)


class _TensorMethod:
    __pyvc_lib__ = True

    def __init__(self, interp, f, t, name):
        self.interp = interp
        self.f = f
        self.t = t
        self.name = name

    def __call__(self, *a, **k):
        self.interp.lib_used.add("Tensor." + self.name)
        return self.f(self.interp, self.t, *a, **k)


class _DictMethod:
    __pyvc_lib__ = True

    def __init__(self, interp, d, name):
        self.interp = interp
        self.d = d
        self.name = name

    def __call__(self, *a):
        k = self.interp.conc_key(a[0])
        if self.name == "get":
            return self.d.get(k, a[1] if len(a) > 1 else None)
        if self.name == "pop":
            if k in self.d:
                return self.d.pop(k)
            if len(a) > 1:
                return a[1]
            raise PyExc("KeyError", (k,))
        if self.name == "setdefault":
            return self.d.setdefault(k, a[1] if len(a) > 1 else None)
        if self.name == "__getitem__":
            return self.interp.getitem(self.d, k)
        raise Unsupported(self.name)


class _ListMethod:
    __pyvc_lib__ = True

    def __init__(self, interp, lst, name):
        self.interp = interp
        self.lst = lst
        self.name = name

    def __call__(self, *a, **kw):
        it = self.interp
        if self.name == "index":
            for j, x in enumerate(self.lst):
                if it.truth(it.compare(ast.Eq(), x, a[0])):
                    return j
            raise PyExc("ValueError", ("%r is not in list" % (a[0],),))
        if self.name == "remove":
            for j, x in enumerate(self.lst):
                if it.truth(it.compare(ast.Eq(), x, a[0])):
                    del self.lst[j]
                    return None
            raise PyExc("ValueError", ("list.remove(x): x not in list",))
        if self.name == "count":
            n = 0
            for x in self.lst:
                if it.truth(it.compare(ast.Eq(), x, a[0])):
                    n += 1
            return n
        if self.name in ("pop", "insert"):
            # numpy integer scalars (rank-0 integer arrays here) are valid list indices
            args = list(a)
            if args and isinstance(args[0], STensor) and args[0].rank == 0 and args[0].dtype == T.INT:
                args[0] = args[0].at([])
            if args and not isinstance(args[0], int):
                raise Unsupported("list.%s with a symbolic index" % self.name)
            try:
                return getattr(self.lst, self.name)(*args)
            except IndexError as e:
                raise PyExc("IndexError", e.args)
        if self.name == "sort":
            res = it.builtins["sorted"](self.lst, **kw)
            self.lst[:] = res
            return None
        raise Unsupported(self.name)


def _native_binop(op, a, b):
    if op == "add":
        return a + b
    if op == "sub":
        return a - b
    if op == "mul":
        return a * b
    if op == "truediv":
        return a / b
    if op == "floordiv":
        return a // b
    if op == "mod":
        return a % b
    if op == "pow":
        return a ** b
    if op == "and_":
        return a & b
    if op == "or_":
        return a | b
    if op == "xor":
        return a ^ b
    if op == "lshift":
        return a << b
    if op == "rshift":
        return a >> b
    raise Unsupported("binop %s" % op)
