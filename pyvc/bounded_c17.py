"""C17 -- bounded stand-in (NOT a proof): toposort_edges is driven over every rooted labelled
tree up to a stated size and every ordering of its edge list, (a) through the symbolic
interpreter on the real source text with the networkx contract model, and (b) through the
real function with the real networkx (replay side), and the postcondition
  "a permutation of 0..E-1 in which an edge appears only after the edge into its source"
is evaluated on each result."""
from __future__ import annotations

import itertools
import json
import os
import random
import subprocess
import sys
import time


def rooted_trees(n):
    """All rooted labelled trees on nodes 0..n-1 as parent arrays (root has parent -1):
    enumerate Pruefer-free: every function parent: nodes -> nodes U {-1} with exactly one root
    and no cycles."""
    nodes = list(range(n))
    for root in nodes:
        others = [v for v in nodes if v != root]
        for parents in itertools.product(nodes, repeat=len(others)):
            par = {root: -1}
            ok = True
            for v, p in zip(others, parents):
                if p == v:
                    ok = False
                    break
                par[v] = p
            if not ok:
                continue
            # acyclic <=> every node reaches the root
            good = True
            for v in others:
                seen = set()
                x = v
                while x != -1 and x not in seen:
                    seen.add(x)
                    x = par[x]
                if x != -1:
                    good = False
                    break
            if good:
                yield [(par[v], v) for v in others]


def post_ok(edges, order):
    E = len(edges)
    if sorted(order) != list(range(E)):
        return False
    dsts = {v for (_, v) in edges}
    root = [u for (u, _) in edges if u not in dsts]
    pos_into = {}
    for k, ei in enumerate(order):
        u, v = edges[ei]
        if u in dsts and u not in pos_into:
            return False  # the edge into u has not been listed yet
        pos_into[v] = k
    return True


def cases(max_full, sample_n, sample_k, seed):
    rng = random.Random(seed)
    for n in range(2, max_full + 1):
        for tree in rooted_trees(n):
            for perm in itertools.permutations(tree):
                yield list(perm)
    if sample_n:
        trees = list(rooted_trees(sample_n)) if sample_n <= 6 else None
        for _ in range(sample_k):
            t = rng.choice(trees)
            t = list(t)
            rng.shuffle(t)
            # relabel nodes with arbitrary distinct integers
            lab = rng.sample(range(0, 50), sample_n)
            yield [(lab[u], lab[v]) for (u, v) in t]


def run_interp(case_list):
    from .interp import Interp, Obj
    from .loader import Loader
    from .path import Path

    loader = Loader(os.environ.get("PYVC_REPO", "/repo"))
    bad = []
    n = 0
    for edges in case_list:
        p = Path()
        p.enter()
        try:
            it = Interp(loader, None, p, top="sleap_nn.inference.paf_grouping.toposort_edges")
            et_cls = it.resolve_dotted("sleap_nn.inference.paf_grouping.EdgeType")
            ets = [it.call(et_cls, [u, v], {}) for (u, v) in edges]
            fn = it.resolve_dotted("sleap_nn.inference.paf_grouping.toposort_edges")
            out = it.call(fn, [ets], {})
            n += 1
            if not post_ok(edges, list(out)):
                bad.append({"edges": edges, "result": list(out)})
                if len(bad) > 3:
                    break
        finally:
            p.leave()
    return n, bad


def run_real(case_list):
    """(replay side) the real function with the real networkx."""
    from .concrete import _shim

    _shim()
    from sleap_nn.inference.paf_grouping import EdgeType, toposort_edges

    bad = []
    n = 0
    for edges in case_list:
        out = toposort_edges([EdgeType(u, v) for (u, v) in edges])
        n += 1
        if not post_ok(edges, list(out)):
            bad.append({"edges": edges, "result": list(out)})
            if len(bad) > 3:
                break
    return n, bad


def main_real(argv):
    max_full, sample_n, sample_k, seed = [int(x) for x in argv]
    cl = list(cases(max_full, sample_n, sample_k, seed))
    n, bad = run_real(cl)
    print(json.dumps({"n": n, "bad": bad}))


def run(tier, seed, verif_dir, venv_py):
    t0 = time.time()
    max_full = 4 if tier == "quick" else 5
    sample_n, sample_k = (5, 400) if tier == "quick" else (6, 4000)
    cl = list(cases(max_full, sample_n, sample_k, seed))
    n_i, bad_i = run_interp(cl)
    env = dict(os.environ)
    env["PYTHONPATH"] = os.path.join(verif_dir, ".build", "py312") + ":" + verif_dir
    p = subprocess.run([venv_py, "-W", "ignore", "-c", "import sys; from pyvc.bounded_c17 import main_real; main_real(sys.argv[1:])",
                        str(max_full), str(sample_n), str(sample_k), str(seed)], cwd=verif_dir, env=env, capture_output=True, text=True, timeout=3000)
    real = None
    for line in reversed((p.stdout or "").splitlines()):
        if line.startswith("{"):
            real = json.loads(line)
            break
    return {"interp_runs": n_i, "interp_bad": bad_i, "real": real, "real_err": (p.stderr or "")[-400:] if real is None else "",
            "max_full": max_full, "sample_n": sample_n, "sample_k": sample_k, "cases": len(cl), "wall": time.time() - t0,
            "samples": cl[:2] + cl[-2:]}


if __name__ == "__main__":
    main_real(sys.argv[1:])
