"""Contract registry, contract context (symbolic-input API for contract authors), loop
invariants, and the per-function verification driver."""
from __future__ import annotations

import itertools
import time
import traceback

import z3

from . import tensor as T, values as V
from .ctx import PathAbort, PyExc, Unsupported
from .path import Obligation, Path
from .tensor import BOOL, FLOAT, INT, STensor


class Forall:
    """Universally quantified clause over index tuples: Forall(bounds, fn) states
    fn(i0, i1, ...) for all 0 <= ik < bounds[k].  Used as a *goal* it is skolemised;
    in concrete (replay) mode it is enumerated."""

    def __init__(self, bounds, fn, lower=None):
        self.bounds = list(bounds)
        self.fn = fn
        self.lower = lower or [0] * len(self.bounds)


class Registry:
    def __init__(self):
        self.contracts = {}
        self.invariants = {}
        self.order = []

    def add(self, con):
        self.contracts[con.target] = con
        self.order.append(con.target)

    def get(self, qualname):
        return self.contracts.get(qualname)

    def get_invariant(self, qualname, ordinal):
        return self.invariants.get((qualname, ordinal))

    def add_invariant(self, inv):
        self.invariants[(inv.target, inv.ordinal)] = inv


REGISTRY = Registry()


def contract(cls):
    """Class decorator: register a contract class (instantiated once)."""
    inst = cls()
    REGISTRY.add(inst)
    return cls


def invariant(cls):
    inst = cls()
    REGISTRY.add_invariant(inst)
    return cls


# =========================================================================== ctx for authors


class CCtx:
    """What a contract author sees as `c`."""

    def __init__(self, path, dim_override=None, mode="verify"):
        self.path = path
        self.dim_override = dim_override or {}
        self.mode = mode

    # -- symbolic inputs ---------------------------------------------------------------
    def dim(self, name, lo=0, hi=None):
        if name in self.dim_override:
            v = self.dim_override[name]
            self.path.inputs.append({"kind": "dim", "name": name, "value": v})
            return v
        d = z3.Int(name)
        self.path.assume(d >= lo)
        if hi is not None:
            self.path.assume(d <= hi)
        self.path.inputs.append({"kind": "dim", "name": name, "expr": d, "lo": lo})
        return d

    def int(self, name, lo=None, hi=None):
        if name in self.dim_override:
            v = self.dim_override[name]
            self.path.inputs.append({"kind": "int", "name": name, "value": v})
            return v
        d = z3.Int(name)
        if lo is not None:
            self.path.assume(d >= lo)
        if hi is not None:
            self.path.assume(d <= hi)
        self.path.inputs.append({"kind": "int", "name": name, "expr": d})
        return d

    def real(self, name, nan_ok=False, inf_ok=False):
        if nan_ok or inf_ok:
            t = T.sym_tensor(name, [], FLOAT, nan_ok=nan_ok, inf_ok=inf_ok)
            self.path.inputs.append({"kind": "float", "name": name, "tensor": t})
            return t.at([])
        r = z3.Real(name)
        self.path.inputs.append({"kind": "float", "name": name, "expr": r})
        return V.finite_real(r)

    def bool(self, name):
        b = z3.Bool(name)
        self.path.inputs.append({"kind": "bool", "name": name, "expr": b})
        return b

    def tensor(self, name, shape, dtype=FLOAT, nan_ok=True, inf_ok=False, kind="torch", lo=None, hi=None):
        t = T.sym_tensor(name, list(shape), dtype, nan_ok=nan_ok, inf_ok=inf_ok, kind=kind)
        t.origin = ("arg", name)
        t.orig_reader = t.reader()
        self.path.inputs.append({"kind": "tensor", "name": name, "tensor": t, "dtype": dtype, "np": kind == "numpy"})
        if lo is not None or hi is not None:
            idx = [z3.Int(V.fresh_name("b")) for _ in shape]
            if idx:
                rng = V.b_and(*[V.b_and(i >= 0, V.i_lt(i, d)) for i, d in zip(idx, shape)])
                v = t.at(idx)
                conds = []
                if lo is not None:
                    conds.append(V.i_le(lo, v) if dtype == INT else V.b_or(V.f_isnan(v), V.f_le(lo, v)))
                if hi is not None:
                    conds.append(V.i_le(v, hi) if dtype == INT else V.b_or(V.f_isnan(v), V.f_le(v, hi)))
                self.path.sink.add(z3.ForAll(idx, V.zbool(V.b_implies(rng, V.b_and(*conds)))))
            t.bounds = (lo, hi)
        return t

    def assume(self, *conds):
        for cnd in conds:
            self.path.assume(V.zbool(cnd) if not isinstance(cnd, bool) else cnd)

    def fact(self, f):
        self.path.sink.add(f)

    def lemma(self, name, clause, then=None, level="property"):
        """Prove `clause` now (recorded as an obligation); afterwards `then` (a fact that
        follows from it, e.g. the conclusion of an induction whose base/step were proved)
        is available to later obligations.  A failed lemma is a failed obligation."""
        ob = prove_clause(self.path, (self.tag + "/" if getattr(self, "tag", None) else "") + name, clause, level=level)
        if then is not None and ob.status == "proved":
            assume_clause(self.path, then)
        return ob

    def apply_lemma(self, name, nvars, body, instances, kinds=None):
        """Generic arithmetic lemma + explicit instantiation (the solver does not find
        nonlinear steps unprompted).  `body(*vars)` is proved once for fresh real (or int)
        variables -- a universally valid statement, recorded as an obligation -- and then
        `body(*inst)` is added as a fact for each instance tuple.  Instances are terms, so
        the added facts are consequences of the proved lemma, never assumptions."""
        kinds = kinds or ["real"] * nvars
        key = ("lemma", name)
        if key not in self.path.ghosts:
            vs = []
            for i, k in enumerate(kinds):
                nm = V.fresh_name("L_%s_%d" % (name.replace("/", "_"), i))
                vs.append(V.finite_real(z3.Real(nm)) if k == "real" else z3.Int(nm))
            ob = self.path.prove_isolated((self.tag + "/" if getattr(self, "tag", None) else "") + "lemma/" + name, body(*vs), level="helper")
            self.path.ghosts[key] = ob.status
        for inst in instances:
            f = body(*inst)
            if f is True:
                continue
            self.path.sink.add(V.zbool(f) if not isinstance(f, bool) else z3.BoolVal(f))

    def instantiate_call_facts(self, target, *idx):
        """Explicitly instantiate the (proved) quantified postconditions recorded for calls
        to `target` at the given index terms."""
        for cl in self.path.ghosts.get("call_facts", {}).get(target, []):
            f = cl.fn(*idx)
            rng = V.b_and(*[V.b_and(V.i_le(lo, i), V.i_lt(i, b)) for i, b, lo in zip(idx, cl.bounds, cl.lower)])
            f = V.b_implies(rng, f)
            if f is not True:
                self.path.sink.add(V.zbool(f) if not isinstance(f, bool) else z3.BoolVal(f))

    @property
    def symbolic(self):
        return self.mode != "concrete"

    # -- helpers -----------------------------------------------------------------------
    def forall(self, bounds, fn, lower=None):
        return Forall(bounds, fn, lower)

    ite = staticmethod(V.ite)
    And = staticmethod(V.b_and)
    Or = staticmethod(V.b_or)
    Not = staticmethod(V.b_not)
    Implies = staticmethod(V.b_implies)
    same = staticmethod(V.same)


# =========================================================================== contracts


class Contract:
    """Base class for sidecar contracts.  Subclasses set `target` and override methods."""

    target = None
    props = ()
    level = "helper"          # 'property' for property-level postconditions
    cases = (None,)
    functional = True         # spec() defines the result exactly (used at call sites)
    total = True              # no exception may escape (unless allowed_exception says so)
    trusted = False           # assumed, not verified (listed as an assumption)
    pure = True               # frame: no argument storage is written
    dims = ()                 # names of symbolic dims (for concrete-dim counterexample search)
    dim_ranges = {}

    def inputs(self, c, case):
        raise NotImplementedError

    def requires(self, c, **a):
        return []

    def spec(self, c, **a):
        return NotImplemented

    def ensures(self, c, result, **a):
        return []

    def post(self, c, **a):
        raise Unsupported("contract %s is not functional and has no post()" % self.target)

    def allowed_exception(self, c, exc, **a):
        return False

    def run(self, interp, args):
        """Run the real code on the symbolic inputs.  Default: a module-level function called
        with keyword arguments; `Class.method` targets are called on args['self']."""
        from .interp import ClassVal

        parts = self.target.split(".")
        r = interp.loader.resolve(self.target)
        if r is not None and r[0] == "method":
            cls = interp.resolve_dotted(".".join(parts[:-1]))
            m, _ = cls.lookup(parts[-1])
            a = dict(args)
            self_obj = a.pop("self")
            return interp.call(m, [self_obj], a)
        fn = interp.resolve_dotted(self.target)
        return interp.call(fn, [], dict(args))

    # -- use at a call site -------------------------------------------------------------
    def apply_at_call(self, interp, bound):
        path = interp.path
        c = CCtx(path, mode="call")
        pre = self.requires(c, **bound)
        for i, (name, cond) in enumerate(_named(pre)):
            ob = prove_clause(path, "%s/call-pre/%s" % (self.target, name), cond, level="helper")
            if ob.status != "proved":
                ob.detail = "precondition of %s not established at a call site" % self.target
            assume_clause(path, cond)
        if self.trusted:
            path.assumptions_used.add("assumed_repo_contract(%s)" % self.target)
        r = self.spec(c, **bound)
        if r is NotImplemented:
            r = self.post(c, **bound)
        elif getattr(self, "assume_ensures_at_calls", False):
            # the ensures clauses are proved for every input satisfying `requires`, so they
            # are available as facts about this call's result
            c.tag = self.target + "@call"
            for name, cl in _named(self.ensures(c, r, **bound)):
                assume_clause(path, cl)
                if isinstance(cl, Forall):
                    # kept for explicit instantiation by property-level clauses
                    path.ghosts.setdefault("call_facts", {}).setdefault(self.target, []).append(cl)
        return r


def _named(lst):
    out = []
    for i, x in enumerate(lst):
        if isinstance(x, tuple) and len(x) == 2 and isinstance(x[0], str):
            out.append(x)
        else:
            out.append(("r%d" % i, x))
    return out


class Invariant:
    """Loop invariant keyed by (function qualname, loop ordinal in source order)."""

    target = None
    ordinal = 0

    def inv(self, c, k, n, env):
        """List of (name, bool) over the loop counter k (iterations completed), the trip
        count n and the local variables env."""
        return []

    def havoc_value(self, c, name, old):
        """Fresh value for a variable assigned by the loop body (default: same kind/shape)."""
        return fresh_like(c, name, old)

    # -- engine side ------------------------------------------------------------------
    def check(self, interp, fr, k, n, label):
        c = CCtx(interp.path)
        for name, cond in _named(self.inv(c, k, n, fr.locals)):
            prove_clause(interp.path, "%s/%s" % (label, name), cond, level="helper")

    def assume(self, interp, fr, k, n):
        c = CCtx(interp.path)
        for name, cond in _named(self.inv(c, k, n, fr.locals)):
            assume_clause(interp.path, cond)

    def havoc(self, interp, fr, names):
        c = CCtx(interp.path)
        for nm in names:
            fr.locals[nm] = self.havoc_value(c, nm, fr.locals[nm])
        self.havoc_extra(c, fr.locals)

    def havoc_extra(self, c, env):
        """Havoc heap / ghost state the loop body may change (default: nothing)."""


def fresh_like(c, name, old):
    if isinstance(old, STensor):
        t = T.sym_tensor(V.fresh_name("hv_" + name), list(old.shape), old.dtype, nan_ok=True, inf_ok=False, kind=old.kind)
        return t
    if isinstance(old, bool):
        return V.fresh_bool("hv_" + name)
    if isinstance(old, int) or (isinstance(old, z3.ExprRef) and z3.is_int(old)):
        return V.fresh_int("hv_" + name)
    if isinstance(old, float) or isinstance(old, V.SFloat):
        return V.finite_real(V.fresh_real("hv_" + name))
    if old is None:
        return None
    raise Unsupported("cannot havoc variable %s of type %s (give havoc_value in the invariant)" % (name, type(old).__name__))


# =========================================================================== clause handling


def prove_clause(path, name, clause, level="helper"):
    if isinstance(clause, Forall):
        idx = [V.fresh_int("i") for _ in clause.bounds]
        hyp = V.b_and(*[V.b_and(V.i_le(lo, i), V.i_lt(i, b)) for i, b, lo in zip(idx, clause.bounds, clause.lower)])
        # evaluating the body may fork only through truth(); authors must write pure formulas
        goal = clause.fn(*idx)
        if isinstance(goal, Forall):
            raise Unsupported("nested Forall")
        return path.prove(name, goal, hyps=[hyp], level=level)
    return path.prove(name, clause, level=level)


def assume_clause(path, clause):
    if isinstance(clause, Forall):
        idx = [z3.Int(V.fresh_name("a")) for _ in clause.bounds]
        hyp = V.b_and(*[V.b_and(V.i_le(lo, i), V.i_lt(i, b)) for i, b, lo in zip(idx, clause.bounds, clause.lower)])
        body = clause.fn(*idx)
        f = V.b_implies(hyp, body)
        if isinstance(f, bool):
            if not f:
                path.assume(False)
            return
        path.sink.add(z3.ForAll(idx, f))
        return
    path.assume(V.zbool(clause) if not isinstance(clause, bool) else clause)


def equal_clauses(name, a, b):
    """Clauses stating that two values are identical (tensors: shape + all elements)."""
    from .interp import Obj

    out = []
    if isinstance(a, STensor) or isinstance(b, STensor):
        if not (isinstance(a, STensor) and isinstance(b, STensor)):
            if isinstance(a, STensor) and a.rank == 0 and V.is_scalar(b):
                out.append((name + "/value", V.same(a.at([]), b)))
                return out
            if isinstance(b, STensor) and b.rank == 0 and V.is_scalar(a):
                out.append((name + "/value", V.same(a, b.at([]))))
                return out
            out.append((name + "/kind", False))
            return out
        if a.rank != b.rank:
            out.append((name + "/rank", False))
            return out
        if a.dtype != b.dtype:
            out.append((name + "/dtype", False))
            return out
        out.append((name + "/shape", V.b_and(*[V.i_eq(x, y) for x, y in zip(a.shape, b.shape)])))
        ra, rb = a.reader(), b.reader()
        out.append((name + "/value", Forall(list(b.shape), lambda *idx: V.same(ra(list(idx)), rb(list(idx))))))
        return out
    if isinstance(a, (tuple, list)) and isinstance(b, (tuple, list)):
        if len(a) != len(b):
            out.append((name + "/len", False))
            return out
        for i, (x, y) in enumerate(zip(a, b)):
            out.extend(equal_clauses("%s[%d]" % (name, i), x, y))
        return out
    if isinstance(a, dict) and isinstance(b, dict):
        if set(a.keys()) != set(b.keys()):
            out.append((name + "/keys", False))
            return out
        for k in a:
            out.extend(equal_clauses("%s[%r]" % (name, k), a[k], b[k]))
        return out
    if a is None or b is None:
        out.append((name + "/none", a is None and b is None))
        return out
    if V.is_scalar(a) and V.is_scalar(b):
        out.append((name + "/value", V.same(a, b)))
        return out
    if isinstance(a, str) or isinstance(b, str):
        out.append((name + "/value", a == b))
        return out
    if a is b:
        return out
    raise Unsupported("cannot compare result values of types %s and %s" % (type(a).__name__, type(b).__name__))


# =========================================================================== driver


class FunctionReport:
    def __init__(self, target, props, level):
        self.target = target
        self.props = list(props)
        self.level = level
        self.obligations = []   # Obligation (+ .inputs for failed ones)
        self.paths = 0
        self.undecided = []     # messages
        self.solver_seconds = 0.0
        self.queries = 0
        self.used_contracts = set()
        self.inlined = set()
        self.lib_used = set()
        self.assumptions = set()
        self.wall = 0.0
        self.vacuous = []
        self.errors = []

    @property
    def failed(self):
        return [o for o in self.obligations if o.status == "failed"]

    @property
    def unknown(self):
        return [o for o in self.obligations if o.status == "unknown"]


def snapshot_args(args):
    """Remember the element functions of argument tensors for frame obligations."""
    snaps = []

    def walk(name, v):
        if isinstance(v, STensor):
            own = v.owner()
            snaps.append((name, own, own.reader(), list(own.shape)))
        elif isinstance(v, (list, tuple)):
            for i, x in enumerate(v):
                walk("%s[%d]" % (name, i), x)
        elif isinstance(v, dict):
            for k, x in v.items():
                walk("%s[%r]" % (name, k), x)
        else:
            from .interp import Obj

            if isinstance(v, Obj):
                for k, x in v.attrs.items():
                    walk("%s.%s" % (name, k), x)

    for k, v in args.items():
        walk(k, v)
    return snaps


def freeze_args(args):
    """Pre-state view of the arguments: tensors are replaced by snapshots of their current
    element functions, so that spec/ensures talk about the values at entry even when the
    body writes to argument storage."""
    from .interp import Obj

    def fz(v):
        if isinstance(v, STensor):
            rd = v.reader()
            t = STensor(list(v.shape), v.dtype, fn=lambda idx: rd(idx), kind=v.kind)
            for a in ("sym", "name", "bounds", "selinfo", "row_sel", "fdtype"):
                if hasattr(v, a):
                    setattr(t, a, getattr(v, a))
            t.origin = v.origin
            t.orig_reader = rd
            return t
        if type(v) is list:
            return [fz(x) for x in v]
        if type(v) is tuple:
            return tuple(fz(x) for x in v)
        if type(v) is dict:
            return {k: fz(x) for k, x in v.items()}
        return v

    return {k: fz(v) for k, v in args.items()}


def frame_clauses(snaps, allowed=()):
    out = []
    for name, own, rd0, shape in snaps:
        if any(name == a or name.startswith(a + "[") or name.startswith(a + ".") for a in allowed):
            continue
        if not own.written:
            # no in-place write reached this storage on this path
            out.append(("frame/%s-unmodified" % name, True))
            continue
        if any(name == a or name.startswith(a + "[") or name.startswith(a + ".") for a in allowed):
            continue
        rd1 = own.reader()
        out.append(("frame/%s-unmodified" % name, Forall(shape, lambda *idx, rd0=rd0, rd1=rd1: V.same(rd0(list(idx)), rd1(list(idx))))))
    return out


def extract_inputs(model, inputs, max_elems=4096):
    """Concrete values of the registered symbolic inputs in a z3 model (JSON-able)."""
    import math as _m

    def ev(e):
        return model.eval(e, model_completion=True)

    def num(e):
        v = ev(e)
        if z3.is_int_value(v):
            return v.as_long()
        if z3.is_rational_value(v):
            return float(v.numerator_as_long()) / float(v.denominator_as_long())
        if z3.is_algebraic_value(v):
            return float(v.approx(20).as_fraction())
        if z3.is_true(v):
            return True
        if z3.is_false(v):
            return False
        try:
            return float(v.as_fraction())
        except Exception:
            return str(v)

    def fl(x):
        if isinstance(x, (int, float)):
            return float(x)
        x = V.sfloat(x)
        nan = num(V.zbool(x.nan))
        inf = num(V.zbool(x.inf))
        val = num(x.val)
        if nan:
            return "nan"
        if inf:
            return "inf" if val > 0 else "-inf"
        return val

    out = {}
    for inp in inputs:
        k = inp["kind"]
        if "value" in inp:
            out[inp["name"]] = inp["value"]
        elif k in ("dim", "int"):
            out[inp["name"]] = num(inp["expr"])
        elif k == "bool":
            out[inp["name"]] = num(inp["expr"])
        elif k == "float":
            if "tensor" in inp:
                out[inp["name"]] = fl(inp["tensor"].at([]))
            else:
                out[inp["name"]] = num(inp["expr"])
        elif k == "tensor":
            t = inp["tensor"]
            shape = [d if isinstance(d, int) else num(d) for d in t.shape]
            total = 1
            for d in shape:
                total *= max(d, 0)
            if total > max_elems or any(not isinstance(d, int) for d in shape):
                out[inp["name"]] = {"shape": shape, "too_large": True}
                continue
            rd = t.orig_reader or t.reader()
            data = []
            for idx in itertools.product(*[range(d) for d in shape]):
                v = rd(list(idx))
                if t.dtype == FLOAT:
                    data.append(fl(v))
                else:
                    data.append(num(V.zint(v) if t.dtype == INT and not isinstance(v, int) else (V.zbool(v) if not isinstance(v, (bool, int)) else z3.BoolVal(v) if isinstance(v, bool) else z3.IntVal(v))))
            out[inp["name"]] = {"shape": shape, "dtype": t.dtype, "data": data, "np": inp.get("np", False)}
        elif k == "opaque":
            out[inp["name"]] = inp.get("describe", "<opaque>")
    return out


def verify_contract(loader, registry, con, dim_override=None, observed=False, inline=(), max_paths=3000, timeout_ms=20000, cases=None):
    """Symbolically execute the real function under its contract; return a FunctionReport."""
    from .interp import Interp, BoundMethod, Closure

    rep = FunctionReport(con.target, con.props, con.level)
    max_paths = getattr(con, "max_paths", max_paths)
    t_start = time.time()
    degraded = [False, 0]   # [a counter-model was found, patience retries used]
    for case in (con.cases if cases is None else cases):
        worklist = [[]]
        npaths = 0
        while worklist:
            decisions = worklist.pop()
            npaths += 1
            if npaths > max_paths:
                rep.undecided.append("%s[%s]: more than %d paths" % (con.target, case, max_paths))
                break
            V.reset_fresh()
            path = Path(decisions, observed_refinements=observed or getattr(con, "first_index_tie_rule", False),
                        prove_timeout_ms=timeout_ms, degraded=degraded)
            # bounded contracts over concrete structures: decide every cell of a boolean mask by
            # forking the path instead of carrying a symbolic selection
            path.concretize_masks = getattr(con, "concretize_masks", False)
            path.enter()
            interp = None
            con._cur_case = case
            tag = "%s%s" % (con.target, "" if case is None else "[%s]" % (case,))
            try:
                c = CCtx(path, dim_override=dim_override)
                c.tag = tag
                try:
                    args = con.inputs(c, case)
                    for name, cond in _named(con.requires(c, **args)):
                        if isinstance(cond, Forall):
                            assume_clause(path, cond)
                        else:
                            path.assume(V.zbool(cond) if not isinstance(cond, bool) else cond)
                except PathAbort:
                    continue
                # vacuity canary: the contract's own assumptions (input constraints and
                # `requires`) must be satisfiable; checked once per case, before any branch
                if not decisions and not path.canary(tag):
                    rep.vacuous.append(tag + " (requires/input assumptions are contradictory)")
                snaps = snapshot_args(args)
                pre = freeze_args(args)
                interp = Interp(loader, registry, path, top=con.target, inline=set(inline) | set(getattr(con, "always_inline", ())))
                c.interp = interp
                exc = None
                result = None
                try:
                    result = con.run(interp, args)
                except PyExc as e:
                    exc = e
                if exc is not None:
                    allowed = con.allowed_exception(c, exc, **pre)
                    if allowed is True:
                        pass
                    else:
                        ob = path.prove("%s/total(no %s)" % (tag, exc.cls_name), False if allowed is False else allowed, level=con.level)
                        ob.detail = "raises %s" % (exc,)
                else:
                    sp = con.spec(c, **pre)
                    clauses = []
                    if sp is not NotImplemented:
                        clauses.extend(equal_clauses("post", result, sp))
                    clauses.extend(_named(con.ensures(c, result, **pre)))
                    if con.pure:
                        clauses.extend(frame_clauses(snaps, getattr(con, "modifies", ())))
                    for name, cl in clauses:
                        lvl = "property" if (con.level == "property" or name.startswith("PL/")) else con.level
                        prove_clause(path, "%s/%s" % (tag, name), cl, level=lvl)
            except PathAbort:
                pass
            except Unsupported as e:
                rep.undecided.append("%s: unsupported: %s" % (tag, e))
            except PyExc as e:
                rep.undecided.append("%s: exception while evaluating the contract: %s" % (tag, e))
            except Exception as e:  # engine bug: reported as checker error, never as pass
                rep.errors.append("%s: %s\n%s" % (tag, e, traceback.format_exc()))
            finally:
                path.leave()
                if "interp" in dir() and interp is not None:
                    rep.used_contracts |= interp.used_contracts
                    rep.inlined |= interp.inlined
                    rep.lib_used |= interp.lib_used
                for ob in path.obligations:
                    ob.path = list(path.taken)
                    ob.case = case
                    if ob.status == "failed" and ob.model is not None:
                        try:
                            ob.inputs = extract_inputs(ob.model, path.inputs)
                        except Exception as e:
                            ob.inputs = {"error": "model extraction failed: %s" % e}
                    ob.model = None
                    rep.obligations.append(ob)
                rep.solver_seconds += path.solver_seconds
                rep.queries += path.n_queries
                rep.assumptions |= path.assumptions_used
                worklist.extend(path.forks)
        rep.paths += npaths
    rep.wall = time.time() - t_start
    return rep
