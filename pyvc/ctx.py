"""Global handle on the currently running path (set by the interpreter).

Library models need three services from the path they run on:
  truth(cond)            -- decide a possibly symbolic condition, forking the path
  require(cond, exc,msg) -- library precondition: on the branch where it fails the real
                            library raises `exc`, so the path raises PyExc(exc)
  provable(cond)         -- ask the solver whether cond follows from the path condition
"""
from __future__ import annotations


class PyExc(Exception):
    """An exception raised by the interpreted program (or a modelled library)."""

    def __init__(self, cls_name, args=(), value=None):
        Exception.__init__(self, cls_name, args)
        self.cls_name = cls_name
        self.exc_args = tuple(args)
        self.value = value  # interpreted exception object, if any

    def __str__(self):
        return "%s%r" % (self.cls_name, self.exc_args)


class Unsupported(Exception):
    """The program left the supported subset: the result is *undecided*."""


class PathAbort(Exception):
    """Path is infeasible / has been cut (e.g. after a loop-body check)."""


class _Null:
    def truth(self, cond):
        if isinstance(cond, bool):
            return cond
        raise Unsupported("symbolic condition outside a path")

    def require(self, cond, exc="RuntimeError", msg=""):
        if cond is True:
            return
        if cond is False:
            raise PyExc(exc, (msg,))
        raise Unsupported("symbolic requirement outside a path")

    def provable(self, cond):
        return cond is True

    def assume(self, cond):
        pass

    def lemma_instance(self, name, kinds, body, inst):
        pass

    concrete_mode = True


_CUR = [_Null()]


def cur():
    return _CUR[-1]


def push(p):
    _CUR.append(p)


def pop():
    _CUR.pop()
