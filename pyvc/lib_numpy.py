"""Trusted models of the numpy operations used by the anchored code (arrays share the
STensor representation with kind='numpy')."""
from __future__ import annotations

import math

import z3

from . import tensor as T, values as V
from .ctx import PyExc, Unsupported
from .tensor import BOOL, FLOAT, INT, STensor
from . import lib_torch as LT

LIB = {}
CONST = {
    "numpy.nan": math.nan,
    "numpy.inf": math.inf,
    "numpy.pi": math.pi,
    "numpy.newaxis": None,
}


def lib(*names):
    def deco(f):
        f.__pyvc_lib__ = True
        for n in names:
            LIB[n] = f
        return f

    return deco


def _np(t):
    if isinstance(t, STensor):
        t.kind = "numpy"
    return t


def _a(x):
    if isinstance(x, STensor):
        return x
    t = T.as_tensor(x, kind="numpy")
    return t


def _ret(t):
    """numpy returns scalars (not 0-d arrays) from full reductions."""
    if isinstance(t, STensor) and t.rank == 0:
        return t.at([])
    return _np(t)


@lib("numpy.array", "numpy.asarray")
def np_array(interp, data, dtype=None, copy=True):
    k = LT._kind_of_dtype(dtype)
    if isinstance(data, STensor):
        r = T.clone(data)
        r.kind = "numpy"
        return T.to_dtype(r, k) if k else r
    if V.is_scalar(data):
        return T.full([], data, dtype=k, kind="numpy")
    return T.from_nested(LT._listify(interp, data), dtype=k, kind="numpy")


@lib("numpy.zeros")
def np_zeros(interp, shape, dtype=None):
    k = LT._kind_of_dtype(dtype, FLOAT)
    return T.full(LT._shape_args([shape] if isinstance(shape, (list, tuple)) else [[shape]]), T.cast_scalar(0, k), dtype=k, kind="numpy")


@lib("numpy.ones")
def np_ones(interp, shape, dtype=None):
    k = LT._kind_of_dtype(dtype, FLOAT)
    return T.full(LT._shape_args([shape] if isinstance(shape, (list, tuple)) else [[shape]]), T.cast_scalar(1, k), dtype=k, kind="numpy")


@lib("numpy.full")
def np_full(interp, shape, fill_value, dtype=None):
    k = LT._kind_of_dtype(dtype, T.scalar_dtype(fill_value))
    return T.full(LT._shape_args([shape] if isinstance(shape, (list, tuple)) else [[shape]]), T.cast_scalar(fill_value, k), dtype=k, kind="numpy")


@lib("numpy.full_like")
def np_full_like(interp, a, fill_value, dtype=None):
    k = LT._kind_of_dtype(dtype, a.dtype)
    return T.full(list(a.shape), T.cast_scalar(fill_value, k), dtype=k, kind="numpy")


@lib("numpy.zeros_like")
def np_zeros_like(interp, a, dtype=None):
    k = LT._kind_of_dtype(dtype, a.dtype)
    return T.full(list(a.shape), T.cast_scalar(0, k), dtype=k, kind="numpy")


@lib("numpy.arange")
def np_arange(interp, *args, dtype=None):
    return _np(LT.torch_arange(interp, *args, dtype=dtype))


@lib("numpy.linspace")
def np_linspace(interp, start, stop, num=50):
    return _np(LT.torch_linspace(interp, start, stop, num))


@lib("numpy.copy")
def np_copy(interp, a):
    return _np(T.clone(a))


@lib("numpy.expand_dims")
def np_expand_dims(interp, a, axis):
    return _np(T.unsqueeze(_a(a), axis))


@lib("numpy.squeeze")
def np_squeeze(interp, a, axis=None):
    return _np(T.squeeze(_a(a), axis))


@lib("numpy.reshape")
def np_reshape(interp, a, shape):
    return _np(T.reshape(_a(a), LT._shape_args([shape] if isinstance(shape, (list, tuple)) else [[shape]])))


@lib("numpy.transpose")
def np_transpose(interp, a, axes=None):
    a = _a(a)
    if axes is None:
        axes = list(reversed(range(a.rank)))
    return _np(T.permute(a, list(axes)))


@lib("numpy.stack")
def np_stack(interp, arrs, axis=0):
    return _np(T.stack([_a(x) for x in interp.iterate_concrete(arrs)], axis))


@lib("numpy.concatenate")
def np_concatenate(interp, arrs, axis=0):
    return _np(T.cat([_a(x) for x in interp.iterate_concrete(arrs)], axis))


@lib("numpy.isnan")
def np_isnan(interp, a):
    if not isinstance(a, STensor):
        return V.f_isnan(a)
    if a.dtype != FLOAT:
        return _np(T.full(list(a.shape), False, dtype=BOOL, kind="numpy"))
    return _np(T.tunary(V.f_isnan, a, dtype=BOOL))


@lib("numpy.isinf")
def np_isinf(interp, a):
    if not isinstance(a, STensor):
        return V.f_isinf(a)
    return _np(T.tunary(V.f_isinf, a, dtype=BOOL))


@lib("numpy.isfinite")
def np_isfinite(interp, a):
    if not isinstance(a, STensor):
        return V.f_isfinite(a)
    return _np(T.tunary(V.f_isfinite, a, dtype=BOOL))


@lib("numpy.abs", "numpy.absolute")
def np_abs(interp, a):
    if not isinstance(a, STensor):
        return V.f_abs(a) if V.is_float_kind(a) else V.i_abs(a)
    return _np(LT.torch_abs(interp, a))


@lib("numpy.sqrt")
def np_sqrt(interp, a):
    if not isinstance(a, STensor):
        return V.f_sqrt(a)
    return _np(T.tunary(V.f_sqrt, T.to_dtype(a, FLOAT), dtype=FLOAT))


@lib("numpy.exp")
def np_exp(interp, a):
    if not isinstance(a, STensor):
        return V.f_exp(a)
    return _np(T.tunary(V.f_exp, T.to_dtype(a, FLOAT), dtype=FLOAT))


@lib("numpy.square")
def np_square(interp, a):
    if not isinstance(a, STensor):
        return V.binop("mul", a, a)
    return _np(T.tbinop("mul", a, a))


@lib("numpy.maximum")
def np_maximum(interp, a, b):
    if not isinstance(a, STensor) and not isinstance(b, STensor):
        if V.is_float_kind(a) or V.is_float_kind(b):
            return V.f_max(a, b)
        return V.i_max(a, b)
    return _np(LT.torch_maximum(interp, a, b))


@lib("numpy.minimum")
def np_minimum(interp, a, b):
    if not isinstance(a, STensor) and not isinstance(b, STensor):
        if V.is_float_kind(a) or V.is_float_kind(b):
            return V.f_min(a, b)
        return V.i_min(a, b)
    return _np(LT.torch_minimum(interp, a, b))


@lib("numpy.where")
def np_where(interp, c, a=None, b=None):
    r = LT.torch_where(interp, _a(c), a, b)
    if isinstance(r, tuple):
        return tuple(_np(x) for x in r)
    return _np(r)


@lib("numpy.any")
def np_any(interp, a, axis=None, keepdims=False):
    if not isinstance(a, STensor):
        if isinstance(a, (list, tuple)):
            a = T.from_nested(list(a), kind="numpy")
        else:
            return V.to_bool(a)
    return _ret(T.tany(LT._boolify(a), axis, keepdims))


@lib("numpy.all")
def np_all(interp, a, axis=None, keepdims=False):
    if not isinstance(a, STensor):
        if isinstance(a, (list, tuple)):
            a = T.from_nested(list(a), kind="numpy")
        else:
            return V.to_bool(a)
    return _ret(T.tall(LT._boolify(a), axis, keepdims))


@lib("numpy.sum")
def np_sum(interp, a, axis=None, keepdims=False):
    return _ret(T.tsum(_a(a), axis, keepdims))


@lib("numpy.mean")
def np_mean(interp, a, axis=None, keepdims=False):
    return _ret(LT.torch_mean(interp, _a(a), axis, keepdims))


@lib("numpy.prod")
def np_prod(interp, a, axis=None, keepdims=False):
    a = _a(a)
    dims = T._normalize_dims(a, axis)
    isf = a.dtype == FLOAT
    one = 1.0 if isf else 1
    mul = V.f_mul if isf else V.i_mul
    return _ret(T.reduce_unrolled(a, dims, keepdims, one, mul, dtype=a.dtype))


def nan_comb(which):
    """One step of nanmax / nanmin: NaNs are ignored, an all-NaN fold stays NaN."""

    def comb(acc, x):
        xn = V.f_isnan(x)
        an = V.f_isnan(acc)
        better = V.f_lt(acc, x) if which == "max" else V.f_lt(x, acc)
        take_x = V.b_and(V.b_not(xn), V.b_or(an, better))
        return V.f_ite(V.zbool(take_x), x, acc) if not isinstance(take_x, bool) else (x if take_x else acc)

    return comb


def _nan_reduce(a, axis, which, keepdims=False):
    """nanmax / nanmin: ignore NaNs; all-NaN slice -> NaN (with a RuntimeWarning)."""
    a = _a(a)
    dims = T._normalize_dims(a, axis)
    if not all(T.conc(a.shape[d]) for d in dims):
        raise Unsupported("nan-reduction over a symbolic axis")

    comb = nan_comb(which)

    r = T.reduce_unrolled(T.to_dtype(a, FLOAT), dims, keepdims, None, comb,
                          empty_error=("ValueError", ("zero-size array to reduction operation fmax which has no identity",)))
    return _ret(r)


@lib("numpy.nanmax")
def np_nanmax(interp, a, axis=None, keepdims=False):
    return _nan_reduce(a, axis, "max", keepdims)


@lib("numpy.nanmin")
def np_nanmin(interp, a, axis=None, keepdims=False):
    return _nan_reduce(a, axis, "min", keepdims)


@lib("numpy.max", "numpy.amax")
def np_max(interp, a, axis=None, keepdims=False):
    a = _a(a)
    if axis is None:
        return LT._full_reduce(a, "max").at([])
    return _np(T.targreduce(a, axis, keepdims, "max")[0])


@lib("numpy.min", "numpy.amin")
def np_min(interp, a, axis=None, keepdims=False):
    a = _a(a)
    if axis is None:
        return LT._full_reduce(a, "min").at([])
    return _np(T.targreduce(a, axis, keepdims, "min")[0])


@lib("numpy.nansum")
def np_nansum(interp, a, axis=None, keepdims=False):
    a = _a(a)
    z = T.tunary(lambda v: V.f_ite(V.zbool(V.f_isnan(v)), 0.0, v) if not isinstance(V.f_isnan(v), bool) else (0.0 if V.f_isnan(v) else v), T.to_dtype(a, FLOAT), dtype=FLOAT)
    return _ret(T.tsum(z, axis, keepdims))


@lib("numpy.nanmean")
def np_nanmean(interp, a, axis=None, keepdims=False):
    """Mean ignoring NaNs; an all-NaN (or empty) slice gives NaN."""
    a = T.to_dtype(_a(a), FLOAT)
    notnan = T.tunary(lambda v: V.b_not(V.f_isnan(v)), a, dtype=BOOL)
    z = T.where3(notnan, a, 0.0)
    s = T.tsum(z, axis, keepdims)
    c = T.tsum(T.to_dtype(notnan, INT), axis, keepdims)
    return _ret(T.tbinop("truediv", s, c))


@lib("numpy.linalg.norm")
def np_norm(interp, a, ord=None, axis=None, keepdims=False):
    if ord not in (None, 2):
        raise Unsupported("norm ord")
    a = _a(a)
    return _ret(LT.torch_norm(interp, a, 2, axis, keepdims))


@lib("numpy.isscalar")
def np_isscalar(interp, x):
    return V.is_scalar(x) or isinstance(x, str)


@lib("numpy.issubdtype")
def np_issubdtype(interp, dt, sup):
    from .interp import LibRef

    if isinstance(dt, LT.DType) and isinstance(sup, LibRef):
        if sup.dotted == "numpy.floating":
            return dt.kind == FLOAT
        if sup.dotted == "numpy.integer":
            return dt.kind == INT
    raise Unsupported("issubdtype")


@lib("numpy.spacing")
def np_spacing(interp, x):
    if x == 1:
        return 2.220446049250313e-16
    raise Unsupported("np.spacing(%r)" % (x,))


@lib("numpy.unravel_index")
def np_unravel_index(interp, idx, shape):
    shape = LT._shape_args([shape])
    if isinstance(idx, STensor) and idx.rank >= 1:
        outs = []
        cur = idx
        for d in reversed(shape[1:]):
            outs.append(T.tbinop("mod", cur, d))
            cur = T.tbinop("floordiv", cur, d)
        outs.append(cur)
        return tuple(_np(x) for x in reversed(outs))
    out = []
    m = idx.at([0] * idx.rank) if isinstance(idx, STensor) else idx
    for d in reversed(shape[1:]):
        out.append(V.i_mod(m, d))
        m = V.i_floordiv(m, d)
    out.append(m)
    return tuple(reversed(out))


@lib("numpy.dot")
def np_dot(interp, a, b):
    a, b = _a(a), _a(b)
    if a.rank == 1 and b.rank == 1:
        return _ret(T.tsum(T.tbinop("mul", a, b), 0))
    raise Unsupported("np.dot on rank %d,%d" % (a.rank, b.rank))


@lib("numpy.round", "numpy.rint", "numpy.around")
def np_round(interp, a, decimals=0):
    if not isinstance(a, STensor):
        return V.f_round(a)
    return _np(LT.torch_round(interp, a, decimals))


@lib("numpy.clip")
def np_clip(interp, a, lo, hi):
    if not isinstance(a, STensor):
        return V.f_clamp(a, lo, hi)
    return _np(LT.torch_clamp(interp, a, lo, hi))


@lib("numpy.errstate")
def np_errstate(interp, **kw):
    return LT._NoGrad()


@lib("numpy.argsort")
def np_argsort(interp, a, axis=-1, kind=None):
    """Contract: a permutation that sorts ascending (NaN last); ties in unspecified order unless
    kind is stable.  Explored by insertion with path forks on the comparisons (small inputs)."""
    import ast as _ast

    a = _a(a)
    if axis is None:
        a = T.reshape(a, [-1])
    if a.rank != 1 or not isinstance(a.shape[0], int):
        raise Unsupported("argsort on rank-%d / symbolic-length array" % a.rank)
    n = a.shape[0]
    if n > 6:
        raise Unsupported("argsort of %d symbolic values" % n)
    rd = a.reader()
    vals = [rd([i]) for i in range(n)]
    order = []
    stable = kind in ("mergesort", "stable")
    for i in range(n):
        pos = len(order)
        for j in range(len(order)):
            x, y = vals[i], vals[order[j]]
            # x goes before y if x < y (NaN sorts last); for an unstable sort equal elements may
            # also swap, which is explored as a separate branch
            lt = V.b_or(V.f_lt(x, y), V.b_and(V.b_not(V.f_isnan(x)), V.f_isnan(y))) if a.dtype == FLOAT else V.i_lt(x, y)
            if interp.truth(lt):
                pos = j
                break
            if not stable:
                eq = V.f_eq(x, y) if a.dtype == FLOAT else V.i_eq(x, y)
                if eq is not False and interp.truth(eq):
                    if interp.path.choose(2, "argsort-tie") == 1:
                        pos = j
                        break
        order.insert(pos, i)
    return T.from_flat([n], order, INT, kind="numpy")


@lib("numpy.nanmedian")
def np_nanmedian(interp, a, axis=None):
    raise Unsupported("np.nanmedian")


@lib("numpy.outer")
def np_outer(interp, a, b):
    a, b = T.reshape(_a(a), [-1]), T.reshape(_a(b), [-1])
    ra, rb = a.reader(), b.reader()
    dt = T.promote(a.dtype, b.dtype)
    mul = V.f_mul if dt == FLOAT else V.i_mul
    return _np(T.from_fn([a.shape[0], b.shape[0]], dt, lambda idx: mul(T.cast_scalar(ra([idx[0]]), dt), T.cast_scalar(rb([idx[1]]), dt)), kind="numpy"))


@lib("numpy.nan_to_num", "torch.nan_to_num")
def np_nan_to_num(interp, a, copy=True, nan=0.0, posinf=None, neginf=None):
    """numpy/torch docs: NaN -> `nan` (default 0.0); +/-inf -> posinf/neginf (default: the largest
    finite float -- not modelled: infinite inputs are Unsupported unless replacements are given)."""
    a = _a(a) if not isinstance(a, STensor) else a
    if a.dtype != FLOAT:
        return a
    if not isinstance(nan, (int, float)):
        raise Unsupported("nan_to_num with a symbolic replacement")

    def fn(x):
        x = V.sfloat(x) if not isinstance(x, float) else x
        if isinstance(x, float):
            import math as _m

            if _m.isinf(x) and (posinf is None or neginf is None):
                raise Unsupported("nan_to_num of an infinite value (replacement is the dtype maximum)")
            return float(nan) if _m.isnan(x) else (x if not _m.isinf(x) else float(posinf if x > 0 else neginf))
        if x.inf is not False:
            if not interp.path.provable(V.b_not(V.f_isinf(x))):
                raise Unsupported("nan_to_num of a possibly infinite value (replacement is the dtype maximum)")
        return V.f_ite(V.zbool(V.f_isnan(x)), float(nan), x)

    return T.tunary(fn, a)


@lib("numpy.cumsum")
def np_cumsum(interp, a, axis=None, dtype=None):
    """Running sum of a vector of concrete length (bools count as 0/1)."""
    a = _a(a)
    if axis is None:
        a = T.reshape(a, [-1])
    if a.rank != 1 or not isinstance(a.shape[0], int):
        raise Unsupported("cumsum on rank-%d / symbolic-length array" % a.rank)
    rd = a.reader()
    out, acc = [], None
    dt = INT if a.dtype in (INT, BOOL) else FLOAT
    for i in range(a.shape[0]):
        x = T.cast_scalar(rd([i]), dt)
        acc = x if acc is None else (V.i_add(acc, x) if dt == INT else V.f_add(acc, x))
        out.append(acc)
    return T.from_flat([a.shape[0]], out, dt, kind="numpy")


@lib("numpy.searchsorted")
def np_searchsorted(interp, a, v, side="left", sorter=None):
    """numpy docs: for a sorted 1-D array `a`, the index i with a[i-1] < v <= a[i] (side='left')
    or a[i-1] <= v < a[i] (side='right').  Decided by path forks over the concrete-length array
    (the result is a concrete index on each path).  An unsorted `a` is outside the contract."""
    a = _a(a)
    if sorter is not None or a.rank != 1 or not isinstance(a.shape[0], int):
        raise Unsupported("searchsorted on rank-%d / symbolic-length array or with a sorter" % a.rank)
    n = a.shape[0]
    rd = a.reader()
    for i in range(n - 1):
        x, y = rd([i]), rd([i + 1])
        le = V.f_le(x, y) if a.dtype == FLOAT else V.i_le(x, y)
        if not interp.path.provable(le):
            raise Unsupported("searchsorted: the array is not provably sorted")

    def one(val):
        for i in range(n):
            x = rd([i])
            if a.dtype == FLOAT:
                stop = V.f_le(val, x) if side == "left" else V.f_lt(val, x)
            else:
                stop = V.i_le(val, x) if side == "left" else V.i_lt(val, x)
            if interp.truth(stop):
                return i
        return n

    if not isinstance(v, STensor):
        return one(v)
    if not all(isinstance(d, int) for d in v.shape):
        raise Unsupported("searchsorted of a symbolic number of values")
    vr = v.reader()
    import itertools as _it

    flat = [one(vr(list(ix))) for ix in _it.product(*[range(d) for d in v.shape])]
    return T.from_flat(list(v.shape), flat, INT, kind="numpy")


@lib("numpy.log2")
def np_log2(interp, x):
    """Concrete arguments only (configuration arithmetic): returns a numpy float scalar."""
    import math as _m

    if isinstance(x, STensor) and x.rank == 0:
        x = x.at([])
    if not isinstance(x, (int, float)) or isinstance(x, bool):
        raise Unsupported("np.log2 of a symbolic value / array")
    if x <= 0:
        raise Unsupported("np.log2 of a non-positive value")
    return T.from_flat([], [_m.log2(x)], FLOAT, kind="numpy")


@lib("numpy.percentile")
def np_percentile(interp, a, q, axis=None, method="linear", interpolation=None):
    """numpy docs (method='linear'): with the values sorted ascending, the q-th percentile is at
    the virtual index q/100*(n-1), linearly interpolated between its two neighbours.  Decided
    for 1-D finite arrays of concrete length (sorted by path forks)."""
    a = _a(a)
    if axis is not None or method != "linear" or interpolation not in (None, "linear"):
        raise Unsupported("np.percentile options")
    a = T.reshape(a, [-1])
    n = a.shape[0]
    if not isinstance(n, int):
        raise Unsupported("np.percentile of a symbolic-length array")
    if n == 0:
        raise PyExc("IndexError", ("index -1 is out of bounds for axis 0 with size 0",))
    if not isinstance(q, (int, float)):
        raise Unsupported("np.percentile with a symbolic q")
    order = np_argsort(interp, a, kind="stable")
    rd, orr = a.reader(), order.reader()
    srt = [rd([orr([i])]) for i in range(n)]
    pos = q / 100.0 * (n - 1)
    lo = int(pos // 1)
    hi = min(lo + 1, n - 1)
    frac = pos - lo
    v = V.f_add(srt[lo], V.f_mul(V.f_sub(srt[hi], srt[lo]), frac)) if frac else srt[lo]
    return v


def _arg_extreme(interp, a, axis, which):
    """numpy docs: index of the minimum / maximum of the flattened array, the FIRST one among
    equal values; NaN counts as the extreme.  Decided by path forks (concrete length)."""
    a = _a(a)
    if axis is not None:
        raise Unsupported("np.arg%s with an axis" % which)
    flat = T.reshape(a, [-1])
    n = flat.shape[0]
    if not isinstance(n, int):
        raise Unsupported("np.arg%s of a symbolic-length array" % which)
    if n == 0:
        raise PyExc("ValueError", ("attempt to get arg%s of an empty sequence" % which,))
    if n > 12:
        raise Unsupported("np.arg%s of %d symbolic values" % (which, n))
    rd = flat.reader()
    best = 0
    for j in range(1, n):
        x, y = rd([j]), rd([best])
        if flat.dtype == FLOAT:
            if interp.truth(V.f_isnan(y)):
                break
            better = V.b_or(V.f_isnan(x), V.f_lt(x, y) if which == "min" else V.f_lt(y, x))
        else:
            better = V.i_lt(x, y) if which == "min" else V.i_lt(y, x)
        if interp.truth(better):
            best = j
    return best


@lib("numpy.argmin")
def np_argmin(interp, a, axis=None, out=None):
    return _arg_extreme(interp, a, axis, "min")


@lib("numpy.argmax")
def np_argmax(interp, a, axis=None, out=None):
    return _arg_extreme(interp, a, axis, "max")
