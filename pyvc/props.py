"""Per-property orchestration: discharge, alarm policy, counterexample search, replay,
known findings, soundness guards, evidence."""
from __future__ import annotations

import json
import multiprocessing as mp
import os
import re
import subprocess
import sys
import time

from .check import (REPO, VENV_PY, VERIF, _load, _verify_task, dim_assignments, known_findings, replayable, run_replay,
                    sanitize, write_replay)

ASSUMPTIONS_COMMON = [
    "machine arithmetic treated as mathematical: float32/float64 rounding, overflow to inf, underflow and signed zero are not modelled (floats are extended reals with NaN)",
    "int32/int64 index tensors and Python ints are mathematical integers (no overflow)",
    "exp/sqrt are uninterpreted with monotonicity/positivity axioms instantiated per occurrence",
    "trusted library contracts (pyvc/lib_*.py) for the torch/numpy/kornia/scipy/networkx calls listed in coverage.trusted_base; exercised only by the bounded conformance/cross-check run",
    "Python semantics assumed by the interpreter: left-to-right evaluation, CPython container semantics, no concurrency, logger.* calls are no-ops that cannot raise",
]


def pool_map(tasks, jobs):
    if not tasks:
        return []
    if jobs <= 1 or len(tasks) == 1:
        return [_verify_task(t) for t in tasks]
    ctxm = mp.get_context("fork")
    with ctxm.Pool(min(jobs, len(tasks))) as pool:
        return pool.map(_verify_task, tasks, chunksize=1)


def start_crosscheck(prop, seed, n_each):
    env = dict(os.environ)
    env["PYTHONPATH"] = os.path.join(VERIF, ".build", "py312") + ":" + VERIF
    return subprocess.Popen([VENV_PY, "-W", "ignore", "-m", "pyvc.concrete", "crosscheck", prop, str(seed), str(n_each)],
                            cwd=VERIF, env=env, stdout=subprocess.PIPE, stderr=subprocess.PIPE, text=True)


def finish_crosscheck(proc, timeout=900):
    try:
        out, err = proc.communicate(timeout=timeout)
    except subprocess.TimeoutExpired:
        proc.kill()
        return None, "crosscheck timed out"
    for line in reversed(out.splitlines()):
        line = line.strip()
        if line.startswith("{"):
            try:
                return json.loads(line), ""
            except Exception:
                pass
    return None, (err or out)[-2000:]


def merge_reports(reps):
    """Merge per-case reports of the same function."""
    out = {}
    order = []
    for r in reps:
        if r.target not in out:
            out[r.target] = r
            order.append(r.target)
            continue
        m = out[r.target]
        m.obligations.extend(r.obligations)
        m.paths += r.paths
        m.undecided.extend(r.undecided)
        m.errors.extend(r.errors)
        m.vacuous.extend(r.vacuous)
        m.solver_seconds += r.solver_seconds
        m.queries += r.queries
        m.used_contracts |= r.used_contracts
        m.inlined |= r.inlined
        m.lib_used |= r.lib_used
        m.assumptions |= r.assumptions
        m.wall = max(m.wall, r.wall)
        if hasattr(r, "files"):
            m.files.update(r.files)
    return [out[t] for t in order]


def random_ce_search(prop, targets, seed, n_each):
    env = dict(os.environ)
    env["PYTHONPATH"] = os.path.join(VERIF, ".build", "py312") + ":" + VERIF
    outdir = os.path.join(VERIF, "replays", prop)
    try:
        p = subprocess.run([VENV_PY, "-W", "ignore", "-m", "pyvc.concrete", "randsearch", prop, ",".join(targets), str(seed), str(n_each), outdir],
                           cwd=VERIF, env=env, capture_output=True, text=True, timeout=600)
    except subprocess.TimeoutExpired:
        return []
    for line in reversed((p.stdout or "").splitlines()):
        if line.strip().startswith("["):
            try:
                return json.loads(line)
            except Exception:
                return []
    return []


def depends_on(reports, target, helper_targets):
    """Does `target` (transitively, through contracts used) depend on one of helper_targets?"""
    by = {r.target: r for r in reports}
    seen = set()
    stack = [target]
    while stack:
        t = stack.pop()
        if t in seen:
            continue
        seen.add(t)
        r = by.get(t)
        if r is None:
            continue
        for u in r.used_contracts:
            if u in helper_targets:
                return True
            stack.append(u)
    return False


def ce_search(con, ob_names, tier, jobs, deadline, inline=()):
    """Stage 2/3 counterexample search: instantiate the symbolic dimensions with small
    concrete values (quantifier-free queries) and strengthen trusted contracts with their
    observed refinements so that the model replays on the real library."""
    limit = 60 if tier == "quick" else 400
    assigns = list(dim_assignments(con, limit))
    found = []
    batch = max(1, jobs)
    i = 0
    while i < len(assigns) and time.time() < deadline and not found:
        chunk = assigns[i:i + batch]
        i += batch
        reps = pool_map([(con.target, da, True, tuple(inline), 8000) for da in chunk], jobs)
        for rep in reps:
            for ob in rep.obligations:
                if ob.status == "failed" and replayable(ob) and (ob.level == "property" or ob.name in ob_names or any(_same_clause(ob.name, n) for n in ob_names)):
                    found.append((rep, ob))
    return found


def _same_clause(a, b):
    return a.split("/", 1)[-1] == b.split("/", 1)[-1]


def run_property(a):
    from .contracts import REGISTRY

    t0 = time.time()
    prop = a.prop
    tier = a.tier
    seed = int(os.environ.get("VERIF_SEED", "0") or 0)
    _load()
    # PYVC_EVIDENCE_DIR: scratch runs on changed trees (seed evaluation) must not overwrite
    # the evidence of the real tree
    ev_path = os.path.join(os.environ.get("PYVC_EVIDENCE_DIR") or os.path.join(VERIF, "evidence"), prop + ".json")
    os.makedirs(os.path.dirname(ev_path), exist_ok=True)
    targets = [t for t in REGISTRY.order if prop in REGISTRY.get(t).props]
    if not targets:
        print("CHECKER-ERROR: no contracts registered for %s" % prop)
        return 3
    timeout_ms = 12000 if tier == "quick" else 60000
    cc_proc = None
    if not a.no_crosscheck and os.path.isfile(VENV_PY):
        cc_proc = start_crosscheck(prop, seed, 3 if tier == "quick" else 12)
    def cases_of(t):
        con_ = REGISTRY.get(t)
        return getattr(con_, "thorough_cases", con_.cases) if tier == "thorough" else con_.cases

    tasks = []
    for t in targets:
        for case in cases_of(t):
            tasks.append((t, None, False, (), timeout_ms, (case,)))
    reports = merge_reports(pool_map(tasks, a.jobs))
    by = {r.target: r for r in reports}

    notes = []
    exit_code = 0
    lines = []

    errors = [e for r in reports for e in r.errors]
    vacuous = [v for r in reports for v in r.vacuous]
    undecided = [u for r in reports for u in r.undecided]

    all_obs = [(r, o) for r in reports for o in r.obligations]
    failed = [(r, o) for r, o in all_obs if o.status == "failed"]
    unknown = [(r, o) for r, o in all_obs if o.status == "unknown"]

    # ---- known findings (needed early) -------------------------------------------------
    kf = [k for k in known_findings() if k.get("property") == prop]

    def is_known(o):
        for k in kf:
            pat = k.get("obligation")
            if pat and re.search(pat, o.name):
                return k
        return None

    # ---- something is no longer discharged: look for a failing input on the real code --
    rnd_found = {}
    if [1 for r, o in failed + unknown if is_known(o) is None] or undecided:
        # (also when the changed code left the verifier's subset: the contract clauses still
        # judge the real function's input/output behaviour)
        for f in random_ce_search(prop, targets, seed, 150 if tier == "quick" else 2000):
            rnd_found.setdefault(f["target"], f)

    # ---- alarm policy: helper failures are re-examined with the helper inlined -------
    pl_targets = [t for t in targets if REGISTRY.get(t).level == "property"]
    helper_failed = {}
    for r, o in failed + unknown:
        if o.level != "property":
            # which function's contract is broken?  call-pre obligations name the callee
            helper_failed.setdefault(r.target, []).append(o)
    pl_failed = [(r, o) for r, o in failed if o.level == "property"]
    pl_unknown = [(r, o) for r, o in unknown if o.level == "property"]
    drift = []
    if helper_failed and not rnd_found:
        htargets = set(helper_failed)
        dependents = [t for t in pl_targets if t not in htargets and depends_on(reports, t, htargets)]
        if dependents:
            # inline every helper-level contract on the way down (a failing helper hidden
            # behind another helper's contract would otherwise stay hidden)
            helpers_all = tuple(sorted(t for t in REGISTRY.order if REGISTRY.get(t).level != "property" and not REGISTRY.get(t).trusted
                                       and (prop in REGISTRY.get(t).props) and (t in htargets or depends_on(reports, t, htargets))))
            inline_sets = {t: tuple(sorted(set(helpers_all) | htargets)) for t in dependents}
            reps2 = merge_reports(pool_map([(t, None, False, inline_sets[t], timeout_ms, (case,))
                                            for t in dependents for case in cases_of(t)], a.jobs))
            for r2 in reps2:
                bad = [o for o in r2.obligations if o.status != "proved" and (o.level == "property")]
                hbad = [o for o in r2.obligations if o.status != "proved" and o.level != "property"]
                if r2.undecided or r2.errors:
                    undecided.extend(r2.undecided)
                    errors.extend(r2.errors)
                if not bad and not hbad and not r2.undecided and not r2.errors:
                    drift.append("%s still proves with %s inlined" % (r2.target, sorted(htargets)))
                for o in bad + hbad:
                    o.name = o.name + " [with %s inlined]" % ",".join(sorted(htargets))
                    o.inline = inline_sets.get(r2.target, ())
                    o.level = "property"
                    (pl_failed if o.status == "failed" else pl_unknown).append((r2, o))
                by[r2.target + "#inlined"] = r2
                reports.append(r2)
        covered = set()
        for t in dependents:
            covered |= htargets
        for ht, obs in helper_failed.items():
            if ht in pl_targets or not dependents:
                # a broken contract with no property-level dependent is itself the top
                for o in obs:
                    (pl_failed if o.status == "failed" else pl_unknown).append((by[ht], o))
        if drift and not pl_failed and not pl_unknown:
            notes.append("CONTRACT-DRIFT: " + "; ".join(drift))

    kf_hits = []
    if rnd_found and not pl_failed and not pl_unknown and not (failed + unknown):
        # nothing was refuted symbolically (the code left the supported subset), but the real
        # code violates a property-level clause on a concrete input
        for tgt, f in rnd_found.items():
            from .path import Obligation as _Ob

            o = _Ob(f["obligation"], "failed", 0.0, "random search on the real code", level="property",
                    detail="symbolic run undecided (%s); failing input found by random concrete search" % (undecided[0][:120] if undecided else ""))
            pl_unknown.append((by.get(tgt, reports[0]), o))
    if rnd_found and not pl_failed and not pl_unknown:
        # only helper-level obligations broke, but the real code violates a property-level
        # clause on a concrete input: report it against the first broken obligation
        for r, o in failed + unknown:
            if is_known(o) is None:
                pl_unknown.append((r, o))
                break

    # recorded findings with a committed witness: replayed against the real code on every
    # run; reported while the real code still violates the un-carved clause at the witness
    for k in kf:
        w = k.get("witness")
        if not w:
            continue
        rc, outw = run_replay(os.path.join(VERIF, w))
        if rc == 0:
            kf_hits.append((k, None))
        elif rc == 2:
            notes.append("known-finding witness %s could not be replayed: %s" % (w, outw[-200:]))

    # ---- violations: replay ----------------------------------------------------------
    violations = []
    deadline = time.time() + (120 if tier == "quick" else 1500)
    seen_names = set()
    per_clause = {}

    def _too_many(name):
        # the same clause failing in many enumerated cases of a bounded contract is one
        # violation: replay / report at most two cases per clause
        k = re.sub(r"\[[^\]]*\]", "", name)
        per_clause[k] = per_clause.get(k, 0) + 1
        return per_clause[k] > 2

    for r, o in pl_failed:
        if o.name in seen_names or _too_many(o.name):
            continue
        seen_names.add(o.name)
        k = is_known(o)
        if k is not None:
            kf_hits.append((k, o))
            continue
        con = REGISTRY.get(r.target)
        confirmed = None
        rp = None
        out = ""
        if replayable(o):
            rp = write_replay(prop, o, r)
            rc, out = run_replay(rp)
            confirmed = rc == 0
        if not confirmed and rnd_found:
            f = rnd_found.get(r.target) or next(iter(rnd_found.values()))
            confirmed, rp, out = True, f["replay"], "random concrete search: clause fails on the real code (%s)" % f["obligation"]
        if not confirmed:
            found = ce_search(con, {o.name}, tier, a.jobs, deadline, getattr(o, 'inline', ())) if con.dims else []
            for (r3, o3) in found:
                rp3 = write_replay(prop, o3, r3, {"found_by": "concrete-dimension search with observed library refinements", "original_obligation": o.name})
                rc, out3 = run_replay(rp3)
                if rc == 0:
                    confirmed, rp, out = True, rp3, out3
                    break
        if rp is None:
            rp = write_replay(prop, o, r)
        rec = json.load(open(rp))
        rec["replay_output"] = out
        rec["confirmed_on_real_code"] = bool(confirmed)
        json.dump(rec, open(rp, "w"), indent=1, default=str)
        violations.append((o, rp, bool(confirmed)))
    # unknown property-level obligations: try to decide them by concrete-dimension search
    still_unknown = []
    for r, o in pl_unknown:
        if o.name in seen_names or _too_many(o.name):
            continue
        seen_names.add(o.name)
        con = REGISTRY.get(r.target)
        if any(c for _, _, c in violations):
            # a confirmed violation is already reported; undecided siblings add nothing
            still_unknown.append((r, o))
            continue
        if rnd_found:
            f = rnd_found.get(r.target) or next(iter(rnd_found.values()))
            o.detail = (o.detail or "") + " | failing input found by random concrete search: " + f["obligation"]
            violations.append((o, f["replay"], True))
            continue
        found = ce_search(con, {o.name}, tier, a.jobs, deadline, getattr(o, 'inline', ())) if con.dims else []
        hit = False
        for (r3, o3) in found:
            k = is_known(o3)
            if k is not None:
                kf_hits.append((k, o3))
                hit = True
                break
            rp3 = write_replay(prop, o3, r3, {"found_by": "concrete-dimension search", "original_obligation": o.name})
            rc, out3 = run_replay(rp3)
            if rc == 0:
                rec = json.load(open(rp3))
                rec["replay_output"] = out3
                rec["confirmed_on_real_code"] = True
                json.dump(rec, open(rp3, "w"), indent=1, default=str)
                violations.append((o3, rp3, True))
                hit = True
                break
        if not hit:
            still_unknown.append((r, o))

    # ---- guards ----------------------------------------------------------------------
    n_obl = len([1 for r, o in all_obs])
    n_dis = len([1 for r, o in all_obs if o.status == "proved"])
    base_path = os.path.join(VERIF, "baseline_obligations.json")
    baseline = json.load(open(base_path)) if os.path.isfile(base_path) else {}
    if a.update_baseline:
        baseline[prop] = {"count": n_obl, "names": sorted(set(o.name for r, o in all_obs))}
        json.dump(baseline, open(base_path, "w"), indent=1, sort_keys=True)
    guard_msgs = []
    if prop in baseline and n_obl * 2 < baseline[prop]["count"] and not errors and not undecided:
        missing = sorted(set(baseline[prop]["names"]) - set(o.name for r, o in all_obs))
        # fewer obligations than on the unchanged tree: legitimate only when paths vanished
        guard_msgs.append("obligation count %d below baseline %d (missing e.g. %s)" % (n_obl, baseline[prop]["count"], missing[:3]))
    if n_obl == 0:
        guard_msgs.append("zero obligations generated")
    cc = None
    if cc_proc is not None:
        cc, cc_err = finish_crosscheck(cc_proc)
        if cc is None:
            guard_msgs.append("interpreter cross-check did not run: %s" % cc_err[-300:])
        elif cc["disagreements"]:
            guard_msgs.append("interpreter/CPython disagreement: %s" % json.dumps(cc["disagreements"][0])[:600])

    # ---- verdict ---------------------------------------------------------------------
    seen_v = set()
    for o, rp, confirmed in violations:
        if (o.name, rp) in seen_v:
            continue
        seen_v.add((o.name, rp))
        line = "VIOLATION property=%s replay=%s obligation=%s" % (prop, rp, o.name.replace(" ", "_"))
        if not confirmed:
            line += " no-failing-input-found"
        lines.append(line)
    seen_k = set()
    for k, o in kf_hits:
        if k["text"] in seen_k:
            continue
        seen_k.add(k["text"])
        lines.append("KNOWN-FINDING: property=%s %s" % (prop, k["text"].split("::", 1)[-1].strip()))
    if violations:
        exit_code = 1
    elif errors or vacuous or guard_msgs:
        exit_code = 3
    elif undecided or still_unknown:
        exit_code = 2

    # ---- evidence --------------------------------------------------------------------
    trusted = sorted(set(x for r in reports for x in r.lib_used))
    fuc = sorted(set(r.target for r in reports))
    inlined = sorted(set(x for r in reports for x in r.inlined))
    backends = {}
    for r, o in all_obs:
        backends[o.backend] = backends.get(o.backend, 0) + 1
    files = {}
    for r in reports:
        files.update(getattr(r, "files", {}))
    samples = []
    for r, o in all_obs[:6] + all_obs[-6:]:
        samples.append({"obligation": o.name, "status": o.status, "backend": o.backend, "seconds": round(o.seconds, 3), "level": o.level})
    extra = {}
    hook = PROPERTY_EXTRAS.get(prop)
    if hook is not None:
        try:
            extra = hook(tier, seed) or {}
        except Exception as e:  # pragma: no cover
            extra = {"extra_error": str(e)}
            exit_code = max(exit_code, 3) if exit_code != 1 else 1
        for ln in extra.pop("lines", []):
            lines.append(ln)
        if extra.pop("violation", False):
            exit_code = 1
    con_assumptions = sorted(set(x for r in reports for x in r.assumptions) | set(
        "assumed_repo_contract(%s)" % t for t in REGISTRY.order if REGISTRY.get(t).trusted and prop in REGISTRY.get(t).props))
    not_decided = sorted(set(n for t in targets for n in getattr(REGISTRY.get(t), "not_decided", ())))
    bounded = sorted(set(n for t in targets for n in getattr(REGISTRY.get(t), "bounded", ())))
    level = PROPERTY_LEVEL.get(prop, "proof")
    coverage = {
        "obligations": n_obl,
        "discharged": n_dis,
        "checker_cmd": "./check %s --tier %s" % (prop, tier),
        "trusted_base": trusted,
        "samples": samples,
        "functions_under_contract": fuc,
        "property_level_contracts": pl_targets,
        "inlined_functions": inlined,
        "paths": sum(r.paths for r in reports),
        "backends": backends,
        "solver_seconds": round(sum(r.solver_seconds for r in reports), 2),
        "solver_queries": sum(r.queries for r in reports),
        "undecided": undecided[:20],
        "unknown_obligations": [o.name for r, o in still_unknown][:20],
        "failed_obligations": [o.name for o, rp, c in violations][:20],
        "known_findings_reported": [k["text"] for k, o in kf_hits],
        "notes": notes,
        "guards": {"vacuous_paths": vacuous[:5], "messages": guard_msgs, "crosscheck": ({k: v for k, v in cc.items() if k != "by_function"} if cc else None)},
        "clauses_not_decided": not_decided,
        "bounded_parts": bounded,
        "source_files_sha256": files,
        "explanation": PROPERTY_EXPLANATION.get(prop, "contract-based deductive verification of the real source text by symbolic execution; every obligation discharged by z3/cvc5 for all inputs of the stated shape classes"),
    }
    coverage.update(extra)
    ev = {
        "property_id": prop,
        "tier": tier if tier in ("quick", "thorough") else "quick",
        "seed": seed,
        "level": level,
        "coverage": coverage,
        "assumptions": ASSUMPTIONS_COMMON + con_assumptions,
        "wall_s": round(time.time() - t0, 2),
        "violations": len(violations),
    }
    with open(ev_path, "w") as f:
        json.dump(ev, f, indent=1, default=str)

    # ---- report ----------------------------------------------------------------------
    print("%s tier=%s: %d obligations, %d discharged, %d functions under contract, %d paths, %.1fs" % (
        prop, tier, n_obl, n_dis, len(fuc), coverage["paths"], time.time() - t0))
    for n in notes:
        print(n)
    for u in undecided[:10]:
        print("UNDECIDED: " + u)
    for r, o in still_unknown[:10]:
        print("UNDECIDED: solver unknown on %s (%s)" % (o.name, o.detail))
    for e in errors[:5]:
        print("CHECKER-ERROR: " + e)
    for v in vacuous[:5]:
        print("CHECKER-ERROR: vacuous assumptions on " + v)
    for g in guard_msgs:
        print("CHECKER-ERROR: " + g)
    for ln in lines:
        print(ln)
    return exit_code


PROPERTY_EXTRAS = {}
PROPERTY_LEVEL = {"C09": "other", "C08": "other", "C16": "other", "C10": "other"}
PROPERTY_EXPLANATION = {"C09": "bounded symbolic execution of the real Tracker over all histories of the stated length/width from the initial state (per-frame detection counts enumerated as cases; scores symbolic; every matching outcome explored); obligations per frame discharged by z3 -- a bounded stand-in, not an unbounded proof"}


def run_c17(a):
    """Bounded stand-in for C17 (see pyvc/bounded_c17.py)."""
    from . import bounded_c17 as B

    t0 = time.time()
    seed = int(os.environ.get("VERIF_SEED", "0") or 0)
    r = B.run(a.tier, seed, VERIF, VENV_PY)
    lines = []
    exit_code = 0
    bad = list(r["interp_bad"]) + (r["real"]["bad"] if r["real"] else [])
    if r["real"] is None:
        print("CHECKER-ERROR: real-code run failed: " + r["real_err"])
        exit_code = 3
    if bad:
        d = os.path.join(VERIF, "replays", "C17")
        os.makedirs(d, exist_ok=True)
        rp = os.path.join(d, "toposort_edges_case.json")
        json.dump({"property": "C17", "target": "sleap_nn.inference.paf_grouping.toposort_edges", "custom": "c17",
                   "obligation": "toposort_edges/permutation-in-parent-before-child-order", "inputs": {"edges": bad[0]["edges"]},
                   "result": bad[0]["result"], "confirmed_on_real_code": bool(r["real"] and r["real"]["bad"])}, open(rp, "w"), indent=1)
        lines.append("VIOLATION property=C17 replay=%s obligation=toposort_edges/permutation-in-parent-before-child-order" % rp)
        exit_code = 1
    n = r["interp_runs"] + (r["real"]["n"] if r["real"] else 0)
    ev = {
        "property_id": "C17", "tier": a.tier if a.tier in ("quick", "thorough") else "quick", "seed": seed, "level": "exploration",
        "coverage": {
            "evaluations": n,
            "distinct_nontrivial": r["cases"],
            "rule": "every rooted labelled tree on 2..%d nodes x every ordering of its edge list, plus %d seeded samples of %d-node trees with random node labels and edge orders; each case is run (a) through the symbolic interpreter on the real source of toposort_edges with the networkx contract model and (b) through the real function with the real networkx; a case is distinct by (edge list as ordered pairs); all have >= 1 edge, hence non-trivial" % (r["max_full"], r["sample_k"], r["sample_n"]),
            "samples": r["samples"],
            "exhaustive": False,
            "bounded": "BOUNDED STAND-IN, not a proof: trees up to %d nodes exhaustively, %d nodes sampled" % (r["max_full"], r["sample_n"]),
            "explanation": "toposort_edges delegates to networkx (DiGraph, topological_sort, bfs_edges); its own code is two comprehensions and list.index over a symbolic-length list, which the verifier's subset does not cover (no symbolic-length comprehensions), so the property is checked by bounded enumeration as the brief allows -- labelled bounded and not counted as proved",
            "interp_runs": r["interp_runs"], "real_runs": r["real"]["n"] if r["real"] else 0,
        },
        "assumptions": ["bounded: tree sizes as stated in coverage.rule", "the networkx model in pyvc/lib_misc.py (used by the interpreter run) is validated only by agreement with the real library on these cases"],
        "wall_s": round(time.time() - t0, 2),
        "violations": len(bad),
    }
    evd = os.environ.get("PYVC_EVIDENCE_DIR") or os.path.join(VERIF, "evidence")
    os.makedirs(evd, exist_ok=True)
    json.dump(ev, open(os.path.join(evd, "C17.json"), "w"), indent=1)
    print("C17 tier=%s (bounded stand-in): %d cases through the interpreter and %d through the real code, %d failing, %.1fs" % (
        a.tier, r["interp_runs"], r["real"]["n"] if r["real"] else 0, len(bad), time.time() - t0))
    for ln in lines:
        print(ln)
    return exit_code


CUSTOM_RUNNERS = {"C17": run_c17}
