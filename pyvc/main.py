"""CLI driver (work in progress)."""
import importlib
import sys
import time

from .contracts import REGISTRY, verify_contract
from .loader import Loader


def load_contracts():
    import pkgutil
    import contracts as pkg

    for m in pkgutil.iter_modules(pkg.__path__):
        if m.name.startswith("c") or m.name == "common":
            importlib.import_module("contracts." + m.name)


def main(argv):
    load_contracts()
    import os
    loader = Loader(os.environ.get("PYVC_REPO", "/repo"))
    targets = argv[1:] or REGISTRY.order
    for t in targets:
        con = REGISTRY.get(t)
        rep = verify_contract(loader, REGISTRY, con)
        print("== %s  paths=%d wall=%.2fs solver=%.2fs queries=%d" % (t, rep.paths, rep.wall, rep.solver_seconds, rep.queries))
        for o in rep.obligations:
            print("   %-8s %-7s %6.2fs  %s %s" % (o.status, o.backend, o.seconds, o.name, o.detail))
            if o.status == "failed" and getattr(o, "inputs", None):
                print("      inputs:", o.inputs)
        for u in rep.undecided:
            print("   UNDECIDED", u)
        for e in rep.errors:
            print("   ERROR", e)
        for v in rep.vacuous:
            print("   VACUOUS", v)
        print("   contracts used:", sorted(rep.used_contracts), "inlined:", sorted(rep.inlined))


if __name__ == "__main__":
    main(sys.argv)
