"""Trusted models of the torch operations used by the anchored code.

Each function is a functional model of the documented behaviour of the torch op on the
engine's symbolic tensors ("trusted library contract", DESIGN 2.5).  They are assumptions;
the conformance run (pyvc/conformance.py) executes the same models concretely against the
real library.
"""
from __future__ import annotations

import math

import z3

from . import tensor as T, values as V
from .ctx import PyExc, Unsupported
from .tensor import BOOL, FLOAT, INT, STensor

LIB = {}
CONST = {}
TMETHODS = {}
TATTRS = {}


def lib(*names):
    def deco(f):
        f.__pyvc_lib__ = True
        for n in names:
            LIB[n] = f
        return f

    return deco


def method(*names):
    def deco(f):
        for n in names:
            TMETHODS[n] = f
        return f

    return deco


class DType:
    def __init__(self, name, kind):
        self.name = name
        self.kind = kind

    def __repr__(self):
        return "torch." + self.name

    def __eq__(self, o):
        return isinstance(o, DType) and o.name == self.name

    def __hash__(self):
        return hash(("DType", self.name))


for _n, _k in [
    ("float32", FLOAT), ("float", FLOAT), ("float64", FLOAT), ("double", FLOAT), ("float16", FLOAT), ("half", FLOAT),
    ("bfloat16", FLOAT), ("int32", INT), ("int", INT), ("int64", INT), ("long", INT), ("int16", INT), ("int8", INT),
    ("uint8", INT), ("bool", BOOL),
]:
    CONST["torch." + _n] = DType(_n, _k)
    CONST["numpy." + _n] = DType(_n, _k)
CONST["numpy.float_"] = DType("float64", FLOAT)
CONST["numpy.int_"] = DType("int64", INT)
CONST["numpy.bool_"] = DType("bool", BOOL)
CONST["torch.nan"] = math.nan
CONST["torch.inf"] = math.inf
CONST["torch.pi"] = math.pi


class Device:
    def __init__(self, name="cpu"):
        self.name = name

    __pyvc_native__ = True
    type = "cpu"


def _kind_of_dtype(dtype, default=None):
    if dtype is None:
        return default
    if isinstance(dtype, DType):
        return dtype.kind
    from .interp import BuiltinType

    if isinstance(dtype, BuiltinType):
        return {"float": FLOAT, "int": INT, "bool": BOOL}[dtype.name]
    if isinstance(dtype, str):
        if "float" in dtype:
            return FLOAT
        if "int" in dtype:
            return INT
        if "bool" in dtype:
            return BOOL
    raise Unsupported("dtype %r" % (dtype,))


def _shape_args(args):
    if len(args) == 1 and isinstance(args[0], (list, tuple)):
        args = args[0]
    out = []
    for a in args:
        if isinstance(a, STensor):
            a = a.at([0] * a.rank)
        if isinstance(a, bool):
            a = int(a)
        out.append(a)
    return out


def _t(x, kind="torch"):
    return T.as_tensor(x, kind=kind)


# =========================================================================== creation


@lib("torch.tensor", "torch.as_tensor", "torch.asarray")
def torch_tensor(interp, data, dtype=None, device=None, requires_grad=False):
    k = _kind_of_dtype(dtype)
    if isinstance(data, STensor):
        return T.to_dtype(T.clone(data), k) if k else T.clone(data)
    if V.is_scalar(data):
        return T.full([], data, dtype=k)
    return T.from_nested(_listify(interp, data), dtype=k)


def _listify(interp, data):
    if isinstance(data, (list, tuple)):
        return [_listify(interp, d) for d in data]
    if isinstance(data, STensor):
        if data.rank == 0:
            return data.at([])
        if all(T.conc(d) for d in data.shape):
            return data.tolist()
        raise Unsupported("tensor literal containing a tensor of symbolic shape")
    return data


@lib("torch.Tensor", "torch.FloatTensor")
def torch_Tensor(interp, *data):
    if len(data) == 1 and isinstance(data[0], (list, tuple, STensor)):
        return torch_tensor(interp, data[0], dtype=CONST["torch.float32"])
    raise Unsupported("torch.Tensor(sizes...)")


@lib("torch.zeros")
def torch_zeros(interp, *size, dtype=None, device=None, requires_grad=False):
    return T.full(_shape_args(size), 0.0 if _kind_of_dtype(dtype, FLOAT) == FLOAT else 0, dtype=_kind_of_dtype(dtype, FLOAT))


@lib("torch.ones")
def torch_ones(interp, *size, dtype=None, device=None):
    return T.full(_shape_args(size), 1.0 if _kind_of_dtype(dtype, FLOAT) == FLOAT else 1, dtype=_kind_of_dtype(dtype, FLOAT))


@lib("torch.full")
def torch_full(interp, size, fill_value, dtype=None, device=None):
    fv = fill_value.at([0] * fill_value.rank) if isinstance(fill_value, STensor) else fill_value
    k = _kind_of_dtype(dtype, T.scalar_dtype(fv))
    return T.full(_shape_args([size]), fv, dtype=k)


@lib("torch.full_like")
def torch_full_like(interp, t, fill_value, dtype=None):
    k = _kind_of_dtype(dtype, t.dtype)
    return T.full(list(t.shape), T.cast_scalar(fill_value, k), dtype=k)


@lib("torch.zeros_like")
def torch_zeros_like(interp, t, dtype=None):
    k = _kind_of_dtype(dtype, t.dtype)
    return T.full(list(t.shape), T.cast_scalar(0, k), dtype=k)


@lib("torch.ones_like")
def torch_ones_like(interp, t, dtype=None):
    k = _kind_of_dtype(dtype, t.dtype)
    return T.full(list(t.shape), T.cast_scalar(1, k), dtype=k)


@lib("torch.empty")
def torch_empty(interp, *size, dtype=None, device=None):
    sh = _shape_args(size)
    if any(T.conc(d) and d == 0 for d in sh):
        return T.full(sh, 0.0, dtype=_kind_of_dtype(dtype, FLOAT))
    raise Unsupported("torch.empty with elements (uninitialised memory)")


@lib("torch.arange")
def torch_arange(interp, *args, step=None, dtype=None, device=None):
    args = [a.at([0] * a.rank) if isinstance(a, STensor) else a for a in args]
    if len(args) == 1:
        start, stop, st = 0, args[0], 1
    elif len(args) == 2:
        start, stop, st = args[0], args[1], 1
    else:
        start, stop, st = args
    if step is not None:
        st = step
    return T.arange(start, stop, st, dtype=_kind_of_dtype(dtype))


@lib("torch.linspace")
def torch_linspace(interp, start, end, steps, dtype=None, device=None):
    if not isinstance(steps, int):
        raise Unsupported("linspace with symbolic steps")
    if steps == 1:
        return T.from_fn([1], FLOAT, lambda idx: T.cast_scalar(start, FLOAT))
    st = V.f_div(V.f_sub(end, start), float(steps - 1))
    return T.from_fn([steps], FLOAT, lambda idx: V.f_add(start, V.f_mul(idx[0], st)))


@lib("torch.from_numpy")
def torch_from_numpy(interp, a):
    if not isinstance(a, STensor):
        raise PyExc("TypeError", ("expected np.ndarray",))
    # shares memory with the array (view)
    v = T.reshape(a, list(a.shape))
    v.kind = "torch"
    return v


@lib("torch.rand")
def torch_rand(interp, *size, **kw):
    sh = _shape_args(size)
    t = T.sym_tensor(V.fresh_name("rand"), sh, FLOAT, nan_ok=False)
    return t


@lib("torch.manual_seed")
def torch_manual_seed(interp, s):
    return None


# =========================================================================== elementwise


def _fun1(name, f, out_dtype=None):
    def g(interp, x, *a, **k):
        x = _t(x)
        if out_dtype is None and x.dtype != FLOAT:
            xx = T.to_dtype(x, FLOAT)
        else:
            xx = x
        return T.tunary(f, xx, dtype=out_dtype or FLOAT)

    g.__pyvc_lib__ = True
    return g


LIB["torch.exp"] = _fun1("exp", V.f_exp)
LIB["torch.sqrt"] = _fun1("sqrt", V.f_sqrt)
LIB["torch.isnan"] = _fun1("isnan", V.f_isnan, BOOL)
LIB["torch.isinf"] = _fun1("isinf", V.f_isinf, BOOL)
LIB["torch.isfinite"] = _fun1("isfinite", V.f_isfinite, BOOL)
LIB["torch.floor"] = _fun1("floor", V.f_floor)


@lib("torch.div", "torch.divide")
def torch_div(interp, a, b, rounding_mode=None):
    if rounding_mode is None:
        return T.tbinop("truediv", a, b)
    if rounding_mode == "floor":
        return T.tbinop("floordiv", a, b)
    if rounding_mode == "trunc":
        da = a.dtype if isinstance(a, STensor) else T.scalar_dtype(a)
        db = b.dtype if isinstance(b, STensor) else T.scalar_dtype(b)
        if da == INT and db == INT:
            def f(x, y):
                q = V.i_floordiv(V.i_abs(x), V.i_abs(y))
                neg = V.b_xor(V.i_lt(x, 0), V.i_lt(y, 0))
                return V.ite(neg, V.i_neg(q), q)
            return T.elementwise(f, a, b, dtype=INT)
    raise Unsupported("torch.div rounding_mode=%r" % (rounding_mode,))


@lib("torch.remainder")
def torch_remainder(interp, a, b):
    return T.tbinop("mod", a, b)


@lib("torch.square")
def torch_square(interp, x):
    return T.tbinop("mul", x, x)


@lib("torch.abs")
def torch_abs(interp, x):
    return T.tunary(lambda v: V.f_abs(v) if x.dtype == FLOAT else V.i_abs(v), x)


@lib("torch.round")
def torch_round(interp, x, decimals=0):
    if decimals != 0:
        raise Unsupported("round(decimals)")
    if x.dtype != FLOAT:
        return x
    return T.tunary(V.f_round, x)


@lib("torch.nan_to_num")
def torch_nan_to_num(interp, x, nan=0.0, posinf=None, neginf=None):
    if x.dtype != FLOAT:
        return x
    return T.tunary(lambda v: V.f_nan_to_num(v, nan, posinf, neginf), x)


@lib("torch.maximum")
def torch_maximum(interp, a, b):
    a, b = _t(a), _t(b)
    dt = T.promote(a.dtype, b.dtype)
    if dt == FLOAT:
        return T.elementwise(lambda x, y: V.f_max(T.cast_scalar(x, FLOAT), T.cast_scalar(y, FLOAT)), a, b, dtype=FLOAT)
    return T.elementwise(lambda x, y: V.i_max(x, y), a, b, dtype=dt)


@lib("torch.minimum")
def torch_minimum(interp, a, b):
    a, b = _t(a), _t(b)
    dt = T.promote(a.dtype, b.dtype)
    if dt == FLOAT:
        return T.elementwise(lambda x, y: V.f_min(T.cast_scalar(x, FLOAT), T.cast_scalar(y, FLOAT)), a, b, dtype=FLOAT)
    return T.elementwise(lambda x, y: V.i_min(x, y), a, b, dtype=dt)


@lib("torch.clamp", "torch.clip")
def torch_clamp(interp, x, min=None, max=None):
    lo = min.at([0] * min.rank) if isinstance(min, STensor) else min
    hi = max.at([0] * max.rank) if isinstance(max, STensor) else max
    if x.dtype == FLOAT:
        return T.tunary(lambda v: V.f_clamp(v, lo, hi), x)

    def f(v):
        if lo is not None:
            v = V.i_max(v, lo)
        if hi is not None:
            v = V.i_min(v, hi)
        return v

    return T.tunary(f, x)


@lib("torch.where")
def torch_where(interp, cond, a=None, b=None):
    if a is None and b is None:
        sel = T.selection_of(cond)
        return tuple(sel.index_tensors())
    return T.where3(cond, a, b)


@lib("torch.nonzero", "torch.argwhere")
def torch_nonzero(interp, x, as_tuple=False):
    mask = x if x.dtype == BOOL else T.tbinop("ne", x, 0)
    sel = T.Selection(mask)
    if as_tuple:
        return tuple(sel.index_tensors())
    out = STensor([sel.N, sel.m], INT, fn=lambda idx: _pick(sel.sel_at(idx[0]), idx[1]))
    out.sel_rows = sel
    return out


def _pick(lst, j):
    if isinstance(j, int):
        return lst[j]
    r = lst[-1]
    for k in range(len(lst) - 2, -1, -1):
        r = V.ite(V.i_eq(j, k), lst[k], r)
    return r


@lib("torch.is_floating_point")
def torch_is_floating_point(interp, x):
    return x.dtype == FLOAT


@lib("torch.is_tensor")
def torch_is_tensor(interp, x):
    return isinstance(x, STensor) and x.kind == "torch"


# =========================================================================== shape ops


@lib("torch.reshape")
def torch_reshape(interp, x, shape):
    return T.reshape(x, _shape_args([shape]))


@lib("torch.unsqueeze")
def torch_unsqueeze(interp, x, dim):
    return T.unsqueeze(x, dim)


@lib("torch.squeeze")
def torch_squeeze(interp, x, dim=None):
    return T.squeeze(x, dim)


@lib("torch.stack")
def torch_stack(interp, ts, dim=0, axis=None):
    if axis is not None:
        dim = axis
    return T.stack(interp.iterate_concrete(ts), dim)


@lib("torch.cat", "torch.concat", "torch.concatenate")
def torch_cat(interp, ts, dim=0, axis=None):
    if axis is not None:
        dim = axis
    return T.cat(interp.iterate_concrete(ts), dim)


@lib("torch.meshgrid")
def torch_meshgrid(interp, *ts, indexing=None):
    if len(ts) == 1 and isinstance(ts[0], (list, tuple)):
        ts = ts[0]
    if len(ts) != 2:
        raise Unsupported("meshgrid with %d inputs" % len(ts))
    if indexing == "xy":
        b, a = T.meshgrid_ij(ts[1], ts[0])
        return (a, b)
    return T.meshgrid_ij(ts[0], ts[1])


@lib("torch.permute")
def torch_permute(interp, x, dims):
    return T.permute(x, list(dims))


@lib("torch.transpose")
def torch_transpose(interp, x, d0, d1):
    return T.transpose(x, d0, d1)


@lib("torch.flatten")
def torch_flatten(interp, x, start_dim=0, end_dim=-1):
    return t_flatten(interp, x, start_dim, end_dim)


# =========================================================================== reductions


@lib("torch.sum")
def torch_sum(interp, x, dim=None, keepdim=False, axis=None, dtype=None):
    if axis is not None:
        dim = axis
    return T.tsum(x, dim, keepdim)


@lib("torch.mean")
def torch_mean(interp, x, dim=None, keepdim=False, axis=None):
    if axis is not None:
        dim = axis
    dims = T._normalize_dims(x, dim)
    n = T.prod([x.shape[d] for d in dims])
    s = T.tsum(T.to_dtype(x, FLOAT), dim, keepdim)
    return T.tbinop("truediv", s, n)


class MaxResult(tuple):
    __pyvc_native__ = True

    def __new__(cls, values, indices):
        t = tuple.__new__(cls, (values, indices))
        t.values = values
        t.indices = indices
        return t


@lib("torch.max")
def torch_max(interp, x, dim=None, keepdim=False, axis=None):
    if axis is not None:
        dim = axis
    if isinstance(dim, STensor):
        return torch_maximum(interp, x, dim)
    if dim is None:
        return _full_reduce(x, "max")
    v, i = T.targreduce(x, dim, keepdim, "max")
    return MaxResult(v, i)


@lib("torch.min")
def torch_min(interp, x, dim=None, keepdim=False, axis=None):
    if axis is not None:
        dim = axis
    if isinstance(dim, STensor):
        return torch_minimum(interp, x, dim)
    if dim is None:
        return _full_reduce(x, "min")
    v, i = T.targreduce(x, dim, keepdim, "min")
    return MaxResult(v, i)


def _full_reduce(x, which):
    if x.rank == 0:
        return x
    if not all(T.conc(d) for d in x.shape):
        flat = T.reshape(x, [-1]) if x.rank > 1 else x
        v, _ = T.targreduce(flat, 0, False, which)
        return v
    if x.dtype == FLOAT:
        comb = V.f_max if which == "max" else V.f_min
    else:
        comb = V.i_max if which == "max" else V.i_min
    return T.reduce_unrolled(x, list(range(x.rank)), False, None, comb, empty_error=("RuntimeError", ("max(): Expected reduction dim to be specified for input.numel() == 0",)))


@lib("torch.amax")
def torch_amax(interp, x, dim=None, keepdim=False):
    if isinstance(dim, (list, tuple)) and len(dim) > 1:
        r = x
        for d in sorted([dd % x.rank for dd in dim], reverse=True):
            r, _ = T.targreduce(r, d, keepdim, "max")
        return r
    if dim is None:
        return _full_reduce(x, "max")
    d = dim[0] if isinstance(dim, (list, tuple)) else dim
    return T.targreduce(x, d, keepdim, "max")[0]


@lib("torch.argmax")
def torch_argmax(interp, x, dim=None, keepdim=False):
    if dim is None:
        flat = T.reshape(x, [-1])
        return T.targreduce(flat, 0, False, "max")[1]
    return T.targreduce(x, dim, keepdim, "max")[1]


@lib("torch.argmin")
def torch_argmin(interp, x, dim=None, keepdim=False):
    if dim is None:
        flat = T.reshape(x, [-1])
        return T.targreduce(flat, 0, False, "min")[1]
    return T.targreduce(x, dim, keepdim, "min")[1]


@lib("torch.any")
def torch_any(interp, x, dim=None, keepdim=False):
    return T.tany(_boolify(x), dim, keepdim)


@lib("torch.all")
def torch_all(interp, x, dim=None, keepdim=False):
    return T.tall(_boolify(x), dim, keepdim)


def _boolify(x):
    if x.dtype == BOOL:
        return x
    return T.tunary(lambda v: V.to_bool(v), x, dtype=BOOL)


@lib("torch.norm", "torch.linalg.norm")
def torch_norm(interp, x, p=2, dim=None, keepdim=False):
    if p not in (2, "fro", None):
        raise Unsupported("norm p=%r" % (p,))
    sq = T.tbinop("mul", x, x)
    s = T.tsum(sq, dim, keepdim)
    return T.tunary(V.f_sqrt, s, dtype=FLOAT)


@lib("torch.topk")
def torch_topk(interp, x, k, dim=-1, largest=True, sorted=True):
    """Contract (docs): the k largest elements along dim, values sorted descending; which of
    several equal elements is returned is unspecified."""
    if x.rank != 1:
        raise Unsupported("topk on rank-%d tensor" % x.rank)
    n = x.shape[0]
    if not isinstance(k, int):
        raise Unsupported("topk with symbolic k")
    interp.path.require(V.i_le(k, n), "RuntimeError", "selected index k out of range")
    nm = V.fresh_name("topk")
    P = z3.Function(nm, z3.IntSort(), z3.IntSort())
    src = x.reader()
    s = V.sink()
    idxs = [P(z3.IntVal(j)) for j in range(k)]
    for j in range(k):
        s.add(z3.And(idxs[j] >= 0, V.zbool(V.i_lt(idxs[j], n))))
        for j2 in range(j):
            s.add(idxs[j] != idxs[j2])
    vals = [src([i]) for i in idxs]
    for j in range(1, k):
        s.add(V.zbool(V.f_le(vals[j], vals[j - 1]) if largest else V.f_le(vals[j - 1], vals[j])))
    if k > 0:
        q = z3.Int(V.fresh_name("q"))
        other = src([q])
        notsel = z3.And(*[q != i for i in idxs])
        bound = V.f_le(other, vals[k - 1]) if largest else V.f_le(vals[k - 1], other)
        s.add(z3.ForAll([q], z3.Implies(z3.And(q >= 0, V.zbool(V.i_lt(q, n)), notsel), V.zbool(bound))))
    values = STensor([k], x.dtype, fn=lambda idx: _pick(vals, idx[0]) if k else 0.0)
    indices = STensor([k], INT, fn=lambda idx: _pick(idxs, idx[0]) if k else 0)
    return MaxResult(values, indices)


# =========================================================================== tensor methods


@method("reshape", "view")
def t_reshape(interp, t, *shape):
    if len(shape) == 1 and isinstance(shape[0], DType):
        raise Unsupported("view(dtype)")
    return T.reshape(t, _shape_args(shape))


@method("unsqueeze")
def t_unsqueeze(interp, t, dim):
    return T.unsqueeze(t, dim)


@method("squeeze")
def t_squeeze(interp, t, dim=None, axis=None):
    if axis is not None:
        dim = axis
    return T.squeeze(t, dim)


@method("permute")
def t_permute(interp, t, *dims):
    return T.permute(t, _shape_args(dims))


@method("transpose", "swapaxes")
def t_transpose(interp, t, *a):
    if t.kind == "numpy":
        if not a:
            return T.permute(t, list(reversed(range(t.rank))))
        return T.permute(t, _shape_args(a))
    return T.transpose(t, a[0], a[1])


@method("expand")
def t_expand(interp, t, *shape):
    return T.expand(t, _shape_args(shape))


@method("flatten")
def t_flatten(interp, t, start_dim=0, end_dim=-1):
    r = t.rank
    if r == 0:
        return T.reshape(t, [1])
    s, e = start_dim % r, end_dim % r
    shape = t.shape[:s] + [T.prod(t.shape[s: e + 1])] + t.shape[e + 1:]
    return T.reshape(t, shape)


@method("ravel")
def t_ravel(interp, t):
    return T.reshape(t, [-1])


@method("to", "type")
def t_to(interp, t, *args, **kwargs):
    for a in list(args) + list(kwargs.values()):
        if isinstance(a, DType):
            return T.to_dtype(t, a.kind)
        if isinstance(a, STensor):
            return T.to_dtype(t, a.dtype)
    return t


@method("astype")
def t_astype(interp, t, dtype, copy=True):
    k = _kind_of_dtype(dtype)
    r = T.to_dtype(t, k)
    return T.clone(r) if r is t else r


@method("float", "double", "half")
def t_float(interp, t):
    return T.to_dtype(t, FLOAT)


@method("int", "long")
def t_int(interp, t):
    return T.to_dtype(t, INT)


@method("bool")
def t_bool(interp, t):
    return T.to_dtype(t, BOOL)


@method("clone", "copy")
def t_clone(interp, t):
    return T.clone(t)


@method("detach", "cpu", "cuda", "contiguous", "requires_grad_", "pin_memory")
def t_identity(interp, t, *a, **k):
    return t


@method("numpy")
def t_numpy(interp, t):
    v = T.reshape(t, list(t.shape))
    v.kind = "numpy"
    return v


@method("sum")
def t_sum(interp, t, dim=None, keepdim=False, axis=None, keepdims=None, dtype=None):
    if axis is not None:
        dim = axis
    if keepdims is not None:
        keepdim = keepdims
    return T.tsum(t, dim, keepdim)


@method("mean")
def t_mean(interp, t, dim=None, keepdim=False, axis=None):
    return torch_mean(interp, t, dim if axis is None else axis, keepdim)


@method("max")
def t_max(interp, t, dim=None, keepdim=False, axis=None):
    if t.kind == "numpy":
        d = axis if axis is not None else dim
        if d is None:
            return _full_reduce(t, "max").at([])
        return T.targreduce(t, d, keepdim, "max")[0]
    return torch_max(interp, t, dim, keepdim, axis)


@method("min")
def t_min(interp, t, dim=None, keepdim=False, axis=None):
    if t.kind == "numpy":
        d = axis if axis is not None else dim
        if d is None:
            return _full_reduce(t, "min").at([])
        return T.targreduce(t, d, keepdim, "min")[0]
    return torch_min(interp, t, dim, keepdim, axis)


@method("argmax")
def t_argmax(interp, t, dim=None, keepdim=False, axis=None):
    return torch_argmax(interp, t, dim if axis is None else axis, keepdim)


@method("argmin")
def t_argmin(interp, t, dim=None, keepdim=False, axis=None):
    return torch_argmin(interp, t, dim if axis is None else axis, keepdim)


@method("any")
def t_any(interp, t, dim=None, keepdim=False, axis=None):
    r = T.tany(_boolify(t), dim if axis is None else axis, keepdim)
    if t.kind == "numpy" and r.rank == 0:
        return r.at([])
    return r


@method("all")
def t_all(interp, t, dim=None, keepdim=False, axis=None):
    r = T.tall(_boolify(t), dim if axis is None else axis, keepdim)
    if t.kind == "numpy" and r.rank == 0:
        return r.at([])
    return r


@method("size")
def t_size(interp, t, dim=None):
    if dim is None:
        return tuple(t.shape)
    return t.shape[dim]


@method("dim", "ndimension")
def t_dim(interp, t):
    return t.rank


@method("numel", "nelement")
def t_numel(interp, t):
    return T.prod(t.shape)


@method("item")
def t_item(interp, t):
    n = T.prod(t.shape)
    if isinstance(n, int) and n != 1:
        raise PyExc("RuntimeError" if t.kind == "torch" else "ValueError", ("a Tensor with %d elements cannot be converted to Scalar" % n,))
    if not isinstance(n, int):
        interp.path.require(V.i_eq(n, 1), "RuntimeError", "a Tensor with several elements cannot be converted to Scalar")
    return t.at([0] * t.rank)


@method("tolist")
def t_tolist(interp, t):
    if not all(T.conc(d) for d in t.shape):
        raise Unsupported("tolist() on tensor of symbolic shape")
    return t.tolist()


@method("square")
def t_square(interp, t):
    return T.tbinop("mul", t, t)


@method("abs")
def t_abs(interp, t):
    return torch_abs(interp, t)


@method("sqrt")
def t_sqrt(interp, t):
    return LIB["torch.sqrt"](interp, t)


@method("exp")
def t_exp(interp, t):
    return LIB["torch.exp"](interp, t)


@method("isnan")
def t_isnan(interp, t):
    return LIB["torch.isnan"](interp, t)


@method("nan_to_num")
def t_nan_to_num(interp, t, nan=0.0, posinf=None, neginf=None):
    return torch_nan_to_num(interp, t, nan, posinf, neginf)


@method("clamp", "clip")
def t_clamp(interp, t, min=None, max=None):
    return torch_clamp(interp, t, min, max)


@method("round")
def t_round(interp, t, decimals=0):
    return torch_round(interp, t, decimals)


@method("norm")
def t_norm(interp, t, p=2, dim=None, keepdim=False):
    return torch_norm(interp, t, p, dim, keepdim)


@method("topk")
def t_topk(interp, t, k, dim=-1, largest=True, sorted=True):
    return torch_topk(interp, t, k, dim, largest, sorted)


@method("nonzero")
def t_nonzero(interp, t, as_tuple=False):
    if t.kind == "numpy":
        as_tuple = True
    return torch_nonzero(interp, t, as_tuple)


@method("fill_")
def t_fill_(interp, t, v):
    vv = T.cast_scalar(v.at([0] * v.rank) if isinstance(v, STensor) else v, t.dtype)
    t.write(lambda idx, old: vv)
    return t


@method("copy_")
def t_copy_(interp, t, src):
    vr = T.breader(_t(src), t.rank)
    dt = t.dtype
    t.write(lambda idx, old: T.cast_scalar(vr(idx), dt))
    return t


@method("repeat")
def t_repeat(interp, t, *reps):
    reps = _shape_args(reps)
    if len(reps) < t.rank:
        raise PyExc("RuntimeError", ("Number of dimensions of repeat dims can not be smaller than number of dimensions of tensor",))
    off = len(reps) - t.rank
    sh = [1] * off + list(t.shape)
    out_shape = [V.i_mul(r, d) for r, d in zip(reps, sh)]
    src = t.reader()

    def fn(idx):
        sub = []
        for k in range(off, len(reps)):
            d = sh[k]
            sub.append(V.i_mod(idx[k], d) if not (isinstance(reps[k], int) and reps[k] == 1) else idx[k])
        return src(sub)

    return STensor(out_shape, t.dtype, fn=fn, kind=t.kind)


@method("__len__")
def t_len(interp, t):
    return t.shape[0]


@method("is_floating_point")
def t_is_floating_point(interp, t):
    return t.dtype == FLOAT


@method("element_size")
def t_element_size(interp, t):
    return 4


def _attr(name):
    def deco(f):
        TATTRS[name] = f
        return f

    return deco


@_attr("shape")
def a_shape(interp, t):
    return tuple(t.shape)


@_attr("ndim")
def a_ndim(interp, t):
    return t.rank


@_attr("dtype")
def a_dtype(interp, t):
    return {FLOAT: CONST["torch.float32"], INT: CONST["torch.int64"], BOOL: CONST["torch.bool"]}[t.dtype]


@_attr("device")
def a_device(interp, t):
    return Device()


@_attr("T")
def a_T(interp, t):
    return T.permute(t, list(reversed(range(t.rank))))


@_attr("is_nested")
def a_is_nested(interp, t):
    return False


@_attr("is_cuda")
def a_is_cuda(interp, t):
    return False


@_attr("requires_grad")
def a_requires_grad(interp, t):
    return False


@_attr("values")
def a_values(interp, t):
    raise Unsupported("tensor.values")


# nested tensors: a list of per-sample tensors -----------------------------------------


class NestedTensor(list):
    __pyvc_native__ = True

    def __pyvc_getattr__(self, interp, name):
        if name in ("to", "cpu", "detach"):
            return lambda *a, **k: self
        if name == "unbind":
            return lambda *a, **k: list(self)
        if name == "is_nested":
            return True
        if name == "device":
            return Device()
        if name == "dtype":
            return CONST["torch.float32"]
        if name == "size":
            def _size(dim=None):
                if dim in (0, None):
                    return len(self) if dim == 0 else (len(self),)
                raise Unsupported("NestedTensor.size(%r)" % (dim,))
            return _size
        raise Unsupported("NestedTensor.%s" % name)


@lib("torch.nested.nested_tensor", "torch.nested.as_nested_tensor")
def torch_nested(interp, ts, **kw):
    return NestedTensor(interp.iterate_concrete(ts))


@lib("torch.device")
def torch_device(interp, *a):
    return Device()


@lib("torch.cuda.is_available")
def torch_cuda_avail(interp):
    return False


@lib("torch.backends.mps.is_available")
def torch_mps_avail(interp):
    return False


class _NoGrad:
    __pyvc_native__ = True

    def __call__(self, f=None):
        return f if f is not None else self


@lib("torch.no_grad", "torch.inference_mode")
def torch_no_grad(interp, *a):
    if a:
        return a[0]
    return _NoGrad()


# torch.nn.functional ------------------------------------------------------------------


@lib("torch.nn.functional.pad")
def F_pad(interp, x, pad, mode="constant", value=None):
    """Docs: pad is (left, right, top, bottom, ...) starting from the last dimension;
    constant mode fills with `value` (default 0)."""
    if mode != "constant":
        raise Unsupported("F.pad mode %s" % mode)
    pad = _shape_args([pad])
    if len(pad) % 2 or len(pad) // 2 > x.rank:
        raise PyExc("RuntimeError", ("Padding length must be divisible by 2",))
    fill = 0.0 if value is None else value
    lo = [0] * x.rank
    hi = [0] * x.rank
    for j in range(len(pad) // 2):
        d = x.rank - 1 - j
        lo[d] = pad[2 * j]
        hi[d] = pad[2 * j + 1]
    for v in lo + hi:
        if isinstance(v, int):
            if v < 0:
                raise Unsupported("negative padding")
        else:
            interp.path.require(V.i_le(0, v), "RuntimeError", "negative padding (narrowing) is not modelled")
    shape = [V.simplify_scalar(V.i_add(V.i_add(d, a), b)) for d, a, b in zip(x.shape, lo, hi)]
    src = x.reader()
    fillv = T.cast_scalar(fill, x.dtype)

    def fn(idx):
        inside = []
        sub = []
        for k in range(x.rank):
            j = V.i_sub(idx[k], lo[k])
            sub.append(j)
            if not (isinstance(lo[k], int) and lo[k] == 0):
                inside.append(V.i_le(0, j))
            if not (isinstance(hi[k], int) and hi[k] == 0):
                inside.append(V.i_lt(j, x.shape[k]))
        c = V.b_and(*inside)
        if c is True:
            return src(sub)
        if c is False:
            return fillv
        return V.ite(c, src(sub), fillv)

    out = STensor(shape, x.dtype, fn=fn, kind=x.kind)
    out.pad_of = (x, lo, hi)
    return out


# torchvision ---------------------------------------------------------------------------

_RESIZE_V = {}


@lib("torchvision.transforms.v2.functional.resize", "torchvision.transforms.functional.resize")
def tv_resize(interp, img, size, interpolation=None, max_size=None, antialias=True):
    """Trusted contract: output shape (..., size[0], size[1]); pixel values are an
    uninterpreted (finite) function of the input -- the documented sampling map
    src = (dst + 0.5) * in/out - 0.5 is used only in the registration lemma of C04."""
    if isinstance(size, (int,)) or V.is_int_kind(size):
        raise Unsupported("resize with a single int size (keeps aspect ratio)")
    h, w = [x.at([0] * x.rank) if isinstance(x, STensor) else x for x in interp.iterate_concrete(size)]
    if img.rank < 2:
        raise PyExc("TypeError", ("resize expects an image tensor",))
    interp.path.require(V.b_and(V.i_le(1, h), V.i_le(1, w)), "RuntimeError", "Input and output sizes should be greater than 0")
    shape = list(img.shape[:-2]) + [h, w]
    if all(isinstance(d, int) for d in shape) and all(isinstance(d, int) for d in img.shape) and img.is_concrete():
        # concrete (cross-check / replay) mode: the real library computes the pixels
        try:
            import torch
            import torchvision.transforms.v2.functional as tvf
        except Exception:
            raise Unsupported("resize of a concrete image needs torchvision (replay side only)")
        import itertools as _it

        rd = img.reader()
        flat = [rd(list(ix)) for ix in _it.product(*[range(d) for d in img.shape])]
        res = tvf.resize(torch.tensor(flat, dtype=torch.float32).reshape(img.shape), size=[h, w])
        return T.from_flat(list(res.shape), res.reshape(-1).tolist(), FLOAT, kind=img.kind)
    r = len(shape)
    # resize is a function: resizing the same tensor (same storage version) to the same size
    # twice gives the same pixels
    cache = interp.path.ghosts.setdefault("resize_fns", {})
    key = (id(img.owner()), id(img), getattr(img.owner(), "version", 0), T._key([h, w]))
    if key in cache:
        f = cache[key][0]
    else:
        f = z3.Function(V.fresh_name("resized"), *([z3.IntSort()] * r + [z3.RealSort()]))
        cache[key] = (f, img)   # keeps img alive so that ids are not reused
    out = STensor(shape, FLOAT if img.dtype == FLOAT else img.dtype, fn=(lambda idx: V.finite_real(f(*[V.zint(i) for i in idx]))) if img.dtype == FLOAT else (lambda idx: z3.ToInt(f(*[V.zint(i) for i in idx]))), kind=img.kind)
    out.resize_of = (img, img.shape[-2], img.shape[-1], h, w)
    return out


@lib("torch.nn.functional.max_pool2d")
def F_max_pool2d(interp, x, kernel_size, stride=None, padding=0, dilation=1, ceil_mode=False, return_indices=False):
    """Docs: maximum over each kernel window; implicit negative-infinity padding."""
    if dilation != 1 or ceil_mode or return_indices:
        raise Unsupported("max_pool2d options")
    kh, kw = (kernel_size, kernel_size) if isinstance(kernel_size, int) else tuple(kernel_size)
    stride = kernel_size if stride is None else stride
    sh, sw = (stride, stride) if isinstance(stride, int) else tuple(stride)
    ph, pw = (padding, padding) if isinstance(padding, int) else tuple(padding)
    if x.rank not in (3, 4):
        raise PyExc("RuntimeError", ("max_pool2d expects a 3D or 4D input",))
    H, W = x.shape[-2], x.shape[-1]
    oh = V.simplify_scalar(V.i_add(V.i_floordiv(V.i_sub(V.i_add(H, 2 * ph), kh), sh), 1))
    ow = V.simplify_scalar(V.i_add(V.i_floordiv(V.i_sub(V.i_add(W, 2 * pw), kw), sw), 1))
    src = x.reader()
    ninf = float("-inf")

    def fn(idx):
        lead, i, j = idx[:-2], idx[-2], idx[-1]
        acc = None
        for u in range(kh):
            for v in range(kw):
                ii = V.i_add(V.i_mul(i, sh), u - ph)
                jj = V.i_add(V.i_mul(j, sw), v - pw)
                inb = V.b_and(V.i_le(0, ii), V.i_lt(ii, H), V.i_le(0, jj), V.i_lt(jj, W))
                val = src(lead + [ii, jj]) if inb is True else (ninf if inb is False else V.f_ite(V.zbool(inb), src(lead + [ii, jj]), ninf))
                acc = val if acc is None else V.f_max(acc, val)
        return acc

    return STensor(list(x.shape[:-2]) + [oh, ow], FLOAT, fn=fn, kind=x.kind)


# ---------------------------------------------------------------------------------------
# small-index utilities used by the PAF grouping code (bounded contracts: concrete lengths)

@lib("torch.argsort")
def torch_argsort(interp, t, dim=-1, descending=False, stable=False):
    """Trusted contract (torch docs): a permutation sorting ascending; the relative order of
    equal elements is unspecified unless stable=True (explored by path forks)."""
    from .lib_numpy import np_argsort

    if descending:
        raise Unsupported("torch.argsort(descending=True)")
    if t.rank != 1:
        raise Unsupported("torch.argsort on rank-%d tensor" % t.rank)
    r = np_argsort(interp, t, kind="stable" if stable else None)
    r = T.reshape(r, list(r.shape))
    r.kind = "torch"
    return r


@method("argsort")
def t_argsort(interp, t, dim=-1, descending=False, stable=False):
    return torch_argsort(interp, t, dim, descending, stable)


@lib("torch.gather")
def torch_gather(interp, t, dim, index):
    if t.rank != 1 or index.rank != 1:
        raise Unsupported("torch.gather on rank-%d tensor" % t.rank)
    rd, ir = t.reader(), index.reader()
    n = t.shape[0]

    def fn(idx):
        j = ir([idx[0]])
        if not isinstance(j, int):
            interp.path.require(V.b_and(V.i_le(0, j), V.i_lt(j, n)), "RuntimeError", "index out of bounds")
        elif not (0 <= j < n if isinstance(n, int) else True):
            raise PyExc("RuntimeError", ("index %d is out of bounds for dimension 0 with size %s" % (j, n),))
        return rd([j])

    return T.from_fn([index.shape[0]], t.dtype, fn)


@lib("torch.unique", "numpy.unique")
def torch_unique(interp, t, sorted=True, return_inverse=False, return_counts=False, dim=None, axis=None, return_index=False):
    """Sorted distinct values of a vector of concrete length (docs: numpy.unique / torch.unique):
    optionally the index of the FIRST occurrence of each (numpy `return_index`), the inverse
    mapping and the counts.  Symbolic values are ordered / compared by path forks."""
    is_np = not isinstance(t, STensor) or t.kind == "numpy"
    if not isinstance(t, STensor):
        t = T.from_nested(list(t), INT) if len(t) else T.from_flat([0], [], INT)
    flat = T.reshape(t, [-1])
    n = flat.shape[0]
    if not isinstance(n, int):
        raise Unsupported("unique() of a symbolic-length tensor")
    if return_index and not is_np:
        raise PyExc("TypeError", ("unique() got an unexpected keyword argument 'return_index'",))
    rd = flat.reader()
    vals = [rd([i]) for i in range(n)]
    kind = "numpy" if is_np else "torch"
    if all(isinstance(v, (int, float)) and not isinstance(v, bool) for v in vals):
        order = builtins_sorted(range(n), key=lambda i: vals[i])
        same = lambda a, b: vals[a] == vals[b]
    else:
        if n > 6:
            raise Unsupported("unique() of %d symbolic values" % n)
        from .lib_numpy import np_argsort

        orr = np_argsort(interp, flat, kind="stable").reader()
        order = [orr([i]) for i in range(n)]
        eq = V.f_eq if flat.dtype == FLOAT else V.i_eq
        same = lambda a, b: interp.truth(eq(vals[a], vals[b]))
    groups = []            # lists of original indices with equal values, ascending by value
    for i in order:
        if groups and same(groups[-1][0], i):
            groups[-1].append(i)
        else:
            groups.append([i])
    out = T.from_flat([len(groups)], [vals[g[0]] for g in groups], flat.dtype, kind=kind)
    if not (return_inverse or return_counts or return_index):
        return out
    res = [out]
    if return_index:
        res.append(T.from_flat([len(groups)], [min(g) for g in groups], INT, kind=kind))
    if return_inverse:
        inv = [0] * n
        for gi, g in enumerate(groups):
            for i in g:
                inv[i] = gi
        res.append(T.from_flat([n], inv, INT, kind=kind))
    if return_counts:
        res.append(T.from_flat([len(groups)], [len(g) for g in groups], INT, kind=kind))
    return tuple(res)


def builtins_sorted(it, key=None):
    import builtins

    return builtins.sorted(it, key=key)


@method("unique")
def t_unique(interp, t, sorted=True, return_inverse=False, return_counts=False, dim=None):
    return torch_unique(interp, t, sorted, return_inverse, return_counts, dim)



@lib("torchvision.transforms.v2.functional.rgb_to_grayscale", "torchvision.transforms.functional.rgb_to_grayscale")
def tv_rgb_to_grayscale(interp, img, num_output_channels=1):
    """torchvision docs: L = 0.2989 R + 0.587 G + 0.114 B on the channel axis (-3); a
    single-channel input is returned as is (replicated when 3 output channels are asked)."""
    if img.rank < 3:
        raise PyExc("TypeError", ("Input image tensor should have at least 3 dimensions",))
    ch = img.shape[-3]
    if num_output_channels not in (1, 3):
        raise PyExc("ValueError", ("num_output_channels should be either 1 or 3",))
    if not isinstance(ch, int) or ch not in (1, 3):
        raise Unsupported("rgb_to_grayscale on %s channels" % (ch,))
    rd = img.reader()
    k = img.rank - 3

    def fn(idx):
        idx = list(idx)
        if ch == 1:
            return T.cast_scalar(rd(idx[:k] + [0] + idx[k + 1:]), FLOAT)
        r_, g_, b_ = [T.cast_scalar(rd(idx[:k] + [c_] + idx[k + 1:]), FLOAT) for c_ in range(3)]
        return V.f_add(V.f_add(V.f_mul(0.2989, r_), V.f_mul(0.587, g_)), V.f_mul(0.114, b_))

    shape = list(img.shape)
    shape[k] = num_output_channels
    return T.from_fn(shape, FLOAT, fn, kind=img.kind)


# ---------------------------------------------------------------------------------------
# torch.nn layers: SHAPE contracts (C14).  A layer object checks what the real layer checks
# about its input (rank, channel count) and returns a tensor of the documented output shape
# whose elements are unspecified finite values (a fresh function per call): nothing about the
# values is claimed.  Formulas: torch.nn documentation of each layer.

class NNLayer:
    __pyvc_native__ = True
    training = False

    def __pyvc_getattr__(self, interp, name):
        if name in ("eval", "train", "to", "cpu", "cuda", "float", "requires_grad_"):
            return lambda *a, **k: self
        if name in ("children", "modules"):
            return lambda: list(getattr(self, "_children", []))
        if name == "parameters":
            return lambda: []
        try:
            return object.__getattribute__(self, name)
        except AttributeError as e:
            raise PyExc("AttributeError", e.args)

    def _out(self, shape, like):
        nm = V.fresh_name("layer")
        r = len(shape)
        f = z3.Function(nm, *([z3.IntSort()] * r + [z3.RealSort()]))
        return STensor(list(shape), FLOAT, fn=lambda idx: V.finite_real(f(*[V.zint(i) for i in idx])), kind="torch")


def _pair(v):
    if isinstance(v, (tuple, list)):
        return tuple(v)
    return (v, v)


def _need_channels(interp, x, n, what):
    if not isinstance(x, STensor) or x.rank not in (3, 4):
        raise PyExc("RuntimeError", ("Expected 3D (unbatched) or 4D (batched) input to %s" % what,))
    ch = x.shape[-3]
    e = T.dims_equal(ch, n)
    if e is False:
        raise PyExc("RuntimeError", ("%s: expected input with %s channels, but got %s channels instead" % (what, n, ch),))
    if e is None:
        interp.path.require(V.i_eq(ch, n), "RuntimeError", "%s: channel mismatch" % what)


class Conv2dLayer(NNLayer):
    def __init__(self, interp, in_channels, out_channels, kernel_size, stride=1, padding=0, dilation=1, groups=1, bias=True, padding_mode="zeros", device=None, dtype=None):
        self.interp = interp
        self.in_channels, self.out_channels = in_channels, out_channels
        self.kernel_size, self.stride, self.dilation = _pair(kernel_size), _pair(stride), _pair(dilation)
        self.padding = padding
        if groups != 1:
            raise Unsupported("grouped convolution")
        if not (isinstance(in_channels, int) and isinstance(out_channels, int) and in_channels > 0 and out_channels > 0):
            raise PyExc("ValueError" if isinstance(in_channels, int) and isinstance(out_channels, int) else "TypeError", ("in_channels / out_channels must be positive integers",))
        if padding == "same" and self.stride != (1, 1):
            raise PyExc("ValueError", ("padding='same' is not supported for strided convolutions",))

    def __call__(self, x):
        _need_channels(self.interp, x, self.in_channels, "conv2d")
        H, W = x.shape[-2], x.shape[-1]
        if self.padding == "same":
            oh, ow = H, W
        else:
            ph, pw = _pair(0 if self.padding == "valid" else self.padding)
            dims = []
            for d, p, k, s, dl in ((H, ph, self.kernel_size[0], self.stride[0], self.dilation[0]), (W, pw, self.kernel_size[1], self.stride[1], self.dilation[1])):
                num = V.i_sub(V.i_add(d, 2 * p), dl * (k - 1) + 1)
                self.interp.path.require(V.i_le(0, num), "RuntimeError", "Kernel size can't be greater than actual input size")
                dims.append(V.simplify_scalar(V.i_add(V.i_floordiv(num, s), 1)))
            oh, ow = dims
        return self._out(list(x.shape[:-3]) + [self.out_channels, oh, ow], x)


class ConvTranspose2dLayer(NNLayer):
    def __init__(self, interp, in_channels, out_channels, kernel_size, stride=1, padding=0, output_padding=0, groups=1, bias=True, dilation=1, padding_mode="zeros", device=None, dtype=None):
        self.interp = interp
        self.in_channels, self.out_channels = in_channels, out_channels
        self.kernel_size, self.stride, self.padding, self.output_padding, self.dilation = _pair(kernel_size), _pair(stride), _pair(padding), _pair(output_padding), _pair(dilation)
        if not (isinstance(in_channels, int) and isinstance(out_channels, int) and in_channels > 0 and out_channels > 0):
            raise PyExc("TypeError", ("in_channels / out_channels must be positive integers",))

    def __call__(self, x):
        _need_channels(self.interp, x, self.in_channels, "conv_transpose2d")
        dims = []
        for d, k, s, p, op, dl in zip((x.shape[-2], x.shape[-1]), self.kernel_size, self.stride, self.padding, self.output_padding, self.dilation):
            dims.append(V.simplify_scalar(V.i_add(V.i_sub(V.i_mul(V.i_sub(d, 1), s), 2 * p), dl * (k - 1) + op + 1)))
        return self._out(list(x.shape[:-3]) + [self.out_channels] + dims, x)


class BatchNorm2dLayer(NNLayer):
    def __init__(self, interp, num_features, eps=1e-5, momentum=0.1, affine=True, track_running_stats=True, device=None, dtype=None):
        self.interp, self.num_features = interp, num_features

    def __call__(self, x):
        if not isinstance(x, STensor) or x.rank != 4:
            raise PyExc("ValueError", ("expected 4D input",))
        _need_channels(self.interp, x, self.num_features, "batch_norm")
        return self._out(list(x.shape), x)


class PointwiseLayer(NNLayer):
    def __init__(self, interp, *a, **k):
        self.interp = interp

    def __call__(self, x):
        return self._out(list(x.shape), x)


class IdentityLayer(NNLayer):
    def __init__(self, interp, *a, **k):
        self.interp = interp

    def __call__(self, x):
        return x


class UpsampleLayer(NNLayer):
    def __init__(self, interp, size=None, scale_factor=None, mode="nearest", align_corners=None, recompute_scale_factor=None):
        self.interp, self.size, self.scale_factor, self.mode = interp, size, scale_factor, mode
        if size is not None or scale_factor is None:
            raise Unsupported("nn.Upsample with an explicit size")

    def __call__(self, x):
        if not isinstance(x, STensor) or x.rank != 4:
            raise PyExc("ValueError", ("Upsample(mode=%r) expects a 4D input" % self.mode,))
        sh, sw = _pair(self.scale_factor)
        dims = []
        for d, s in ((x.shape[-2], sh), (x.shape[-1], sw)):
            if isinstance(s, float) and s == int(s):
                s = int(s)
            if not isinstance(s, int):
                raise Unsupported("non-integer upsampling factor")
            dims.append(V.simplify_scalar(V.i_mul(d, s)))      # floor(d * s) for an integer factor
        return self._out(list(x.shape[:-2]) + dims, x)


class SequentialLayer(NNLayer):
    def __init__(self, interp, *layers):
        self.interp = interp
        if len(layers) == 1 and isinstance(layers[0], dict):
            layers = list(layers[0].values())
        self.layers = list(layers)
        self._children = self.layers

    def __call__(self, x):
        for l in self.layers:
            x = self.interp.call(l, [x], {})
        return x

    def __pyvc_iter__(self, interp):
        return list(self.layers)

    def __pyvc_len__(self, interp):
        return len(self.layers)

    def __pyvc_getitem__(self, interp, i):
        return self.layers[i] if isinstance(i, int) else SequentialLayer(interp, *self.layers[i])


class ModuleListLayer(NNLayer):
    def __init__(self, interp, modules=None):
        self.interp = interp
        self.layers = list(modules) if modules is not None else []
        self._children = self.layers

    def __pyvc_getattr__(self, interp, name):
        if name == "append":
            return lambda m: (self.layers.append(m), self)[1]
        if name == "extend":
            return lambda ms: (self.layers.extend(list(ms)), self)[1]
        if name == "insert":
            return lambda i, m: self.layers.insert(i, m)
        return NNLayer.__pyvc_getattr__(self, interp, name)

    def __pyvc_iter__(self, interp):
        return list(self.layers)

    def __pyvc_len__(self, interp):
        return len(self.layers)

    def __pyvc_getitem__(self, interp, i):
        if isinstance(i, int):
            try:
                return self.layers[i]
            except IndexError as e:
                raise PyExc("IndexError", e.args)
        return ModuleListLayer(interp, self.layers[i])


def _reg_layer(names, cls):
    def ctor(interp, *a, **k):
        return cls(interp, *a, **k)

    for n in names:
        LIB[n] = ctor


_reg_layer(["torch.nn.Conv2d"], Conv2dLayer)
_reg_layer(["torch.nn.ConvTranspose2d"], ConvTranspose2dLayer)
_reg_layer(["torch.nn.BatchNorm2d"], BatchNorm2dLayer)
_reg_layer(["torch.nn.ReLU", "torch.nn.Sigmoid", "torch.nn.Tanh", "torch.nn.Softmax", "torch.nn.GELU", "torch.nn.LeakyReLU", "torch.nn.Dropout"], PointwiseLayer)
_reg_layer(["torch.nn.Identity"], IdentityLayer)
_reg_layer(["torch.nn.Upsample"], UpsampleLayer)
_reg_layer(["torch.nn.Sequential"], SequentialLayer)
_reg_layer(["torch.nn.ModuleList"], ModuleListLayer)


@lib("torch.nn.MaxPool2d.__init__")
def nn_maxpool2d_init(interp, obj, kernel_size, stride=None, padding=0, dilation=1, return_indices=False, ceil_mode=False):
    obj.attrs.update(kernel_size=kernel_size, stride=(stride if stride is not None else kernel_size), padding=padding, dilation=dilation,
                     return_indices=return_indices, ceil_mode=ceil_mode)


@lib("torch.nn.Module.__init__")
def nn_module_init(interp, obj, *a, **k):
    obj.attrs.setdefault("training", True)


@lib("torch.nn.Module.eval")
def nn_module_eval(interp, obj):
    obj.attrs["training"] = False
    return obj


@lib("torch.ceil", "numpy.ceil")
def torch_ceil(interp, x):
    """ceil(x) = -floor(-x); NaN / inf pass through."""
    if not isinstance(x, STensor):
        return V.f_neg(V.f_floor(V.f_neg(x)))
    if x.dtype != FLOAT:
        return x
    return T.tunary(lambda v: V.f_neg(V.f_floor(V.f_neg(v))), x)


@lib("torch.floor", "numpy.floor")
def torch_floor(interp, x):
    if not isinstance(x, STensor):
        return V.f_floor(x)
    if x.dtype != FLOAT:
        return x
    return T.tunary(V.f_floor, x)


@lib("torch.index_select")
def torch_index_select(interp, t, dim, index):
    """out[..., i, ...] = t[..., index[i], ...] along `dim`; an out-of-range index raises."""
    dim = dim % t.rank
    if index.rank != 1:
        raise PyExc("IndexError", ("index_select(): Index is supposed to be a vector",))
    rd, ir = t.reader(), index.reader()
    n = t.shape[dim]
    L = index.shape[0]
    if isinstance(L, int):
        for i in range(L):
            j = ir([i])
            if isinstance(j, int):
                if not (isinstance(n, int) and 0 <= j < n) and isinstance(n, int):
                    raise PyExc("IndexError", ("index out of range in self",))
            else:
                interp.path.require(V.b_and(V.i_le(0, j), V.i_lt(j, n)), "IndexError", "index out of range in self")
    else:
        q = z3.Int(V.fresh_name("isel"))
        ok = z3.ForAll([q], V.zbool(V.b_implies(V.b_and(q >= 0, V.i_lt(q, L)), V.b_and(V.i_le(0, ir([q])), V.i_lt(ir([q]), n)))))
        interp.path.require(ok, "IndexError", "index out of range in self")
    shape = list(t.shape)
    shape[dim] = L
    return T.from_fn(shape, t.dtype, lambda idx: rd(list(idx[:dim]) + [ir([idx[dim]])] + list(idx[dim + 1:])), kind=t.kind)


@method("masked_fill")
def t_masked_fill(interp, t, mask, value):
    """Docs: out-of-place; elements where mask (broadcast to t's shape) is True are replaced by value."""
    if isinstance(value, STensor):
        value = value.at([0] * value.rank)
    return T.where3(_boolify(mask), T.cast_scalar(value, t.dtype), t)
