"""./check <Cnn> [--tier quick|thorough] [--replay file]

Exit codes: 0 property held on everything explored; 1 VIOLATION (line on stdout);
2 undecided (unsupported construct, solver unknown); 3 checker broken (vacuity, obligation
count below baseline, interpreter/CPython disagreement, internal error).
"""
from __future__ import annotations

import argparse
import hashlib
import itertools
import json
import multiprocessing as mp
import os
import re
import subprocess
import sys
import time

VERIF = os.path.dirname(os.path.dirname(os.path.abspath(__file__)))
REPO = os.environ.get("PYVC_REPO", "/repo")
VENV_PY = "/venv/bin/python"


def _load():
    from .main import load_contracts

    load_contracts()


def _verify_task(args):
    (target, dim_override, observed, inline, timeout_ms) = args[:5]
    cases = args[5] if len(args) > 5 else None
    from .contracts import REGISTRY, verify_contract
    from .loader import Loader

    _load()
    loader = Loader(REPO)
    con = REGISTRY.get(target)
    rep = verify_contract(loader, REGISTRY, con, dim_override=dim_override, observed=observed, inline=inline, timeout_ms=timeout_ms, cases=cases)
    rep.files = dict(loader.files_read)
    return rep


def sanitize(name):
    return re.sub(r"[^A-Za-z0-9_.\-\[\]]+", "_", name)[:180]


def write_replay(prop, ob, rep, extra=None):
    d = os.path.join(VERIF, "replays", prop)
    os.makedirs(d, exist_ok=True)
    path = os.path.join(d, sanitize(ob.name) + ".json")
    rec = {
        "property": prop,
        "target": rep.target,
        "case": getattr(ob, "case", None),
        "obligation": ob.name,
        "status": ob.status,
        "backend": ob.backend,
        "solver_output": ob.detail or ("z3: sat (counter-model)" if ob.status == "failed" else ob.status),
        "path_decisions": getattr(ob, "path", None),
        "inputs": getattr(ob, "inputs", None),
    }
    if extra:
        rec.update(extra)
    with open(path, "w") as f:
        json.dump(rec, f, indent=1, default=str)
    return path


def run_replay(path):
    env = dict(os.environ)
    env["PYTHONPATH"] = os.path.join(VERIF, ".build", "py312") + ":" + VERIF
    try:
        p = subprocess.run([VENV_PY, "-W", "ignore", "-m", "pyvc.concrete", "replay", path], cwd=VERIF, env=env, capture_output=True, text=True, timeout=600)
    except subprocess.TimeoutExpired:
        return 2, "replay timed out"
    out = "\n".join(l for l in (p.stdout or "").splitlines() if l.startswith("REPLAY"))
    if p.returncode == 2:
        out += "\n" + (p.stderr or "")[-1500:]
    return p.returncode, out


def replayable(ob):
    from .contracts import REGISTRY

    tgt = ob.name.split("/", 1)[0].split("[", 1)[0]
    con = REGISTRY.get(tgt)
    if con is not None and getattr(con, "no_replay", False):
        return False
    inp = getattr(ob, "inputs", None)
    if not inp or "error" in inp:
        return False
    for v in inp.values():
        if isinstance(v, dict) and v.get("too_large"):
            return False
    return True


def dim_assignments(con, limit):
    names = list(con.dims)
    if not names:
        return
    ranges = []
    for n in names:
        lo, hi = con.dim_ranges.get(n, (0, 2))
        ranges.append(list(range(lo, hi + 1)))
    combos = list(itertools.product(*ranges))
    combos.sort(key=lambda c: (sum(c), c))
    for c in combos[:limit]:
        yield dict(zip(names, c))


def known_findings():
    path = os.path.join(VERIF, "known_findings.txt")
    out = []
    if os.path.isfile(path):
        for line in open(path):
            line = line.strip()
            if line.startswith("finding:"):
                kv = dict(re.findall(r"(\w+)=(\S+)", line))
                kv["text"] = line
                out.append(kv)
    return out


def main(argv=None):
    ap = argparse.ArgumentParser()
    ap.add_argument("prop")
    ap.add_argument("--tier", default=os.environ.get("VERIF_TIER", "quick"))
    ap.add_argument("--replay")
    ap.add_argument("--jobs", type=int, default=min(16, os.cpu_count() or 4))
    ap.add_argument("--no-crosscheck", action="store_true")
    ap.add_argument("--update-baseline", action="store_true")
    a = ap.parse_args(argv)
    if a.replay:
        rec = json.load(open(a.replay))
        if rec.get("custom") == "c17":
            env = dict(os.environ)
            env["PYTHONPATH"] = os.path.join(VERIF, ".build", "py312") + ":" + VERIF
            code = ("import sys, json; from pyvc.bounded_c17 import run_real, post_ok; "
                    "e=[tuple(x) for x in json.load(open(sys.argv[1]))['inputs']['edges']]; n,b=run_real([e]); print('REPLAY:', 'CONFIRMED' if b else 'not confirmed', b); sys.exit(0 if b else 1)")
            p = subprocess.run([VENV_PY, "-W", "ignore", "-c", code, a.replay], cwd=VERIF, env=env, capture_output=True, text=True)
            print(p.stdout[-500:])
            return 0 if p.returncode == 0 else 1
        rc, out = run_replay(a.replay)
        print(out)
        return 0 if rc == 0 else 1
    from .props import run_property, CUSTOM_RUNNERS

    if a.prop in CUSTOM_RUNNERS:
        return CUSTOM_RUNNERS[a.prop](a)
    return run_property(a)


if __name__ == "__main__":
    sys.exit(main())
