"""Front end: reads the real source files of /repo on every run (nothing is cached across
runs, nothing is imported) and resolves names from each module's own import statements."""
from __future__ import annotations

import ast
import hashlib
import os


class Module:
    def __init__(self, name, path, src):
        self.name = name
        self.path = path
        self.src = src
        self.sha256 = hashlib.sha256(src.encode()).hexdigest()
        self.tree = ast.parse(src, filename=path)
        self.functions = {}
        self.classes = {}
        self.imports = {}   # local alias -> dotted name
        self.assigns = {}   # module-level NAME = expr
        self.globals_cache = {}
        self._index()

    def _index(self):
        pkg = self.name.rsplit(".", 1)[0] if "." in self.name else ""
        for node in self.tree.body:
            self._index_stmt(node, pkg)

    def _index_stmt(self, node, pkg):
        if isinstance(node, (ast.FunctionDef, ast.AsyncFunctionDef)):
            self.functions[node.name] = node
        elif isinstance(node, ast.ClassDef):
            self.classes[node.name] = node
        elif isinstance(node, ast.Import):
            for a in node.names:
                if a.asname:
                    self.imports[a.asname] = a.name
                else:
                    top = a.name.split(".")[0]
                    self.imports[top] = top
        elif isinstance(node, ast.ImportFrom):
            mod = node.module or ""
            if node.level:
                parts = self.name.split(".")
                base = parts[: len(parts) - node.level]
                mod = ".".join(base + ([mod] if mod else []))
            for a in node.names:
                self.imports[a.asname or a.name] = (mod + "." + a.name) if mod else a.name
        elif isinstance(node, ast.Assign):
            for t in node.targets:
                if isinstance(t, ast.Name):
                    self.assigns[t.id] = node.value
        elif isinstance(node, ast.AnnAssign):
            if isinstance(node.target, ast.Name) and node.value is not None:
                self.assigns[node.target.id] = node.value
        elif isinstance(node, (ast.If, ast.Try)):
            # e.g. `try: import x except: ...` / TYPE_CHECKING blocks
            for sub in getattr(node, "body", []):
                self._index_stmt(sub, pkg)


class Loader:
    def __init__(self, repo_root="/repo", package="sleap_nn"):
        self.repo_root = repo_root
        self.package = package
        self.modules = {}
        self.files_read = {}

    def module(self, name):
        if name in self.modules:
            return self.modules[name]
        rel = name.replace(".", "/")
        for cand in (rel + ".py", rel + "/__init__.py"):
            path = os.path.join(self.repo_root, cand)
            if os.path.isfile(path):
                with open(path, "r", encoding="utf-8") as f:
                    src = f.read()
                m = Module(name, path, src)
                self.modules[name] = m
                self.files_read[path] = m.sha256
                return m
        return None

    def is_repo_name(self, dotted):
        return dotted == self.package or dotted.startswith(self.package + ".")

    def resolve(self, dotted):
        """Resolve a dotted name inside the repo package to ('function'|'class'|'module'|
        'assign', Module, node) or None."""
        if not self.is_repo_name(dotted):
            return None
        m = self.module(dotted)
        if m is not None:
            return ("module", m, None)
        parts = dotted.split(".")
        for cut in range(len(parts) - 1, 0, -1):
            m = self.module(".".join(parts[:cut]))
            if m is None:
                continue
            rest = parts[cut:]
            name = rest[0]
            if name in m.functions and len(rest) == 1:
                return ("function", m, m.functions[name])
            if name in m.classes:
                if len(rest) == 1:
                    return ("class", m, m.classes[name])
                if len(rest) == 2:
                    for sub in m.classes[name].body:
                        if isinstance(sub, (ast.FunctionDef,)) and sub.name == rest[1]:
                            return ("method", m, (m.classes[name], sub))
                return None
            if name in m.imports and len(rest) >= 1:
                tgt = m.imports[name] + ("." + ".".join(rest[1:]) if len(rest) > 1 else "")
                if tgt != dotted:
                    return self.resolve(tgt) or ("lib", None, tgt)
            if name in m.assigns and len(rest) == 1:
                return ("assign", m, m.assigns[name])
            return None
        return None

    def function_source(self, dotted):
        r = self.resolve(dotted)
        if r is None:
            return None
        kind, m, node = r
        if kind == "function":
            return ast.get_source_segment(m.src, node)
        if kind == "method":
            return ast.get_source_segment(m.src, node[1])
        return None
