"""Ghost state for contracts: fold-sums (abstract Σ) with their defining axioms.

FoldSum(name, n, term): F(0, idx) = 0 and F(k+1, idx) = F(k, idx) + term(k, idx) for
0 <= k < n.  Symbolically F is an uninterpreted function constrained only by these two
axioms (the solver unfolds, it never does induction: inductions are loop invariants or
explicit base/step lemma obligations).  In concrete mode F is computed by summation, so
the same contract text judges a replay.
"""
from __future__ import annotations

import z3

from . import values as V


class FoldSum:
    def __init__(self, name, n, arity, term, concrete=None):
        self.name = name
        self.n = n
        self.arity = arity
        self.term = term          # term(k, idx) -> finite, non-NaN float (proved separately)
        self.concrete = isinstance(n, int) and concrete is not False and concrete is not None
        if concrete is True:
            self.concrete = True
        if not self.concrete:
            self.F = z3.Function(V.fresh_name(name), *([z3.IntSort()] * (1 + arity) + [z3.RealSort()]))
            s = V.sink()
            k = z3.Int(V.fresh_name("fk"))
            idx = [z3.Int(V.fresh_name("fi")) for _ in range(arity)]
            s.add(z3.ForAll(idx, self.F(z3.IntVal(0), *idx) == 0) if idx else self.F(z3.IntVal(0)) == 0)
            t = V.sfloat(term(k, idx))
            s.add(z3.ForAll([k] + idx, z3.Implies(z3.And(k >= 0, V.zbool(V.i_lt(k, n))),
                                                    self.F(k + 1, *idx) == self.F(k, *idx) + t.val),
                            patterns=[self.F(k + 1, *idx)]))

    def at(self, k, idx):
        if self.concrete:
            acc = 0.0
            for m in range(int(k)):
                acc = V.f_add(acc, self.term(m, list(idx)))
            return acc
        return V.finite_real(self.F(V.zint(k), *[V.zint(i) for i in idx]))

    def unfold(self, k, idx):
        """Explicit unfolding fact F(k+1) = F(k) + term(k) at a given k (helps E-matching)."""
        if self.concrete:
            return True
        zi = [V.zint(i) for i in idx]
        t = V.sfloat(self.term(k, list(idx)))
        return V.b_implies(V.b_and(V.i_le(0, k), V.i_lt(k, self.n)), self.F(V.zint(k) + 1, *zi) == self.F(V.zint(k), *zi) + t.val)


def get_ghost(c, key, make):
    g = c.path.ghosts.get(key)
    if g is None:
        g = make()
        c.path.ghosts[key] = g
    return g
