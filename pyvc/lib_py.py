"""Python builtins and stdlib models (math, typing, collections, functools, copy ...)."""
from __future__ import annotations

import ast
import math

import z3

from . import tensor as T, values as V
from .ctx import PyExc, Unsupported
from .tensor import STensor

LIB = {}
CONST = {
    "math.pi": math.pi,
    "math.inf": math.inf,
    "math.nan": math.nan,
    "math.e": math.e,
}


def lib(name):
    def deco(f):
        f.__pyvc_lib__ = True
        LIB[name] = f
        return f

    return deco


def _scalar_of(x):
    """Unwrap single-element tensors to their scalar."""
    if isinstance(x, STensor):
        n = T.prod(x.shape)
        if isinstance(n, int) and n == 1:
            return x.at([0] * x.rank)
        if isinstance(n, int):
            raise PyExc("ValueError" if x.kind == "torch" else "TypeError", ("only one element tensors can be converted to Python scalars",))
        raise Unsupported("scalar conversion of tensor with symbolic size")
    return x


def make_builtins(interp):
    from .interp import BuiltinType, ClassVal, Closure, ExcClass, LibRef, Obj, SymIter, EXC_HIERARCHY, is_sym, BoundMethod

    B = {}
    types = {
        "int": BuiltinType("int", (int,)),
        "float": BuiltinType("float", (float,)),
        "bool": BuiltinType("bool", (bool,)),
        "str": BuiltinType("str", (str,)),
        "list": BuiltinType("list", (list,)),
        "tuple": BuiltinType("tuple", (tuple,)),
        "dict": BuiltinType("dict", (dict,)),
        "set": BuiltinType("set", (set,)),
        "frozenset": BuiltinType("frozenset", (frozenset,)),
        "object": BuiltinType("object", (object,)),
        "type": BuiltinType("type", (type,)),
        "bytes": BuiltinType("bytes", (bytes,)),
        "range": BuiltinType("range", (range,)),
        "slice": BuiltinType("slice", (slice,)),
        "complex": BuiltinType("complex", (complex,)),
    }
    B.update(types)
    for name in list(EXC_HIERARCHY) + ["BaseException", "KeyboardInterrupt", "Warning", "UserWarning", "DeprecationWarning"]:
        B[name] = ExcClass(name)
    B["True"] = True
    B["False"] = False
    B["None"] = None
    B["NotImplemented"] = NotImplemented
    B["Ellipsis"] = Ellipsis
    B["__name__"] = "__pyvc__"

    def construct(bt, args, kwargs):
        n = bt.name
        if n == "int":
            return b_int(*args, **kwargs)
        if n == "float":
            return b_float(*args)
        if n == "bool":
            return interp.truth(args[0]) if args else False
        if n == "str":
            return b_str(*args)
        if n == "list":
            return list(interp.iterate_concrete(args[0])) if args else []
        if n == "tuple":
            return tuple(interp.iterate_concrete(args[0])) if args else ()
        if n == "dict":
            d = {}
            if args:
                src = args[0]
                if isinstance(src, dict):
                    d.update(src)
                else:
                    for kv in interp.iterate_concrete(src):
                        k, v = interp.iterate_concrete(kv)
                        d[interp.conc_key(k)] = v
            d.update(kwargs)
            return d
        if n == "set":
            return set(interp.conc_key(x) for x in interp.iterate_concrete(args[0])) if args else set()
        if n == "frozenset":
            return frozenset(interp.conc_key(x) for x in interp.iterate_concrete(args[0])) if args else frozenset()
        if n == "range":
            return b_range(*args)
        if n == "object":
            return object()
        if n == "slice":
            return slice(*args)
        if n == "type":
            return b_type(*args)
        raise Unsupported("constructor %s" % n)

    B["__construct__"] = construct

    def b_len(x):
        if isinstance(x, STensor):
            if x.rank == 0:
                raise PyExc("TypeError", ("len() of a 0-d tensor",))
            return x.shape[0]
        if isinstance(x, Obj):
            m, _ = x.cls.lookup("__len__")
            if m is None:
                for b in x.cls.lib_base_names():
                    f = interp.lib.get(b + ".__len__")
                    if f is not None:
                        return f(interp, x)
                raise PyExc("TypeError", ("object of type %r has no len()" % x.cls.name,))
            return interp.call(m, [x], {})
        if hasattr(x, "__pyvc_len__"):
            return x.__pyvc_len__(interp)
        if isinstance(x, SymIter):
            return x.length
        try:
            return len(x)
        except TypeError as e:
            raise PyExc("TypeError", e.args)

    B["len"] = b_len

    def b_range(*a):
        a = [_scalar_of(x) for x in a]
        if all(isinstance(x, int) for x in a):
            return range(*a)
        if len(a) == 1:
            n = a[0]
            return SymIter(V.simplify_scalar(V.i_max(n, 0)), lambda k: k, "range")
        start, stop = a[0], a[1]
        step = a[2] if len(a) > 2 else 1
        if not (isinstance(step, int) and step > 0):
            raise Unsupported("range with symbolic/negative step")
        span = V.i_sub(stop, start)
        n = V.ite(V.i_le(span, 0), 0, V.i_floordiv(V.i_add(span, step - 1), step))
        return SymIter(V.simplify_scalar(n), lambda k: V.i_add(start, V.i_mul(k, step)), "range")

    B["range"] = b_range

    def b_isinstance(x, t):
        if isinstance(t, tuple):
            parts = [b_isinstance(x, one) for one in t]
            return any(parts)
        if isinstance(t, BuiltinType):
            n = t.name
            if n == "int":
                return V.is_int_kind(x) or V.is_bool_kind(x) and not isinstance(x, z3.ExprRef) or (isinstance(x, z3.ExprRef) and z3.is_bool(x))
            if n == "float":
                return V.is_float_kind(x)
            if n == "bool":
                return V.is_bool_kind(x)
            if n == "object":
                return True
            if n == "dict":
                return isinstance(x, dict) or (hasattr(x, "__pyvc_isdict__"))
            return isinstance(x, t.pytypes)
        if isinstance(t, ClassVal):
            if isinstance(x, Obj):
                return t in x.cls.mro()
            return False
        if isinstance(t, LibRef):
            d = t.dotted
            if d in ("torch.Tensor", "torch.FloatTensor"):
                return isinstance(x, STensor) and x.kind == "torch"
            if d in ("numpy.ndarray",):
                return isinstance(x, STensor) and x.kind == "numpy"
            if d in ("numbers.Number",):
                return V.is_scalar(x)
            if d in ("typing.List", "typing.Sequence"):
                return isinstance(x, list)
            if d in ("typing.Dict",):
                return isinstance(x, dict)
            if d in ("typing.Tuple",):
                return isinstance(x, tuple)
            if d in ("numpy.integer",):
                return False if not isinstance(x, STensor) else False
            if d in ("numpy.floating",):
                return False
            if hasattr(x, "__pyvc_libtype__"):
                return x.__pyvc_libtype__ == d or d in getattr(x, "__pyvc_libbases__", ())
            if isinstance(x, Obj):
                return d in x.cls.lib_base_names()
            h = interp.lib.get("isinstance:" + d)
            if h is not None:
                return h(interp, x)
            if isinstance(x, (int, float, str, bool, list, tuple, dict, STensor, type(None))) or is_sym(x):
                return False
            raise Unsupported("isinstance(..., %s)" % d)
        if isinstance(t, ExcClass):
            from .interp import ExcObj, exc_isinstance

            return isinstance(x, ExcObj) and exc_isinstance(x.cls_name, t.name)
        if t is None or t is type(None):
            return x is None
        raise Unsupported("isinstance with %r" % (t,))

    B["isinstance"] = b_isinstance

    def b_issubclass(c, t):
        if isinstance(c, ClassVal) and isinstance(t, ClassVal):
            return t in c.mro()
        raise Unsupported("issubclass")

    B["issubclass"] = b_issubclass

    def b_int(x=0, base=None):
        x = _scalar_of(x)
        if isinstance(x, str):
            try:
                return int(x, base) if base is not None else int(x)
            except ValueError as e:
                raise PyExc("ValueError", e.args)
        if isinstance(x, bool):
            return int(x)
        if isinstance(x, int):
            return x
        if isinstance(x, float):
            if math.isnan(x):
                raise PyExc("ValueError", ("cannot convert float NaN to integer",))
            if math.isinf(x):
                raise PyExc("OverflowError", ("cannot convert float infinity to integer",))
            return int(x)
        if isinstance(x, z3.ExprRef) and z3.is_int(x):
            return x
        if isinstance(x, z3.ExprRef) and z3.is_bool(x):
            return V.zint(x)
        if isinstance(x, V.SFloat) or (isinstance(x, z3.ExprRef) and z3.is_real(x)):
            x = V.sfloat(x)
            interp.path.require(V.b_not(x.nan), "ValueError", "cannot convert float NaN to integer")
            interp.path.require(V.b_not(x.inf), "OverflowError", "cannot convert float infinity to integer")
            return V.f_trunc_to_int(x)
        raise PyExc("TypeError", ("int() argument must be a string or a number, not %r" % type(x).__name__,))

    B["int"] = types["int"]

    def b_float(x=0.0):
        x = _scalar_of(x)
        if isinstance(x, str):
            try:
                return float(x)
            except ValueError as e:
                raise PyExc("ValueError", e.args)
        if isinstance(x, (bool, int, float)):
            return float(x)
        if V.is_scalar(x):
            return V.sfloat(x)
        raise PyExc("TypeError", ("float() argument must be a string or a number",))

    def b_str(x=""):
        if is_sym(x) or isinstance(x, STensor):
            return "<sym>"
        if isinstance(x, Obj):
            return "<%s>" % x.cls.name
        return str(x)

    def b_abs(x):
        if isinstance(x, STensor):
            return T.tunary(lambda v: V.f_abs(v) if x.dtype == T.FLOAT else V.i_abs(v), x)
        if V.is_float_kind(x):
            return V.f_abs(x)
        if isinstance(x, bool):
            return int(x)
        return V.i_abs(x)

    B["abs"] = b_abs

    def _minmax(which):
        def f(*args, **kwargs):
            key = kwargs.get("key")
            default = kwargs.get("default", None)
            if len(args) == 1:
                items = interp.iterate_concrete(args[0])
            else:
                items = list(args)
            if not items:
                if "default" in kwargs:
                    return default
                raise PyExc("ValueError", ("%s() arg is an empty sequence" % which,))
            best = items[0]
            bk = interp.call(key, [best], {}) if key else best
            for x in items[1:]:
                xk = interp.call(key, [x], {}) if key else x
                cond = interp.compare(ast.Gt() if which == "max" else ast.Lt(), xk, bk)
                if key is None and V.is_scalar(_scalar_of(x)) and V.is_scalar(_scalar_of(best)) and not isinstance(x, STensor) and not isinstance(best, STensor) and (is_sym(x) or is_sym(best)):
                    # symbolic scalar: branch-free
                    cb = V.to_bool(cond)
                    if V.is_float_kind(x) or V.is_float_kind(best):
                        best = V.f_ite(cb, V.sfloat(x) if is_sym(x) or True else x, best) if not isinstance(cb, bool) else (x if cb else best)
                    else:
                        best = V.ite(cb, x, best)
                    bk = best
                    continue
                if interp.truth(cond):
                    best, bk = x, xk
            return best

        return f

    B["max"] = _minmax("max")
    B["min"] = _minmax("min")

    def b_round(x, nd=None):
        x = _scalar_of(x)
        if isinstance(x, (int, float)) and not is_sym(x):
            try:
                return round(x, nd) if nd is not None else round(x)
            except (ValueError, OverflowError) as e:
                raise PyExc(type(e).__name__, e.args)
        if V.is_int_kind(x):
            return x
        if nd is not None:
            raise Unsupported("round(x, ndigits) on symbolic")
        xs = V.sfloat(x)
        interp.path.require(V.b_not(xs.nan), "ValueError", "cannot convert float NaN to integer")
        interp.path.require(V.b_not(xs.inf), "OverflowError", "cannot convert float infinity to integer")
        return V.f_round_to_int(xs)

    B["round"] = b_round

    def b_sorted(it, key=None, reverse=False):
        items = list(interp.iterate_concrete(it))
        keys = [interp.call(key, [x], {}) if key else x for x in items]
        keys = [_scalar_of(k) if isinstance(k, STensor) else k for k in keys]
        if any(is_sym(k) or (isinstance(k, tuple) and any(is_sym(e) for e in k)) for k in keys):
            # insertion sort with path forks (small lists only)
            if len(items) > 6:
                raise Unsupported("sorting %d symbolic keys" % len(items))
            order = []
            for i in range(len(items)):
                pos = len(order)
                for j in range(len(order)):
                    lt = interp.compare(ast.Lt(), keys[i], keys[order[j]]) if not isinstance(keys[i], tuple) else _tuple_lt(interp, keys[i], keys[order[j]])
                    if interp.truth(lt):
                        pos = j
                        break
                order.insert(pos, i)
            res = [items[i] for i in order]
        else:
            try:
                res = [x for _, x in sorted(zip(keys, range(len(items))), key=lambda p: p[0])]
                res = [items[i] for i in res]
            except TypeError as e:
                raise PyExc("TypeError", e.args)
        if reverse:
            # python's reverse sort is stable w.r.t. original order for equal keys
            if any(is_sym(k) for k in keys):
                raise Unsupported("reverse sort with symbolic keys")
            idx = sorted(range(len(items)), key=lambda i: keys[i], reverse=True)
            res = [items[i] for i in idx]
        return res

    B["sorted"] = b_sorted

    def b_enumerate(it, start=0):
        seq = interp.iterate(it)
        if isinstance(seq, SymIter):
            return SymIter(seq.length, lambda k: (V.i_add(k, start), seq.get(k)), "enumerate")
        return [(i + start, x) for i, x in enumerate(seq)]

    B["enumerate"] = b_enumerate

    def b_zip(*its, strict=False):
        seqs = [interp.iterate(i) for i in its]
        if any(isinstance(s, SymIter) for s in seqs):
            if not all(isinstance(s, SymIter) for s in seqs):
                raise Unsupported("zip of symbolic and concrete sequences")
            n = seqs[0].length
            for s in seqs[1:]:
                n = V.i_min(n, s.length)
            return SymIter(V.simplify_scalar(n), lambda k: tuple(s.get(k) for s in seqs), "zip")
        return [tuple(x) for x in zip(*seqs)]

    B["zip"] = b_zip

    def b_sum(it, start=0):
        acc = start
        for x in interp.iterate_concrete(it):
            acc = interp.binop("add", acc, x)
        return acc

    B["sum"] = b_sum

    def b_any(it):
        parts = []
        for x in interp.iterate_concrete(it):
            if isinstance(x, bool):
                if x:
                    return True
                continue
            if is_sym(x) or isinstance(x, STensor):
                parts.append(interp._as_boolkind(x) if isinstance(x, STensor) else V.to_bool(x))
            elif interp.truth(x):
                return True
        return V.b_or(*parts) if parts else False

    def b_all(it):
        parts = []
        for x in interp.iterate_concrete(it):
            if isinstance(x, bool):
                if not x:
                    return False
                continue
            if is_sym(x) or isinstance(x, STensor):
                parts.append(interp._as_boolkind(x) if isinstance(x, STensor) else V.to_bool(x))
            elif not interp.truth(x):
                return False
        return V.b_and(*parts) if parts else True

    B["any"] = b_any
    B["all"] = b_all
    B["print"] = lambda *a, **k: None

    def b_getattr(o, name, *default):
        try:
            return interp.getattr(o, name)
        except PyExc as e:
            if e.cls_name == "AttributeError" and default:
                return default[0]
            raise

    B["getattr"] = b_getattr

    def b_hasattr(o, name):
        try:
            interp.getattr(o, name)
            return True
        except PyExc as e:
            if e.cls_name == "AttributeError":
                return False
            raise

    B["hasattr"] = b_hasattr
    B["setattr"] = lambda o, n, v: interp.setattr(o, n, v)

    def b_type(x):
        if isinstance(x, Obj):
            return x.cls
        for n, bt in types.items():
            if n in ("object", "type"):
                continue
            if type(x) in bt.pytypes:
                return bt
        if isinstance(x, STensor):
            return LibRef("torch.Tensor" if x.kind == "torch" else "numpy.ndarray")
        raise Unsupported("type(%r)" % type(x))

    def b_map(f, *its):
        seqs = [interp.iterate_concrete(i) for i in its]
        return [interp.call(f, list(a), {}) for a in zip(*seqs)]

    B["map"] = b_map
    B["filter"] = lambda f, it: [x for x in interp.iterate_concrete(it) if interp.truth(interp.call(f, [x], {}) if f is not None else x)]
    B["reversed"] = lambda it: list(reversed(interp.iterate_concrete(it)))
    B["callable"] = lambda x: isinstance(x, (Closure, BoundMethod, ClassVal, LibRef)) or callable(x)
    B["id"] = lambda x: id(x)
    B["iter"] = lambda x: _Iter(interp.iterate_concrete(x))
    B["repr"] = b_str

    def b_next(it, *default):
        if isinstance(it, _Iter):
            if it.pos < len(it.items):
                it.pos += 1
                return it.items[it.pos - 1]
            if default:
                return default[0]
            raise PyExc("StopIteration", ())
        raise Unsupported("next() on %r" % type(it))

    B["next"] = b_next
    B["divmod"] = lambda a, b: (interp.binop("floordiv", a, b), interp.binop("mod", a, b))
    B["property"] = lambda f: _mark(f, "is_property")
    B["staticmethod"] = lambda f: _mark(f, "static")
    B["classmethod"] = lambda f: _mark(f, "classmethod")
    B["vars"] = lambda o: o.attrs if isinstance(o, Obj) else {}
    B["hash"] = lambda x: hash(interp.conc_key(x))
    B["pow"] = lambda a, b: interp.binop("pow", a, b)
    B["format"] = lambda *a: "<fmt>"
    B["open"] = lambda *a, **k: (_ for _ in ()).throw(Unsupported("open()"))
    return B


def _mark(f, attr):
    setattr(f, attr, True)
    return f


def _tuple_lt(interp, a, b):
    r = False
    for x, y in reversed(list(zip(a, b))):
        lt = interp._as_boolkind(interp.compare(ast.Lt(), x, y))
        eq = interp._as_boolkind(interp.compare(ast.Eq(), x, y))
        r = V.b_or(lt, V.b_and(eq, r))
    return r


class _Iter:
    def __init__(self, items):
        self.items = list(items)
        self.pos = 0

    def __pyvc_iter__(self, interp):
        rest = self.items[self.pos:]
        self.pos = len(self.items)
        return rest


# ------------------------------------------------------------------------- math


@lib("math.ceil")
def _ceil(interp, x):
    x = _scalar_of(x)
    if isinstance(x, (int, float)):
        try:
            return math.ceil(x)
        except (ValueError, OverflowError) as e:
            raise PyExc(type(e).__name__, e.args)
    if V.is_int_kind(x):
        return x
    xs = V.sfloat(x)
    interp.path.require(V.b_not(xs.nan), "ValueError", "cannot convert float NaN to integer")
    interp.path.require(V.b_not(xs.inf), "OverflowError", "cannot convert float infinity to integer")
    return V.f_ceil_to_int(xs)


@lib("math.floor")
def _floor(interp, x):
    x = _scalar_of(x)
    if isinstance(x, (int, float)):
        try:
            return math.floor(x)
        except (ValueError, OverflowError) as e:
            raise PyExc(type(e).__name__, e.args)
    if V.is_int_kind(x):
        return x
    xs = V.sfloat(x)
    interp.path.require(V.b_not(xs.nan), "ValueError", "cannot convert float NaN to integer")
    interp.path.require(V.b_not(xs.inf), "OverflowError", "cannot convert float infinity to integer")
    return V.f_floor_to_int(xs)


@lib("math.sqrt")
def _sqrt(interp, x):
    x = _scalar_of(x)
    if isinstance(x, (int, float)):
        if x < 0:
            raise PyExc("ValueError", ("math domain error",))
        return math.sqrt(x)
    xs = V.sfloat(x)
    interp.path.require(V.f_le(0.0, xs), "ValueError", "math domain error")
    return V.f_sqrt(xs)


@lib("math.isnan")
def _isnan(interp, x):
    return V.f_isnan(_scalar_of(x))


@lib("math.exp")
def _exp(interp, x):
    return V.f_exp(_scalar_of(x))


@lib("math.log2")
def _log2(interp, x):
    x = _scalar_of(x)
    if isinstance(x, (int, float)):
        try:
            return math.log2(x)
        except ValueError as e:
            raise PyExc("ValueError", e.args)
    raise Unsupported("log2 of symbolic value")


@lib("copy.deepcopy")
def _deepcopy(interp, x):
    from .interp import Obj

    if isinstance(x, list):
        return [_deepcopy(interp, y) for y in x]
    if isinstance(x, dict):
        d = type(x)() if type(x) is dict else dict()
        for k, v in x.items():
            d[k] = _deepcopy(interp, v)
        return d
    if isinstance(x, tuple):
        return tuple(_deepcopy(interp, y) for y in x)
    if isinstance(x, STensor):
        return T.clone(x)
    if isinstance(x, Obj):
        o = Obj(x.cls)
        for k, v in x.attrs.items():
            o.attrs[k] = _deepcopy(interp, v)
        return o
    if hasattr(x, "__pyvc_deepcopy__"):
        return x.__pyvc_deepcopy__(interp)
    return x


@lib("copy.copy")
def _copy(interp, x):
    from .interp import Obj

    if isinstance(x, list):
        return list(x)
    if isinstance(x, dict):
        return dict(x)
    if isinstance(x, Obj):
        o = Obj(x.cls)
        o.attrs = dict(x.attrs)
        return o
    if isinstance(x, STensor):
        return T.clone(x)
    return x


@lib("functools.partial")
def _partial(interp, f, *args, **kwargs):
    def g(*a, **k):
        kw = dict(kwargs)
        kw.update(k)
        return interp.call(f, list(args) + list(a), kw)

    g.__pyvc_lib__ = True
    g.partial_of = (f, args, kwargs)
    return g


@lib("itertools.product")
def _product(interp, *its):
    import itertools

    return [tuple(x) for x in itertools.product(*[interp.iterate_concrete(i) for i in its])]


@lib("itertools.chain")
def _chain(interp, *its):
    out = []
    for i in its:
        out.extend(interp.iterate_concrete(i))
    return out


class DefaultDict(dict):
    def __init__(self, interp, factory):
        dict.__init__(self)
        self.interp = interp
        self.factory = factory

    def __missing__(self, k):
        if self.factory is None:
            raise KeyError(k)
        v = self.interp.call(self.factory, [], {})
        self[k] = v
        return v


@lib("collections.defaultdict")
def _defaultdict(interp, factory=None, *args):
    return DefaultDict(interp, factory)


class Deque(list):
    """collections.deque(maxlen): a list that drops from the left when full."""

    def __init__(self, items=(), maxlen=None):
        list.__init__(self, items)
        self.maxlen = maxlen
        self._trim()

    def _trim(self):
        if self.maxlen is not None:
            while len(self) > self.maxlen:
                list.pop(self, 0)

    def append(self, x):
        list.append(self, x)
        self._trim()

    def appendleft(self, x):
        list.insert(self, 0, x)
        if self.maxlen is not None:
            while len(self) > self.maxlen:
                list.pop(self)

    def popleft(self):
        if not self:
            raise IndexError("pop from an empty deque")
        return list.pop(self, 0)

    def extend(self, xs):
        for x in xs:
            self.append(x)


@lib("collections.deque")
def _deque(interp, items=(), maxlen=None):
    if maxlen is not None and not isinstance(maxlen, int):
        raise Unsupported("deque with symbolic maxlen")
    return Deque(interp.iterate_concrete(items), maxlen)


@lib("collections.OrderedDict")
def _ordereddict(interp, *a, **k):
    return dict(*a, **k)


@lib("typing.cast")
def _cast(interp, t, x):
    return x


@lib("time.time")
def _time(interp):
    return V.finite_real(V.fresh_real("time"))


@lib("time.sleep")
def _sleep(interp, *a):
    return None


@lib("warnings.warn")
def _warn(interp, *a, **k):
    return None
