"""Trusted models of third-party libraries: kornia, scipy, networkx, attrs, queue/threading ..."""
from __future__ import annotations

import math

import z3

from . import tensor as T, values as V
from .ctx import PyExc, Unsupported
from .tensor import BOOL, FLOAT, INT, STensor

LIB = {}
CONST = {}


def lib(*names):
    def deco(f):
        f.__pyvc_lib__ = True
        for n in names:
            LIB[n] = f
        return f

    return deco


# ------------------------------------------------------------------------- attrs


@lib("attrs.field", "attr.ib", "attr.field")
def attrs_field(interp, default=None, **kw):
    # only reached when used as an ordinary default value (generate_pafs): the call-time
    # default is the attrs _CountingAttr object, which is truthy and not None.
    return _AttrsField()


class _AttrsField:
    __pyvc_native__ = True


@lib("attrs.converters.optional", "attr.converters.optional")
def attrs_optional(interp, f):
    def g(x):
        return None if x is None else interp.call(f, [x], {})

    g.__pyvc_lib__ = True
    return g


@lib("attrs.validators.instance_of", "attr.validators.instance_of")
def attrs_instance_of(interp, t):
    def check(inst, attr, value):
        if not interp.builtins["isinstance"](value, t):
            raise PyExc("TypeError", ("%s must be %r" % (getattr(attr, "attrs", {}).get("name", "?"), t),))

    check.__pyvc_lib__ = True
    return check


@lib("attrs.validators.optional", "attr.validators.optional")
def attrs_v_optional(interp, v):
    def check(inst, attr, value):
        if value is None:
            return
        interp.call(v, [inst, attr, value], {})

    check.__pyvc_lib__ = True
    return check


@lib("attrs.validators.in_", "attr.validators.in_")
def attrs_in(interp, options):
    def check(inst, attr, value):
        if not interp.truth(interp.contains(options, value)):
            raise PyExc("ValueError", ("value must be in %r" % (options,),))

    check.__pyvc_lib__ = True
    return check


def _cmp_validator(opname, pyop):
    def make(interp, bound):
        def check(inst, attr, value):
            import ast as _ast

            node = {"ge": _ast.GtE(), "le": _ast.LtE(), "gt": _ast.Gt(), "lt": _ast.Lt()}[opname]
            if not interp.truth(interp.compare(node, value, bound)):
                raise PyExc("ValueError", ("'%s' must be %s %r" % (getattr(attr, "attrs", {}).get("name", "?"), pyop, bound),))

        check.__pyvc_lib__ = True
        return check

    make.__pyvc_lib__ = True
    return make


for _n, _o in (("ge", ">="), ("le", "<="), ("gt", ">"), ("lt", "<")):
    LIB["attrs.validators." + _n] = _cmp_validator(_n, _o)
    LIB["attr.validators." + _n] = LIB["attrs.validators." + _n]


@lib("attrs.asdict", "attr.asdict")
def attrs_asdict(interp, obj):
    from .interp import Obj

    def conv(v):
        if isinstance(v, Obj) and v.cls.is_attrs:
            return {k: conv(x) for k, x in v.attrs.items()}
        if isinstance(v, list):
            return [conv(x) for x in v]
        if isinstance(v, dict):
            return {k: conv(x) for k, x in v.items()}
        return v

    return conv(obj)


@lib("attrs.fields", "attr.fields")
def attrs_fields(interp, cls):
    from .interp import Obj, ClassVal

    out = []
    for c in reversed(cls.mro()):
        for f in getattr(c, "attrs_fields", []):
            a = Obj(ClassVal(None, None, "attrs.Attribute", [], interp))
            a.attrs["name"] = f[0]
            out.append(a)
    return tuple(out)


# ------------------------------------------------------------------------- kornia


@lib("kornia.morphology.dilation")
def kornia_dilation(interp, tensor, kernel, structuring_element=None, origin=None, border_type="geodesic",
                    border_value=0.0, max_val=1e4, engine="unfold"):
    """Read from the installed kornia 0.8.3 source (morphology.py): the input is padded with
    -max_val ('geodesic'), each window cell gets +0 where the (flipped) kernel is non-zero and
    -max_val where it is zero, and the output is the maximum over the window (torch.max, so a
    NaN in the window makes the result NaN)."""
    if structuring_element is not None or origin is not None or border_type != "geodesic":
        raise Unsupported("dilation with structuring element / origin / non-geodesic border")
    if not (isinstance(tensor, STensor) and tensor.rank == 4):
        raise PyExc("ValueError", ("Input size must have 4 dimensions",))
    if not (isinstance(kernel, STensor) and kernel.rank == 2 and kernel.is_concrete()):
        raise Unsupported("dilation with a non-constant kernel")
    kh, kw = kernel.shape
    kv = kernel.tolist()
    oh, ow = kh // 2, kw // 2
    H, W = tensor.shape[2], tensor.shape[3]
    src = tensor.reader()
    neg = -float(max_val)

    def fn(idx):
        b, c, i, j = idx
        acc = None
        for u in range(kh):
            for v in range(kw):
                # neighborhood.flip((0,1))[u, v] = neighborhood[kh-1-u, kw-1-v]
                off = 0.0 if kv[kh - 1 - u][kw - 1 - v] != 0 else neg
                ii = V.i_add(i, u - oh)
                jj = V.i_add(j, v - ow)
                inb = V.b_and(V.i_le(0, ii), V.i_lt(ii, H), V.i_le(0, jj), V.i_lt(jj, W))
                if inb is True:
                    x = src([b, c, ii, jj])
                elif inb is False:
                    x = neg
                else:
                    x = V.f_ite(V.zbool(inb), src([b, c, ii, jj]), neg)
                t = V.f_add(x, off) if off != 0.0 else x
                acc = t if acc is None else V.f_max(acc, t)
        return acc

    return T.from_fn(list(tensor.shape), FLOAT, fn)


_UNSPEC_V = z3.Function("crop_unspecified_v", z3.IntSort(), z3.IntSort(), z3.IntSort(), z3.IntSort(), z3.RealSort())
_UNSPEC_N = z3.Function("crop_unspecified_n", z3.IntSort(), z3.IntSort(), z3.IntSort(), z3.IntSort(), z3.BoolSort())


@lib("kornia.geometry.transform.crop_and_resize", "kornia.geometry.transform.crop.crop_and_resize")
def kornia_crop_and_resize(interp, input_tensor, boxes, size, mode="bilinear", padding_mode="zeros", align_corners=True):
    """Trusted contract, restricted to the boxes this code base produces (make_centered_bboxes):
    axis-aligned boxes whose side is size-1 (unit scale).  With align_corners=True the output
    pixel (u, v) then samples the source at (y0+u, x0+v) exactly; bilinear interpolation at
    that point is  sum of the four neighbouring pixels weighted by the fractional offsets,
    with zeros outside the image (padding_mode='zeros').  For integer corners this is the pixel
    itself.  Other boxes (scaled / rotated) are outside the model: Unsupported."""
    if not (isinstance(input_tensor, STensor) and input_tensor.rank == 4):
        raise PyExc("ValueError", ("crop_and_resize expects a BxCxHxW tensor",))
    if not (isinstance(boxes, STensor) and boxes.rank == 3):
        raise PyExc("ValueError", ("boxes must be Bx4x2",))
    sz = []
    for x in interp.iterate_concrete(size):
        if isinstance(x, STensor):
            x = x.at([0] * x.rank)
        x = V.simplify_scalar(x) if isinstance(x, z3.ExprRef) else x
        if isinstance(x, float) and x == int(x):
            x = int(x)
        if not (isinstance(x, int) or (isinstance(x, z3.ExprRef) and z3.is_int(x))):
            raise Unsupported("crop_and_resize with a non-integer output size")
        sz.append(x)
    oh, ow = sz
    B = input_tensor.shape[0]
    e = T.dims_equal(B, boxes.shape[0])
    if e is False:
        raise PyExc("ValueError", ("batch size of boxes and input differ",))
    if e is None:
        interp.path.require(V.i_eq(B, boxes.shape[0]), "ValueError", "batch size of boxes and input differ")
    bx = boxes.reader()
    src = input_tensor.reader()
    H, W = input_tensor.shape[2], input_tensor.shape[3]
    # kornia normalises pixel coordinates by (size - 1) and substitutes an epsilon when a side
    # is one pixel long: the warp is then degenerate, so the contract covers sides >= 2 only
    if not interp.path.provable(V.b_and(V.i_le(2, H), V.i_le(2, W))):
        raise Unsupported("crop_and_resize on an image with a one-pixel side (kornia's coordinate normalisation is degenerate there)")
    # box geometry precondition (checked lazily per box index at use): unit scale, axis aligned
    checked = {}

    def geom(b):
        x0, y0 = bx([b, 0, 0]), bx([b, 0, 1])
        x1, y1 = bx([b, 1, 0]), bx([b, 1, 1])
        x2, y2 = bx([b, 2, 0]), bx([b, 2, 1])
        x3, y3 = bx([b, 3, 0]), bx([b, 3, 1])
        ok = V.b_and(V.f_eq(y1, y0), V.f_eq(x3, x0), V.f_eq(x2, x1), V.f_eq(y2, y3),
                     V.f_eq(V.f_sub(x1, x0), T.cast_scalar(V.i_sub(ow, 1), FLOAT)), V.f_eq(V.f_sub(y3, y0), T.cast_scalar(V.i_sub(oh, 1), FLOAT)))
        return x0, y0, ok

    def pix(b, c, yy, xx):
        inb = V.b_and(V.i_le(0, yy), V.i_lt(yy, H), V.i_le(0, xx), V.i_lt(xx, W))
        if inb is True:
            return src([b, c, yy, xx])
        if inb is False:
            return 0.0
        return V.f_ite(V.zbool(inb), src([b, c, yy, xx]), 0.0)

    def fn(idx):
        b, c, u, v = idx
        x0, y0, ok = geom(b)
        key = T._key([b])
        if key not in checked:
            checked[key] = True
            if not interp.path.provable(V.b_or(V.b_not(V.b_and(V.i_le(0, b), V.i_lt(b, B))), ok)):
                nanbox = V.b_or(V.f_isnan(x0), V.f_isnan(y0))
                if not interp.path.provable(V.b_or(V.b_not(V.b_and(V.i_le(0, b), V.i_lt(b, B))), ok, nanbox)):
                    raise Unsupported("crop_and_resize: box is not provably a unit-scale axis-aligned box")
        # integer corner?  then exact pixel copy; otherwise bilinear blend
        xi = V.f_floor_to_int(x0) if not isinstance(x0, float) else int(math.floor(x0)) if not math.isnan(x0) else 0
        yi = V.f_floor_to_int(y0) if not isinstance(y0, float) else int(math.floor(y0)) if not math.isnan(y0) else 0
        fx = V.f_sub(x0, T.cast_scalar(xi, FLOAT))
        fy = V.f_sub(y0, T.cast_scalar(yi, FLOAT))
        yy, xx = V.i_add(yi, u), V.i_add(xi, v)
        # half-pixel boxes (even crop sizes around integer peaks): a provably constant fraction
        # keeps the blend linear for the solver
        def _half(f):
            if isinstance(f, float):
                return f
            if interp.path.provable(V.f_eq(f, 0.5)):
                return 0.5
            if interp.path.provable(V.b_or(V.f_isnan(f), V.f_eq(f, 0.5))):
                return V.f_ite(V.zbool(V.f_isnan(f)), math.nan, 0.5)
            return f

        fx, fy = _half(fx), _half(fy)
        int_corner = V.b_and(V.f_eq(fx, 0.0), V.f_eq(fy, 0.0))
        exact = pix(b, c, yy, xx)
        # grid_sample multiplies the neighbouring pixels by (near-)zero weights; a NaN/inf
        # neighbour therefore contaminates the sample, and which side the zero-weight
        # neighbour lies on depends on rounding.  The contract is exact only when the 3x3
        # neighbourhood of the sampled pixel is finite; otherwise the value is unspecified.
        clean = []
        for dy_ in (-1, 0, 1):
            for dx_ in (-1, 0, 1):
                q = pix(b, c, V.i_add(yy, dy_), V.i_add(xx, dx_))
                clean.append(V.f_isfinite(q))
        clean = V.b_and(*clean)
        if clean is not True:
            if isinstance(clean, bool):
                exact = math.nan
            else:
                zb = [V.zint(t_) for t_ in (b, c, u, v)]
                un = V.SFloat(_UNSPEC_N(*zb), False, _UNSPEC_V(*zb))
                exact = V.f_ite(V.zbool(clean), exact, un)
        if int_corner is True or interp.path.provable(int_corner):
            return exact
        p00, p01 = exact, pix(b, c, yy, V.i_add(xx, 1))
        p10, p11 = pix(b, c, V.i_add(yy, 1), xx), pix(b, c, V.i_add(yy, 1), V.i_add(xx, 1))
        top = V.f_add(V.f_mul(p00, V.f_sub(1.0, fx)), V.f_mul(p01, fx))
        bot = V.f_add(V.f_mul(p10, V.f_sub(1.0, fx)), V.f_mul(p11, fx))
        blend = V.f_add(V.f_mul(top, V.f_sub(1.0, fy)), V.f_mul(bot, fy))
        if int_corner is False:
            return blend
        return V.f_ite(V.zbool(int_corner), exact, blend)

    return T.from_fn([B, input_tensor.shape[1], oh, ow], FLOAT, fn)


# ------------------------------------------------------------------------- networkx (concrete)


class NxDiGraph:
    """Concrete model of networkx.DiGraph for hashable concrete nodes: nodes and adjacency in
    insertion order (the documented iteration order of networkx graphs)."""

    __pyvc_native__ = True

    def __init__(self, edges=()):
        self.nodes_ = []
        self.succ = {}
        self.pred = {}
        for e in edges:
            u, v = e
            for n in (u, v):
                if n not in self.succ:
                    self.nodes_.append(n)
                    self.succ[n] = []
                    self.pred[n] = []
            if v not in self.succ[u]:
                self.succ[u].append(v)
                self.pred[v].append(u)


@lib("networkx.DiGraph")
def nx_digraph(interp, edges=None):
    es = []
    for e in interp.iterate_concrete(edges or []):
        u, v = interp.iterate_concrete(e)
        es.append((interp.conc_key(u), interp.conc_key(v)))
    return NxDiGraph(es)


@lib("networkx.topological_sort")
def nx_topological_sort(interp, g):
    """Contract: a node is yielded only after all its predecessors; among ready nodes the
    order is the graph's node order (networkx: topological_generations).  Raises
    NetworkXUnfeasible on a cycle."""
    indeg = {n: len(g.pred[n]) for n in g.nodes_}
    ready = [n for n in g.nodes_ if indeg[n] == 0]
    out = []
    while ready:
        nxt = []
        for n in ready:
            out.append(n)
            for m in g.succ[n]:
                indeg[m] -= 1
                if indeg[m] == 0:
                    nxt.append(m)
        ready = nxt
    if len(out) != len(g.nodes_):
        raise PyExc("NetworkXUnfeasible", ("Graph contains a cycle or graph changed during iteration",))
    from .lib_py import _Iter

    return _Iter(out)


@lib("networkx.bfs_edges")
def nx_bfs_edges(interp, g, source, reverse=False, depth_limit=None, sort_neighbors=None):
    """Contract: every edge (u, v) that discovers a new node v in a breadth-first search from
    `source`, each once, an edge out of u only after the edge that discovered u."""
    if source not in g.succ:
        raise PyExc("NetworkXError", ("The node %r is not in the graph" % (source,),))
    seen = {source}
    queue = [source]
    out = []
    while queue:
        u = queue.pop(0)
        for v in g.succ[u]:
            if v not in seen:
                seen.add(v)
                out.append((u, v))
                queue.append(v)
    return out


CONST["omegaconf.MISSING"] = "???"


# ------------------------------------------------------------------------- scipy / misc


def _total(costs):
    acc = 0.0
    for x in costs:
        acc = V.f_add(acc, x)
    return acc


@lib("scipy.optimize.linear_sum_assignment")
def scipy_lsa(interp, cost_matrix, maximize=False):
    """Trusted contract (scipy docs + observed error): for an R x C matrix returns (rows, cols)
    of a complete assignment of min(R, C) pairs with minimal total cost, rows ascending; raises
    ValueError('cost matrix is infeasible') when every complete assignment has infinite cost,
    and ValueError on NaN / -inf entries.  Which of several optimal assignments is returned is
    unspecified (explored by nondeterministic choice)."""
    import itertools

    cm = cost_matrix
    if not (isinstance(cm, STensor) and cm.rank == 2 and all(isinstance(d, int) for d in cm.shape)):
        raise Unsupported("linear_sum_assignment on a matrix of symbolic shape")
    if maximize:
        raise Unsupported("linear_sum_assignment(maximize=True)")
    R, C = cm.shape
    rd = cm.reader()
    for i in range(R):
        for j in range(C):
            v = rd([i, j])
            bad = V.b_or(V.f_isnan(v), V.b_and(V.f_isinf(v), V.f_lt(v, 0.0)))
            interp.path.require(V.b_not(bad), "ValueError", "matrix contains invalid numeric entries")
    k = min(R, C)
    if k == 0:
        return (T.from_flat([0], [], INT, kind="numpy"), T.from_flat([0], [], INT, kind="numpy"))
    assigns = []
    if R <= C:
        for cols in itertools.permutations(range(C), R):
            assigns.append(list(zip(range(R), cols)))
    else:
        for rows in itertools.permutations(range(R), C):
            pairs = sorted(zip(rows, range(C)))
            assigns.append(pairs)
    fin = lambda a: V.b_and(*[V.f_isfinite(rd([i, j])) for (i, j) in a])
    feasible = V.b_or(*[fin(a) for a in assigns])
    interp.path.require(feasible, "ValueError", "cost matrix is infeasible")
    pick = interp.path.choose(len(assigns), "linear_sum_assignment")
    a = assigns[pick]
    tot = _total([rd([i, j]) for (i, j) in a])
    interp.path.assume(V.zbool(fin(a)))
    for b in assigns:
        if b is a:
            continue
        tb = _total([rd([i, j]) for (i, j) in b])
        interp.path.assume(V.zbool(V.b_implies(fin(b), V.f_le(tot, tb))))
    rows = T.from_flat([k], [i for (i, j) in a], INT, kind="numpy")
    cols = T.from_flat([k], [j for (i, j) in a], INT, kind="numpy")
    return (rows, cols)


@lib("typing.Deque")
def typing_deque(interp, *a, **k):
    from .lib_py import Deque

    return Deque(*a, **k)


class GhostTrack:
    __pyvc_native__ = True

    def __init__(self, name):
        self.name = name


@lib("sleap_io.Track")
def sio_track(interp, name=""):
    return GhostTrack(name)
