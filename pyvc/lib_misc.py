"""Trusted models of third-party libraries: kornia, scipy, networkx, attrs, queue/threading ..."""
from __future__ import annotations

import math

import z3

from . import tensor as T, values as V
from .ctx import PyExc, Unsupported
from .tensor import BOOL, FLOAT, INT, STensor

LIB = {}
CONST = {}


def lib(*names):
    def deco(f):
        f.__pyvc_lib__ = True
        for n in names:
            LIB[n] = f
        return f

    return deco


# ------------------------------------------------------------------------- attrs


@lib("attrs.field", "attr.ib", "attr.field")
def attrs_field(interp, default=None, **kw):
    # only reached when used as an ordinary default value (generate_pafs): the call-time
    # default is the attrs _CountingAttr object, which is truthy and not None.
    return _AttrsField()


class _AttrsField:
    __pyvc_native__ = True


@lib("attrs.converters.optional", "attr.converters.optional")
def attrs_optional(interp, f):
    def g(x):
        return None if x is None else interp.call(f, [x], {})

    g.__pyvc_lib__ = True
    return g


@lib("attrs.validators.instance_of", "attr.validators.instance_of")
def attrs_instance_of(interp, t):
    def check(inst, attr, value):
        if not interp.builtins["isinstance"](value, t):
            raise PyExc("TypeError", ("%s must be %r" % (getattr(attr, "attrs", {}).get("name", "?"), t),))

    check.__pyvc_lib__ = True
    return check


@lib("attrs.validators.optional", "attr.validators.optional")
def attrs_v_optional(interp, v):
    def check(inst, attr, value):
        if value is None:
            return
        interp.call(v, [inst, attr, value], {})

    check.__pyvc_lib__ = True
    return check


@lib("attrs.validators.in_", "attr.validators.in_")
def attrs_in(interp, options):
    def check(inst, attr, value):
        if not interp.truth(interp.contains(options, value)):
            raise PyExc("ValueError", ("value must be in %r" % (options,),))

    check.__pyvc_lib__ = True
    return check


@lib("attrs.asdict", "attr.asdict")
def attrs_asdict(interp, obj):
    from .interp import Obj

    def conv(v):
        if isinstance(v, Obj) and v.cls.is_attrs:
            return {k: conv(x) for k, x in v.attrs.items()}
        if isinstance(v, list):
            return [conv(x) for x in v]
        if isinstance(v, dict):
            return {k: conv(x) for k, x in v.items()}
        return v

    return conv(obj)


@lib("attrs.fields", "attr.fields")
def attrs_fields(interp, cls):
    from .interp import Obj, ClassVal

    out = []
    for c in reversed(cls.mro()):
        for f in getattr(c, "attrs_fields", []):
            a = Obj(ClassVal(None, None, "attrs.Attribute", [], interp))
            a.attrs["name"] = f[0]
            out.append(a)
    return tuple(out)
