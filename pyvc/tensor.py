"""Symbolic tensors: concrete rank, symbolic shape, lazy element functions, storage aliasing.

A tensor is either an *owner* of storage (``base is None``; ``_fn`` maps an index tuple to a
scalar) or a *view* (``base`` + forward/inverse index maps).  In-place writes rewrite the
element function of the owning storage, so every alias observes them.  Operations that
produce fresh tensors capture *readers* (frozen element functions) of their operands at the
time of the operation, so later in-place writes to an operand do not leak into them.
"""
from __future__ import annotations

import itertools
import math

import z3

from . import ctx
from .ctx import PyExc, Unsupported
from .values import (
    SFloat,
    b_and,
    b_iff,
    b_implies,
    b_not,
    b_or,
    binop,
    f_abs,
    f_add,
    f_clamp,
    f_div,
    f_eq,
    f_exp,
    f_floor,
    f_isfinite,
    f_isinf,
    f_isnan,
    f_ite,
    f_le,
    f_lt,
    f_max,
    f_min,
    f_mul,
    f_nan_to_num,
    f_neg,
    f_round,
    f_same,
    f_sqrt,
    f_sub,
    fresh_int,
    fresh_name,
    i_add,
    i_eq,
    i_floordiv,
    i_le,
    i_lt,
    i_mod,
    i_mul,
    i_sub,
    is_bool_kind,
    is_float_kind,
    is_int_kind,
    is_scalar,
    ite,
    same,
    sfloat,
    simplify_scalar,
    sink,
    to_bool,
    zbool,
    zint,
)

FLOAT, INT, BOOL = "float", "int", "bool"


def _key(idx):
    out = []
    for i in idx:
        if isinstance(i, int):
            out.append(i)
        else:
            out.append(("z", i.get_id()))
    return tuple(out)


def memo(fn):
    cache = {}

    def g(idx):
        k = _key(idx)
        hit = cache.get(k)
        if hit is not None:
            return hit[1]
        v = fn(idx)
        # keep the index expressions alive: z3 AST ids are reused after garbage collection,
        # so a cache keyed by get_id() must own its keys
        cache[k] = (list(idx), v)
        return v

    return g


def conc(d):
    return isinstance(d, int)


def dims_equal(a, b):
    """Decide a == b for two dims; symbolic -> ask the path (library precondition)."""
    if conc(a) and conc(b):
        return a == b
    za, zb = zint(a), zint(b)
    if za.eq(zb):
        return True
    s = z3.simplify(za == zb)
    if z3.is_true(s):
        return True
    if z3.is_false(s):
        return False
    return None  # unknown structurally


def prod(dims):
    r = 1
    for d in dims:
        r = i_mul(r, d)
    return r


def scalar_dtype(v):
    if is_bool_kind(v):
        return BOOL
    if is_int_kind(v):
        return INT
    return FLOAT


def promote(d1, d2):
    order = {BOOL: 0, INT: 1, FLOAT: 2}
    return d1 if order[d1] >= order[d2] else d2


def cast_scalar(v, dtype):
    if dtype == FLOAT:
        if isinstance(v, bool):
            return float(v)
        if isinstance(v, int):
            return float(v)
        if isinstance(v, float) or isinstance(v, SFloat):
            return v
        return sfloat(v)
    if dtype == INT:
        if isinstance(v, bool):
            return int(v)
        if is_int_kind(v):
            return v
        if is_bool_kind(v):
            return zint(v)
        # float -> int: truncation
        from .values import f_trunc_to_int

        return f_trunc_to_int(v)
    if dtype == BOOL:
        return to_bool(v)
    raise ValueError(dtype)


class STensor:
    is_tensor = True

    def __init__(self, shape, dtype, fn=None, base=None, fwd=None, inv=None, kind="torch"):
        self.shape = [simplify_scalar(d) if not isinstance(d, int) else d for d in shape]
        self.dtype = dtype
        self._fn = memo(fn) if fn is not None else None
        self.base = base
        self.fwd = fwd
        self.inv = inv
        self.kind = kind          # 'torch' | 'numpy' (replay/ghost only; semantics shared)
        self.origin = "fresh"     # or ('arg', name)
        self.written = False
        self.orig_reader = None   # set for argument tensors (frame obligations)
        self.selinfo = None       # (Selection, component) for index tensors from where()
        self.row_sel = None       # Selection when rows are x[mask]
        self.name = None
        self.contiguous = True
        self.fdtype = None        # 'float32'/'float64'/... (informational)

    # ------------------------------------------------------------------ reading
    @property
    def rank(self):
        return len(self.shape)

    def reader(self):
        if self.base is None:
            return self._fn
        br = self.base.reader()
        fwd = self.fwd
        return lambda idx: br(fwd(idx))

    def at(self, *idx):
        if len(idx) == 1 and isinstance(idx[0], (list, tuple)):
            idx = idx[0]
        return self.reader()(list(idx))

    def owner(self):
        t = self
        while t.base is not None:
            t = t.base
        return t

    # ------------------------------------------------------------------ writing
    def write(self, upd):
        """In-place update: upd(idx, old_value) -> new value (for every idx of self)."""
        if self.base is None:
            old = self._fn
            self._fn = memo(lambda idx: upd(idx, old(idx)))
            self.written = True
            self.version = getattr(self, "version", 0) + 1
            return
        inv = self.inv

        def upd_base(bidx, oldv):
            cond, idx = inv(bidx)
            if cond is False:
                return oldv
            newv = upd(idx, oldv)
            return ite(cond, newv, oldv) if cond is not True else newv

        self.base.write(upd_base)

    # ------------------------------------------------------------------ misc
    def is_concrete(self):
        if not all(conc(d) for d in self.shape):
            return False
        r = self.reader()
        for idx in itertools.product(*[range(d) for d in self.shape]):
            v = r(list(idx))
            if not isinstance(v, (bool, int, float)):
                return False
        return True

    def tolist(self):
        assert all(conc(d) for d in self.shape)
        r = self.reader()

        def rec(prefix, k):
            if k == len(self.shape):
                return r(list(prefix))
            return [rec(prefix + [i], k + 1) for i in range(self.shape[k])]

        return rec([], 0)

    def __repr__(self):
        return "STensor(shape=%s, dtype=%s%s)" % (
            self.shape,
            self.dtype,
            ", view" if self.base is not None else "",
        )


# =========================================================================== constructors


def from_fn(shape, dtype, fn, kind="torch"):
    return STensor(shape, dtype, fn=fn, kind=kind)


def full(shape, value, dtype=None, kind="torch"):
    dtype = dtype or scalar_dtype(value)
    v = cast_scalar(value, dtype)
    return STensor(shape, dtype, fn=lambda idx: v, kind=kind)


def from_nested(data, dtype=None, kind="torch"):
    """Tensor from nested Python lists of (possibly symbolic) scalars."""
    shape = []
    d = data
    while isinstance(d, (list, tuple)):
        shape.append(len(d))
        if len(d) == 0:
            break
        d = d[0]

    def get(idx):
        x = data
        for i in idx:
            if not isinstance(i, int):
                # symbolic index into a literal: build an ite chain
                return _ite_chain(data, idx)
            x = x[i]
        return x

    flat = []

    def walk(x):
        if isinstance(x, (list, tuple)):
            for y in x:
                walk(y)
        elif isinstance(x, STensor) and x.rank == 0:
            flat.append(x.at([]))
        else:
            flat.append(x)

    walk(data)
    if dtype is None:
        dtype = BOOL
        for v in flat:
            dtype = promote(dtype, scalar_dtype(v))
        if not flat:
            dtype = FLOAT

    def fn(idx):
        v = get(idx)
        if isinstance(v, STensor):
            v = v.at([])
        return cast_scalar(v, dtype)

    return STensor(shape, dtype, fn=fn, kind=kind)


def from_flat(shape, data, dtype, kind="torch"):
    """Concrete tensor from a flat row-major list (keeps the shape of empty tensors)."""
    shape = list(shape)
    strides = []
    acc = 1
    for d in reversed(shape):
        strides.append(acc)
        acc *= d
    strides = list(reversed(strides))
    data = [cast_scalar(v, dtype) for v in data]

    def fn(idx):
        if all(isinstance(i, int) for i in idx):
            off = sum(i * s for i, s in zip(idx, strides))
            return data[off]
        # symbolic index into concrete data: ite chain over the flat offset
        off = 0
        for i, s in zip(idx, strides):
            off = i_add(off, i_mul(i, s))
        r = data[-1] if data else cast_scalar(0, dtype)
        for j in range(len(data) - 2, -1, -1):
            r = ite(i_eq(off, j), data[j], r)
        return r

    return STensor(shape, dtype, fn=fn, kind=kind)


def _ite_chain(data, idx):
    def rec(x, k):
        if k == len(idx):
            return x.at([]) if isinstance(x, STensor) else x
        i = idx[k]
        if isinstance(i, int):
            return rec(x[i], k + 1)
        r = rec(x[len(x) - 1], k + 1)
        for j in range(len(x) - 2, -1, -1):
            r = ite(i == j, rec(x[j], k + 1), r)
        return r

    return rec(data, 0)


def sym_tensor(name, shape, dtype=FLOAT, nan_ok=True, inf_ok=False, kind="torch"):
    """A fully symbolic input tensor backed by uninterpreted functions."""
    r = len(shape)
    dom = [z3.IntSort()] * r
    if dtype == FLOAT:
        fv = z3.Function(name + "_v", *(dom + [z3.RealSort()])) if r else z3.Real(name + "_v")
        fn_ = (
            (z3.Function(name + "_n", *(dom + [z3.BoolSort()])) if r else z3.Bool(name + "_n"))
            if nan_ok
            else None
        )
        fi = (
            (z3.Function(name + "_i", *(dom + [z3.BoolSort()])) if r else z3.Bool(name + "_i"))
            if inf_ok
            else None
        )

        def fn(idx):
            zi = [zint(i) for i in idx]
            val = fv(*zi) if r else fv
            nan = (fn_(*zi) if r else fn_) if fn_ is not None else False
            inf = (fi(*zi) if r else fi) if fi is not None else False
            if inf is not False:
                sink().add(z3.Implies(inf, z3.Or(val == 1, val == -1)))
            return SFloat(nan, inf, val)

        t = STensor(shape, FLOAT, fn=fn, kind=kind)
        t.sym = {"v": fv, "n": fn_, "i": fi}
    elif dtype == INT:
        f = z3.Function(name, *(dom + [z3.IntSort()])) if r else z3.Int(name)
        t = STensor(shape, INT, fn=(lambda idx: f(*[zint(i) for i in idx]) if r else f), kind=kind)
        t.sym = {"v": f}
    else:
        f = z3.Function(name, *(dom + [z3.BoolSort()])) if r else z3.Bool(name)
        t = STensor(shape, BOOL, fn=(lambda idx: f(*[zint(i) for i in idx]) if r else f), kind=kind)
        t.sym = {"v": f}
    t.name = name
    return t


def arange(start, stop, step=1, dtype=None, kind="torch"):
    """torch.arange: length ceil((stop-start)/step), step > 0."""
    all_int = all(is_int_kind(x) for x in (start, stop, step))
    if dtype is None:
        dtype = INT if all_int else FLOAT
    if all_int:
        if conc(start) and conc(stop) and conc(step):
            n = max(0, -((start - stop) // step))
        else:
            ctx.cur().require(i_lt(0, step), "RuntimeError", "arange: step must be positive")
            span = i_sub(stop, start)
            n_ = i_floordiv(i_add(span, i_sub(step, 1)), step)
            n = ite(i_le(span, 0), 0, n_)
            n = simplify_scalar(n)

        def fn(idx):
            return cast_scalar(i_add(start, i_mul(idx[0], step)), dtype)

        return STensor([n], dtype, fn=fn, kind=kind)
    # float arguments: only concrete supported
    if all(isinstance(x, (int, float)) for x in (start, stop, step)):
        n = max(0, int(math.ceil((stop - start) / step)))
        return STensor([n], dtype, fn=lambda idx: cast_scalar(f_add(start, f_mul(idx[0], step)), dtype), kind=kind)
    raise Unsupported("arange with symbolic float bounds")


# =========================================================================== broadcasting


def broadcast_shapes(*shapes):
    r = max(len(s) for s in shapes)
    out = []
    for k in range(r):
        d = 1
        for s in shapes:
            j = k - (r - len(s))
            if j < 0:
                continue
            e = s[j]
            if conc(e) and e == 1:
                continue
            if conc(d) and d == 1:
                d = e
                continue
            eq = dims_equal(d, e)
            if eq is True:
                continue
            if eq is False:
                raise PyExc("RuntimeError", ("shape mismatch in broadcast: %s vs %s" % (d, e),))
            # symbolic: torch requires d == e or one of them == 1
            c = ctx.cur()
            cond = b_or(i_eq(d, e), i_eq(d, 1), i_eq(e, 1))
            c.require(cond, "RuntimeError", "shape mismatch in broadcast")
            if c.provable(i_eq(d, e)):
                continue
            if c.provable(i_eq(e, 1)):
                continue
            if c.provable(i_eq(d, 1)):
                d = e
                continue
            raise Unsupported("broadcast of dims %s and %s not decidable" % (d, e))
        out.append(d)
    return out


def breader(t, out_rank):
    """Reader of t broadcast to out_rank (leading dims dropped, size-1 dims pinned to 0)."""
    r = t.reader()
    sh = t.shape
    off = out_rank - len(sh)
    pins = [conc(d) and d == 1 for d in sh]
    sym1 = [(not conc(d)) for d in sh]

    def g(idx):
        sub = []
        for k in range(len(sh)):
            if pins[k]:
                sub.append(0)
            else:
                sub.append(idx[off + k])
        return r(sub)

    return g


def as_tensor(x, kind="torch"):
    if isinstance(x, STensor):
        return x
    if is_scalar(x):
        return full([], x, kind=kind)
    if isinstance(x, (list, tuple)):
        return from_nested(x, kind=kind)
    raise Unsupported("cannot convert %r to tensor" % (type(x),))


def elementwise(fn, *args, dtype=None, kind=None):
    """Apply a scalar function elementwise with broadcasting."""
    ts = [a for a in args if isinstance(a, STensor)]
    kind = kind or (ts[0].kind if ts else "torch")
    shapes = [a.shape for a in ts]
    out_shape = broadcast_shapes(*shapes) if shapes else []
    r = len(out_shape)
    readers = [breader(a, r) if isinstance(a, STensor) else None for a in args]

    def g(idx):
        vals = [rd(idx) if rd is not None else a for rd, a in zip(readers, args)]
        return fn(*vals)

    if dtype is None:
        raise ValueError("dtype required")
    return STensor(out_shape, dtype, fn=g, kind=kind)


def _arith_dtype(op, a, b):
    da = a.dtype if isinstance(a, STensor) else scalar_dtype(a)
    db = b.dtype if isinstance(b, STensor) else scalar_dtype(b)
    if op in ("lt", "le", "gt", "ge", "eq", "ne"):
        return BOOL
    if op == "truediv":
        return FLOAT
    if op in ("and_", "or_", "xor"):
        return promote(da, db)
    d = promote(da, db)
    if d == BOOL and op in ("add", "sub", "mul"):
        d = INT
    return d


def tbinop(op, a, b):
    dtype = _arith_dtype(op, a, b)
    if op in ("and_", "or_", "xor"):
        if dtype == BOOL:
            f = {"and_": b_and, "or_": b_or, "xor": lambda x, y: b_not(b_iff(x, y))}[op]
            return elementwise(lambda x, y: f(to_bool(x), to_bool(y)), a, b, dtype=BOOL)
        raise Unsupported("bitwise op on non-bool tensors")
    cdt = dtype
    if dtype == BOOL:
        da = a.dtype if isinstance(a, STensor) else scalar_dtype(a)
        db = b.dtype if isinstance(b, STensor) else scalar_dtype(b)
        cdt = promote(da, db)

    def f(x, y):
        if cdt == FLOAT or op == "truediv":
            x = cast_scalar(x, FLOAT)
            y = cast_scalar(y, FLOAT)
        elif cdt == INT:
            x = cast_scalar(x, INT)
            y = cast_scalar(y, INT)
        return binop(op, x, y)

    if dtype == BOOL and isinstance(a, STensor) and isinstance(b, (int, float)) and not isinstance(b, bool):
        # comparing the same (unmodified) tensor with the same constant gives the same mask
        # object, hence -- as in torch/numpy -- the same enumeration when it is used to select
        key = (op, b, getattr(a.owner(), "version", 0))
        cache = a.__dict__.setdefault("_cmp_cache", {})
        if key not in cache:
            cache[key] = elementwise(f, a, b, dtype=dtype)
        return cache[key]
    return elementwise(f, a, b, dtype=dtype)


def tunary(fn, a, dtype=None):
    return elementwise(fn, a, dtype=dtype or a.dtype)


# =========================================================================== views


def _view(base, shape, fwd, inv, contiguous=False):
    t = STensor(shape, base.dtype, base=base, fwd=fwd, inv=inv, kind=base.kind)
    t.contiguous = contiguous
    t.fdtype = base.fdtype
    return t


def permute(t, dims):
    dims = [d % t.rank for d in dims]
    if sorted(dims) != list(range(t.rank)):
        raise PyExc("RuntimeError", ("permute: bad dims",))
    shape = [t.shape[d] for d in dims]
    invp = [dims.index(k) for k in range(t.rank)]

    def fwd(idx):
        return [idx[invp[k]] for k in range(t.rank)]

    def inv(bidx):
        return True, [bidx[d] for d in dims]

    return _view(t, shape, fwd, inv)


def unsqueeze(t, dim):
    r = t.rank + 1
    dim = dim % r
    shape = t.shape[:dim] + [1] + t.shape[dim:]

    def fwd(idx):
        return idx[:dim] + idx[dim + 1:]

    def inv(bidx):
        return True, bidx[:dim] + [0] + bidx[dim:]

    return _view(t, shape, fwd, inv, contiguous=t.contiguous)


def squeeze(t, dim=None):
    if dim is None:
        dims = [k for k, d in enumerate(t.shape) if conc(d) and d == 1]
        if any(not conc(d) for d in t.shape):
            raise Unsupported("squeeze() with symbolic dims")
    elif isinstance(dim, (list, tuple)):
        dims = [d % t.rank for d in dim]
    else:
        dims = [dim % t.rank]
    real = []
    for k in dims:
        d = t.shape[k]
        if conc(d):
            if d == 1:
                real.append(k)
        else:
            if ctx.cur().provable(i_eq(d, 1)):
                real.append(k)
            elif ctx.cur().provable(b_not(i_eq(d, 1))):
                pass
            else:
                raise Unsupported("squeeze of symbolic dim %s" % d)
    keep = [k for k in range(t.rank) if k not in real]
    shape = [t.shape[k] for k in keep]

    def fwd(idx):
        out = [0] * t.rank
        for j, k in enumerate(keep):
            out[k] = idx[j]
        return out

    def inv(bidx):
        return True, [bidx[k] for k in keep]

    return _view(t, shape, fwd, inv, contiguous=t.contiguous)


def expand(t, shape):
    shape = list(shape)
    off = len(shape) - t.rank
    out = []
    for k, d in enumerate(shape):
        j = k - off
        if conc(d) and d == -1:
            out.append(t.shape[j])
        else:
            out.append(d)
    pins = [
        (k - off >= 0 and conc(t.shape[k - off]) and t.shape[k - off] == 1 and not (conc(out[k]) and out[k] == 1))
        for k in range(len(out))
    ]

    def fwd(idx):
        return [0 if pins[k] else idx[k] for k in range(off, len(out))]

    def inv(bidx):
        raise Unsupported("in-place write through expand()")

    return _view(t, out, fwd, inv)


def _infer_minus_one(src_shape, target):
    target = list(target)
    if any(conc(d) and d == -1 for d in target):
        k = [i for i, d in enumerate(target) if conc(d) and d == -1]
        if len(k) != 1:
            raise PyExc("RuntimeError", ("only one dimension can be inferred",))
        k = k[0]
        rest = [d for i, d in enumerate(target) if i != k]
        total = prod(src_shape)
        rp = prod(rest)
        if conc(total) and conc(rp):
            if rp == 0 or total % rp != 0:
                raise PyExc("RuntimeError", ("shape invalid for input size",))
            target[k] = total // rp
        else:
            # torch: "cannot reshape tensor of 0 elements into shape [.., -1, ..] because the
            # unspecified dimension size -1 can be any value and is ambiguous"
            ctx.cur().require(b_not(i_eq(rp, 0)), "RuntimeError", "reshape: -1 is ambiguous for a tensor of 0 elements")
            # try structural cancellation: remove matching factors
            src_f = [d for d in src_shape if not (conc(d) and d == 1)]
            rest_f = [d for d in rest if not (conc(d) and d == 1)]
            rem = list(src_f)
            ok = True
            for d in rest_f:
                hit = None
                for j, e in enumerate(rem):
                    if dims_equal(d, e) is True:
                        hit = j
                        break
                if hit is None:
                    ok = False
                    break
                rem.pop(hit)
            if ok:
                target[k] = prod(rem)
            else:
                # numeric cancellation of concrete factors
                cs = 1
                ss = []
                for d in src_f:
                    if conc(d):
                        cs *= d
                    else:
                        ss.append(d)
                cr = 1
                sr = []
                for d in rest_f:
                    if conc(d):
                        cr *= d
                    else:
                        sr.append(d)
                rem = list(ss)
                ok = True
                for d in sr:
                    hit = None
                    for j, e in enumerate(rem):
                        if dims_equal(d, e) is True:
                            hit = j
                            break
                    if hit is None:
                        ok = False
                        break
                    rem.pop(hit)
                if ok and cr != 0 and cs % cr == 0:
                    target[k] = i_mul(cs // cr, prod(rem))
                else:
                    target[k] = simplify_scalar(i_floordiv(total, rp))
    return target


def reshape(t, target):
    """reshape/view.  Supported: insertion/removal of size-1 dims, merging adjacent dims,
    splitting one dim into adjacent dims (row-major)."""
    target = _infer_minus_one(t.shape, target)
    src = t.shape
    if any(conc(d) and d == 0 for d in src) and any(conc(d) and d == 0 for d in target):
        # no elements: any shape with zero elements is a valid reshape
        return STensor(list(target), t.dtype, fn=lambda idx: cast_scalar(0, t.dtype), kind=t.kind)
    # fast path: identical
    if len(src) == len(target) and all(dims_equal(a, b) is True for a, b in zip(src, target)):
        return _view(t, list(target), lambda idx: idx, lambda b: (True, b), contiguous=t.contiguous)
    # greedy grouping
    groups = []  # list of (src_indices, tgt_indices)
    i = j = 0
    ns, nt = len(src), len(target)

    def is1(d):
        return conc(d) and d == 1

    cur = ctx.cur()

    def eq(a, b):
        e = dims_equal(a, b)
        if e is None:
            return cur.provable(i_eq(a, b))
        return e

    while i < ns or j < nt:
        if i < ns and is1(src[i]) and not (j < nt and is1(target[j])):
            groups.append(([i], []))
            i += 1
            continue
        if j < nt and is1(target[j]) and not (i < ns and is1(src[i])):
            groups.append(([], [j]))
            j += 1
            continue
        if i >= ns or j >= nt:
            raise Unsupported("reshape %s -> %s" % (src, target))
        if eq(src[i], target[j]):
            groups.append(([i], [j]))
            i += 1
            j += 1
            continue
        # try merge: target[j] == src[i]*src[i+1]*...
        done = False
        p = src[i]
        for i2 in range(i + 1, ns):
            p = i_mul(p, src[i2])
            if eq(p, target[j]):
                groups.append((list(range(i, i2 + 1)), [j]))
                i = i2 + 1
                j += 1
                done = True
                break
        if done:
            continue
        p = target[j]
        for j2 in range(j + 1, nt):
            p = i_mul(p, target[j2])
            if eq(p, src[i]):
                groups.append(([i], list(range(j, j2 + 1))))
                i += 1
                j = j2 + 1
                done = True
                break
        if done:
            continue
        raise Unsupported("reshape %s -> %s (no adjacent merge/split found)" % (src, target))

    def lin(idx_list, dims):
        r = 0
        for ix, d in zip(idx_list, dims):
            r = i_add(i_mul(r, d), ix)
        return r

    def unlin(m, dims):
        out = []
        for k in range(len(dims) - 1, 0, -1):
            d = dims[k]
            if not (isinstance(m, int) and isinstance(d, int)):
                divmod_facts(m, d, prod(dims[:k]))
            out.append(i_mod(m, d))
            m = i_floordiv(m, d)
        out.append(m)
        return list(reversed(out))

    def conv(idx, from_side, to_side, from_shape, to_shape, n_to):
        out = [0] * n_to
        for (gs, gt) in groups:
            f = gs if from_side == 0 else gt
            g = gt if from_side == 0 else gs
            if not g:
                continue
            if not f:
                for k in g:
                    out[k] = 0
                continue
            if len(f) == 1 and len(g) == 1:
                out[g[0]] = idx[f[0]]
            elif len(g) == 1:
                out[g[0]] = lin([idx[k] for k in f], [from_shape[k] for k in f])
            else:
                parts = unlin(idx[f[0]], [to_shape[k] for k in g])
                for k, p in zip(g, parts):
                    out[k] = p
        return out

    def fwd(idx):  # target idx -> src idx
        return conv(idx, 1, 0, target, src, ns)

    def inv(bidx):
        return True, conv(bidx, 0, 1, src, target, nt)

    v = _view(t, list(target), fwd, inv, contiguous=t.contiguous)
    v.merge_groups = {gt[0]: list(gs) for (gs, gt) in groups if len(gs) >= 2 and len(gt) == 1}
    v.dim_map = {gt[0]: gs[0] for (gs, gt) in groups if len(gs) == 1 and len(gt) == 1}
    return v


def _linidx_body(a, b, w):
    m = zint(a) * zint(w) + zint(b)
    return z3.Implies(z3.And(zint(w) > 0, zint(b) >= 0, zint(b) < zint(w)), z3.And(i_floordiv(m, w) == zint(a), i_mod(m, w) == zint(b)))


def _divmod_body(m, d, D):
    q, r = i_floordiv(m, d), i_mod(m, d)
    return z3.Implies(z3.And(zint(d) > 0, zint(m) >= 0, zint(m) < zint(D) * zint(d)),
                      z3.And(zint(q) >= 0, zint(q) < zint(D), zint(r) >= 0, zint(r) < zint(d), zint(m) == zint(d) * zint(q) + zint(r)))


def divmod_facts(m, d, D):
    """Range facts of a row-major index split (m -> (m div d, m mod d), m < D*d): the solver
    does not derive them for a symbolic divisor unprompted."""
    ctx.cur().lemma_instance("index-split-div-mod", ["int", "int", "int"], _divmod_body, (zint(m), zint(d), zint(D)))


def transpose(t, d0, d1):
    dims = list(range(t.rank))
    dims[d0], dims[d1] = dims[d1], dims[d0]
    return permute(t, dims)


# =========================================================================== selection


class Selection:
    """Result of a boolean-mask selection (torch.where(mask), x[mask], nonzero).

    Contract (trusted, torch/numpy docs): the selected index tuples are exactly the True
    cells of the mask, each once, in lexicographic (row-major) order.
    """

    def __init__(self, mask):
        self.mask = mask
        self.mreader = mask.reader()
        self.m = mask.rank
        self.shape = list(mask.shape)
        self.concrete = None
        if all(conc(d) for d in self.shape):
            cells = list(itertools.product(*[range(d) for d in self.shape]))
            vals = [self.mreader(list(c)) for c in cells]
            if getattr(ctx.cur(), "concretize_masks", False) and len(cells) <= 64:
                vals = [v if isinstance(v, bool) else bool(ctx.cur().truth(v)) for v in vals]
            if all(isinstance(v, bool) for v in vals):
                self.concrete = [c for c, v in zip(cells, vals) if v]
                self.N = len(self.concrete)
                return
            if len(cells) <= 64:
                self._semi_concrete(cells, vals)
                return
        nm = fresh_name("sel")
        self.N = fresh_int("N")
        self.sel = [z3.Function("%s_%d" % (nm, k), z3.IntSort(), z3.IntSort()) for k in range(self.m)]
        self.rank = z3.Function(nm + "_rank", *([z3.IntSort()] * self.m + [z3.IntSort()]))
        self._sel_inst = {}
        self._rank_inst = {}
        s = sink()
        s.add(self.N >= 0)
        gh = getattr(ctx.cur(), "ghosts", None)
        if gh is not None:
            gh.setdefault("selections", []).append(self)
        if self.m == 1:
            # 1-D masks: rank is the prefix count of True cells (torch.where / boolean-mask
            # indexing enumerate True cells in increasing index order), N the total count.
            a = z3.Int(fresh_name("qa"))
            ma = to_bool(self.mreader([a]))
            s.add(self.rank(z3.IntVal(0)) == 0)
            s.add(z3.ForAll([a], zbool(b_implies(b_and(a >= 0, i_lt(a, self.shape[0])),
                                                 self.rank(a + 1) == self.rank(a) + zint(zbool(ma)))),
                            patterns=[self.rank(a + 1)]))
            s.add(self.N == self.rank(zint(self.shape[0])))
            s.add(z3.ForAll([a], zbool(b_implies(b_and(a >= 0, i_le(a, self.shape[0])), b_and(self.rank(a) >= 0, self.rank(a) <= self.N))),
                            patterns=[self.rank(a)]))
        # quantified form of the selection contract (needed when sel/rank terms arise from
        # instantiating other quantified facts); the lazily instantiated copies below cover
        # the ground terms without relying on E-matching.
        r = z3.Int(fresh_name("qr"))
        r2 = z3.Int(fresh_name("qr"))
        ridx = [f(r) for f in self.sel]
        ridx2 = [f(r2) for f in self.sel]
        s.add(z3.ForAll([r], zbool(b_implies(b_and(r >= 0, r < self.N),
                                             b_and(self.in_range(ridx), to_bool(self.mreader(ridx)), self.rank(*ridx) == r))),
                        patterns=[z3.MultiPattern(*ridx)] if len(ridx) > 1 else [ridx[0]]))
        s.add(z3.ForAll([r, r2], zbool(b_implies(b_and(r >= 0, r < r2, r2 < self.N), lex_lt(ridx, ridx2))),
                        patterns=[z3.MultiPattern(ridx[0], ridx2[0])]))
        qi = [z3.Int(fresh_name("qi")) for _ in range(self.m)]
        rk = self.rank(*qi)
        s.add(z3.ForAll(qi, zbool(b_implies(b_and(self.in_range(qi), to_bool(self.mreader(qi))),
                                            b_and(rk >= 0, rk < self.N, *[f(rk) == i for f, i in zip(self.sel, qi)]))),
                        patterns=[rk]))

    def _semi_concrete(self, cells, vals):
        """Concrete shape, symbolic truth values: complete quantifier-free definition."""
        nm = fresh_name("sel")
        self.sel = [z3.Function("%s_%d" % (nm, k), z3.IntSort(), z3.IntSort()) for k in range(self.m)]
        self.rank = z3.Function(nm + "_rank", *([z3.IntSort()] * self.m + [z3.IntSort()]))
        self._sel_inst = {}
        self._rank_inst = {}
        s = sink()
        cnt = 0
        for c, v in zip(cells, vals):
            zc = [z3.IntVal(i) for i in c]
            s.add(self.rank(*zc) == zint(cnt))
            if v is not False:
                s.add(b_implies(v, b_and(*[self.sel[k](zint(cnt)) == c[k] for k in range(self.m)])))
            cnt = i_add(cnt, zint(zbool(v)) if not isinstance(v, bool) else int(v))
        self.N = fresh_int("N")
        s.add(self.N == zint(cnt))
        s.add(self.N >= 0)
        s.add(self.N <= len(cells))
        if self.m == 1:
            s.add(self.rank(z3.IntVal(len(cells))) == self.N)
        gh = getattr(ctx.cur(), "ghosts", None)
        if gh is not None:
            gh.setdefault("selections", []).append(self)

    def in_range(self, idx):
        return b_and(*[b_and(i_le(0, i), i_lt(i, d)) for i, d in zip(idx, self.shape)])

    def sel_at(self, r):
        """Index tuple of the r-th selected cell."""
        if self.concrete is not None:
            if isinstance(r, int):
                return list(self.concrete[r])
            # symbolic r into a concrete list
            out = []
            for k in range(self.m):
                v = self.concrete[-1][k] if self.concrete else 0
                for j in range(len(self.concrete) - 2, -1, -1):
                    v = ite(r == j, self.concrete[j][k], v)
                out.append(v)
            return out
        zr = zint(r)
        key = zr.get_id()
        if key in self._sel_inst:
            return self._sel_inst[key][1]
        idx = [f(zr) for f in self.sel]
        s = sink()
        s.add(
            b_implies(
                b_and(zr >= 0, zr < self.N),
                b_and(self.in_range(idx), to_bool(self.mreader(idx)), self.rank(*idx) == zr),
            )
        )
        for (r2, idx2) in self._sel_inst.values():
            s.add(b_implies(b_and(zr >= 0, r2 >= 0, zr < self.N, r2 < self.N, zr < r2), lex_lt(idx, idx2)))
            s.add(b_implies(b_and(zr >= 0, r2 >= 0, zr < self.N, r2 < self.N, r2 < zr), lex_lt(idx2, idx)))
        self._sel_inst[key] = (zr, idx)
        return idx

    def rank_at(self, idx):
        """Position of cell idx among the selected cells (meaningful when mask[idx])."""
        if self.concrete is not None:
            if all(isinstance(i, int) for i in idx):
                t = tuple(idx)
                return self.concrete.index(t) if t in self.concrete else -1
            v = -1
            for j, c in enumerate(self.concrete):
                v = ite(b_and(*[i_eq(a, b) for a, b in zip(idx, c)]), j, v)
            return v
        zi = [zint(i) for i in idx]
        key = tuple(i.get_id() for i in zi)
        if key in self._rank_inst:
            return self._rank_inst[key][1]
        rk = self.rank(*zi)
        s = sink()
        s.add(
            b_implies(
                b_and(self.in_range(zi), to_bool(self.mreader(zi))),
                b_and(rk >= 0, rk < self.N, *[f(rk) == i for f, i in zip(self.sel, zi)]),
            )
        )
        for (zi2, rk2) in self._rank_inst.values():
            both = b_and(
                self.in_range(zi), self.in_range(zi2), to_bool(self.mreader(zi)), to_bool(self.mreader(zi2))
            )
            s.add(b_implies(b_and(both, lex_lt(zi, zi2)), rk < rk2))
            s.add(b_implies(b_and(both, lex_lt(zi2, zi)), rk2 < rk))
        self._rank_inst[key] = (zi, rk)
        return rk

    def member(self, idx):
        return b_and(self.in_range(idx), to_bool(self.mreader(idx)))

    def index_tensors(self, kind="torch"):
        out = []
        for k in range(self.m):
            t = STensor([self.N], INT, fn=(lambda idx, k=k: self.sel_at(idx[0])[k]), kind=kind)
            t.selinfo = (self, k)
            out.append(t)
        return out


def _pick_scalar(lst, j):
    """lst[j] for a possibly symbolic index j."""
    if isinstance(j, int):
        return lst[j]
    r = lst[-1]
    for k in range(len(lst) - 2, -1, -1):
        r = ite(i_eq(j, k), lst[k], r)
    return r


def selection_of(mask):
    """Selection for a mask tensor; the same (unmodified) mask object yields the same
    enumeration, as it does in torch/numpy."""
    ver = getattr(mask.owner(), "version", 0)
    c = getattr(mask, "_selection", None)
    if c is not None and c[0] == ver:
        return c[1]
    sel = Selection(mask)
    mask._selection = (ver, sel)
    return sel


def lex_lt(a, b):
    r = False
    for x, y in reversed(list(zip(a, b))):
        r = b_or(i_lt(x, y), b_and(i_eq(x, y), r))
    return r


# =========================================================================== indexing


def _norm_index(i, d):
    """Normalise a possibly negative integer index against dim d; bounds as library req."""
    if isinstance(i, int):
        if conc(d):
            if i < -d or i >= d:
                raise PyExc("IndexError", ("index %d is out of bounds for dimension with size %d" % (i, d),))
            return i % d if i < 0 else i
        if i < 0:
            ctx.cur().require(i_le(-i, d), "IndexError", "index out of bounds")
            return simplify_scalar(i_add(d, i))
        ctx.cur().require(i_lt(i, d), "IndexError", "index out of bounds")
        return i
    # symbolic index: assumed non-negative form
    ctx.cur().require(b_and(i_le(0, i), i_lt(i, d)), "IndexError", "index out of bounds")
    return i


def _slice_params(sl, d):
    step = 1 if sl.step is None else sl.step
    if not (isinstance(step, int) and step >= 1):
        raise Unsupported("slice step %r" % (step,))

    def clip(v, default):
        if v is None:
            return default
        if isinstance(v, STensor):
            v = v.at([])
        if isinstance(v, int) and conc(d):
            if v < 0:
                v += d
            return min(max(v, 0), d)
        if isinstance(v, int):
            if v < 0:
                return simplify_scalar(ite(i_lt(i_add(v, d), 0), 0, i_add(v, d)))
            return simplify_scalar(ite(i_lt(v, d), v, d))
        # symbolic v
        vv = ite(i_lt(v, 0), ite(i_lt(i_add(v, d), 0), 0, i_add(v, d)), ite(i_lt(v, d), v, d))
        return simplify_scalar(vv)

    start = clip(sl.start, 0)
    stop = clip(sl.stop, d)
    span = i_sub(stop, start)
    if conc(span):
        n = max(0, -((-span) // step))
    else:
        n = simplify_scalar(ite(i_le(span, 0), 0, i_floordiv(i_add(span, step - 1), step)))
    return start, step, n


def _expand_key(t, key):
    if not isinstance(key, tuple):
        key = (key,)
    key = list(key)
    # count dims consumed
    consumed = 0
    for k in key:
        if k is None or k is Ellipsis:
            continue
        if isinstance(k, STensor) and k.dtype == BOOL and k.rank > 0:
            consumed += k.rank
        else:
            consumed += 1
    if any(k is Ellipsis for k in key):
        e = [i for i, k in enumerate(key) if k is Ellipsis]
        if len(e) > 1:
            raise PyExc("IndexError", ("an index can only have a single ellipsis",))
        fill = [slice(None)] * (t.rank - consumed)
        key = key[: e[0]] + fill + key[e[0] + 1:]
    else:
        if consumed > t.rank:
            raise PyExc("IndexError", ("too many indices for tensor of dimension %d" % t.rank,))
        key = key + [slice(None)] * (t.rank - consumed)
    return key


def _is_intlike(k):
    return is_int_kind(k) or (isinstance(k, STensor) and k.rank == 0 and k.dtype == INT)


def _is_adv(k):
    if isinstance(k, STensor) and k.rank > 0 and k.dtype == INT:
        return True
    if isinstance(k, (list, tuple)) and not isinstance(k, STensor):
        return True
    return False


def getitem(t, key):
    key = _expand_key(t, key)
    key = [from_nested(list(k), kind=t.kind) if (isinstance(k, (list, tuple))) else k for k in key]
    has_mask = any(isinstance(k, STensor) and k.dtype == BOOL and k.rank > 0 for k in key)
    has_adv = any(_is_adv(k) for k in key)
    if has_mask:
        return _getitem_mask(t, key)
    if has_adv:
        return _getitem_adv(t, key)
    return _getitem_basic(t, key)


def _getitem_basic(t, key):
    plan = []  # per source dim: ('sel', i) | ('slice', start, step, outpos)
    shape = []
    newaxes = []
    d = 0
    for k in key:
        if k is None:
            newaxes.append(len(shape))
            shape.append(1)
            continue
        dim = t.shape[d]
        if isinstance(k, slice):
            start, step, n = _slice_params(k, dim)
            plan.append(("slice", start, step, len(shape)))
            shape.append(n)
        elif _is_intlike(k):
            i = k.at([]) if isinstance(k, STensor) else k
            if isinstance(i, bool):
                i = int(i)
            i = _norm_index(i, dim)
            plan.append(("sel", i))
        elif isinstance(k, STensor) and k.rank == 0 and k.dtype == BOOL:
            raise Unsupported("scalar bool index")
        else:
            raise Unsupported("index %r" % (k,))
        d += 1

    def fwd(idx):
        out = []
        for p in plan:
            if p[0] == "sel":
                out.append(p[1])
            else:
                _, start, step, pos = p
                out.append(i_add(start, i_mul(idx[pos], step)))
        return out

    nshape = len(shape)

    def inv(bidx):
        conds = []
        idx = [0] * nshape
        for p, b in zip(plan, bidx):
            if p[0] == "sel":
                conds.append(i_eq(b, p[1]))
            else:
                _, start, step, pos = p
                n = shape[pos]
                off = i_sub(b, start)
                if step == 1:
                    conds.append(b_and(i_le(0, off), i_lt(off, n)))
                    idx[pos] = off
                else:
                    conds.append(b_and(i_le(0, off), i_eq(i_mod(off, step), 0), i_lt(i_floordiv(off, step), n)))
                    idx[pos] = i_floordiv(off, step)
        return b_and(*conds), idx

    v = _view(t, shape, fwd, inv)
    return v


def _getitem_adv(t, key):
    """Integer-array indexing (copy).  Advanced indices must be adjacent."""
    pos = [i for i, k in enumerate(key) if _is_adv(k) or (_is_intlike(k))]
    advpos = [i for i, k in enumerate(key) if _is_adv(k)]
    # ints adjacent to advanced indices participate in the advanced group
    grp = [i for i in pos if (i in advpos) or any(abs(i - a) == 1 for a in advpos) or True]
    grp = [i for i in grp if _is_adv(key[i]) or _is_intlike(key[i])]
    if any(k is None for k in key):
        raise Unsupported("newaxis together with advanced indexing")
    lo, hi = min(grp), max(grp)
    adjacent = all((_is_adv(key[i]) or _is_intlike(key[i])) for i in range(lo, hi + 1))
    adv_ts = []
    for i in grp:
        k = key[i]
        if _is_intlike(k):
            v = k.at([]) if isinstance(k, STensor) else k
            adv_ts.append(full([], _norm_index(v, t.shape[i]), dtype=INT))
        else:
            adv_ts.append(k)
    bshape = broadcast_shapes(*[a.shape for a in adv_ts])
    nb = len(bshape)
    readers = [breader(a, nb) for a in adv_ts]
    slices = []
    for i, k in enumerate(key):
        if i in grp:
            continue
        if not isinstance(k, slice):
            raise Unsupported("index kind in advanced indexing")
        slices.append((i,) + _slice_params(k, t.shape[i]))
    sl_shape = [s[3] for s in slices]
    if adjacent:
        n_before = len([s for s in slices if s[0] < lo])
    else:
        n_before = 0
    out_shape = sl_shape[:n_before] + bshape + sl_shape[n_before:]
    src = t.reader()
    # bounds of index values are a library precondition
    dims_for = {i: t.shape[i] for i in grp}

    def fn(idx):
        bidx = idx[n_before: n_before + nb]
        sidx = idx[:n_before] + idx[n_before + nb:]
        full_idx = [None] * t.rank
        for (g, rd) in zip(grp, readers):
            v = rd(bidx)
            d = dims_for[g]
            # torch semantics: negative indices wrap
            if isinstance(v, int):
                if v < 0:
                    v = i_add(v, d)
            full_idx[g] = v
        for (s, sv) in zip(slices, sidx):
            i, start, step, n = s
            full_idx[i] = i_add(start, i_mul(sv, step))
        return src(full_idx)

    out = STensor(out_shape, t.dtype, fn=fn, kind=t.kind)
    out.fdtype = t.fdtype
    out.adv_src = (t, grp, adv_ts, slices, n_before, nb)
    return out


def _getitem_mask(t, key):
    if not (isinstance(key[0], STensor) and key[0].dtype == BOOL):
        raise Unsupported("mask index not in leading position")
    mask = key[0]
    rest = key[1:]
    if any(not (isinstance(k, slice) and k.start is None and k.stop is None and k.step is None) for k in rest):
        raise Unsupported("mask index combined with other indices")
    m = mask.rank
    for a, b in zip(mask.shape, t.shape[:m]):
        e = dims_equal(a, b)
        if e is False:
            raise PyExc("IndexError", ("The shape of the mask %s does not match the shape of the indexed tensor %s" % (mask.shape, t.shape),))
        if e is None:
            ctx.cur().require(i_eq(a, b), "IndexError", "mask shape mismatch")
    sel = selection_of(mask)
    src = t.reader()
    out_shape = [sel.N] + t.shape[m:]

    def fn(idx):
        return src(sel.sel_at(idx[0]) + idx[1:])

    out = STensor(out_shape, t.dtype, fn=fn, kind=t.kind)
    out.row_sel = sel
    out.fdtype = t.fdtype
    return out


def setitem(t, key, value):
    """t[key] = value (in-place on t's storage)."""
    key_l = _expand_key(t, key)
    key_l = [from_nested(list(k), kind=t.kind) if isinstance(k, (list, tuple)) else k for k in key_l]
    has_mask = any(isinstance(k, STensor) and k.dtype == BOOL and k.rank > 0 for k in key_l)
    has_adv = any(_is_adv(k) for k in key_l)
    if isinstance(value, (list, tuple)):
        value = from_nested(value, kind=t.kind)
    if has_mask:
        full = lambda k: isinstance(k, slice) and k.start is None and k.stop is None and k.step is None
        lead = 0
        while lead < len(key_l) and full(key_l[lead]):
            lead += 1
        if lead > 0 and lead < len(key_l) and isinstance(key_l[lead], STensor) and key_l[lead].dtype == BOOL and all(full(k) for k in key_l[lead + 1:]):
            # t[:, mask] = v  ==  (t moved so the masked axes lead)[mask] = v
            if isinstance(value, STensor) and value.rank > 0:
                raise Unsupported("t[:, mask] = tensor")
            mask = key_l[lead]
            m = mask.rank
            for a, b in zip(mask.shape, t.shape[lead:lead + m]):
                e = dims_equal(a, b)
                if e is False:
                    raise PyExc("IndexError", ("boolean index did not match indexed array: %s vs %s" % (mask.shape, t.shape),))
                if e is None:
                    ctx.cur().require(i_eq(a, b), "IndexError", "mask shape mismatch")
            mr = mask.reader()
            vv = cast_scalar(value.at([]) if isinstance(value, STensor) else value, t.dtype)
            t.write(lambda idx, old: ite(to_bool(mr(idx[lead:lead + m])), vv, old))
            return
        mask = key_l[0]
        if not (isinstance(mask, STensor) and mask.dtype == BOOL):
            raise Unsupported("mask index not in leading position")
        if any(not (isinstance(k, slice) and k.start is None and k.stop is None and k.step is None) for k in key_l[1:]):
            raise Unsupported("mask index combined with other indices")
        m = mask.rank
        for a, b in zip(mask.shape, t.shape[:m]):
            e = dims_equal(a, b)
            if e is False:
                raise PyExc("IndexError", ("mask shape mismatch: %s vs %s" % (mask.shape, t.shape),))
            if e is None:
                ctx.cur().require(i_eq(a, b), "IndexError", "mask shape mismatch")
        mr = mask.reader()
        if isinstance(value, STensor) and value.rank > 0:
            # value rows align with the selected cells: shape broadcastable to (N, rest)
            sel = selection_of(mask)
            tgt_shape = [sel.N] + t.shape[m:]
            # torch requires value to broadcast to tgt_shape
            vshape = value.shape
            if len(vshape) > len(tgt_shape):
                raise PyExc("RuntimeError", ("shape mismatch in masked assignment",))
            off = len(tgt_shape) - len(vshape)
            for k, d in enumerate(vshape):
                if conc(d) and d == 1:
                    continue
                e = dims_equal(d, tgt_shape[off + k])
                if e is False:
                    raise PyExc("RuntimeError", ("shape mismatch: value tensor of shape %s cannot be broadcast to indexing result of shape %s" % (vshape, tgt_shape),))
                if e is None:
                    ctx.cur().require(i_eq(d, tgt_shape[off + k]), "RuntimeError", "masked assignment shape mismatch")
            vr = breader(value, len(tgt_shape))

            def upd(idx, old):
                c = to_bool(mr(idx[:m]))
                if c is False:
                    return old
                nv = cast_scalar(vr([sel.rank_at(idx[:m])] + idx[m:]), t.dtype)
                return ite(c, nv, old)

        else:
            v = value.at([]) if isinstance(value, STensor) else value
            v = cast_scalar(v, t.dtype)

            def upd(idx, old):
                return ite(to_bool(mr(idx[:m])), v, old)

        t.write(upd)
        return
    if has_adv:
        _setitem_adv(t, key_l, value)
        return
    view = _getitem_basic(t, key_l)
    if isinstance(value, STensor):
        # broadcast value to view shape
        bs = broadcast_shapes(view.shape, value.shape)
        if len(bs) != view.rank:
            raise PyExc("RuntimeError", ("shape mismatch in assignment",))
        vr = breader(value, view.rank)
        view.write(lambda idx, old: cast_scalar(vr(idx), t.dtype))
    else:
        v = cast_scalar(value, t.dtype)
        view.write(lambda idx, old: v)


def _setitem_adv(t, key_l, value):
    advpos = [i for i, k in enumerate(key_l) if _is_adv(k)]
    if len(advpos) != 1 or advpos[0] != 0:
        raise Unsupported("advanced-index assignment other than t[idx_tensor] = v")
    if any(not (isinstance(k, slice) and k.start is None and k.stop is None and k.step is None) for k in key_l[1:]):
        raise Unsupported("advanced-index assignment with extra indices")
    it = key_l[0]
    if it.rank != 1:
        raise Unsupported("advanced-index assignment with rank-%d index" % it.rank)
    n = it.shape[0]
    tgt_shape = [n] + t.shape[1:]
    if isinstance(value, STensor):
        vshape = value.shape
        off = len(tgt_shape) - len(vshape)
        if off < 0:
            raise PyExc("RuntimeError", ("shape mismatch in indexed assignment",))
        for k, d in enumerate(vshape):
            if conc(d) and d == 1:
                continue
            e = dims_equal(d, tgt_shape[off + k])
            if e is False:
                raise PyExc("RuntimeError", ("shape mismatch: value tensor of shape %s cannot be broadcast to indexing result of shape %s" % (vshape, tgt_shape),))
            if e is None:
                ctx.cur().require(i_eq(d, tgt_shape[off + k]), "RuntimeError", "indexed assignment shape mismatch")
        vr = breader(value, len(tgt_shape))
    else:
        vv = cast_scalar(value, t.dtype)
        vr = lambda idx: vv
    if it.selinfo is not None and it.selinfo[0].m == 1:
        sel = it.selinfo[0]
        # the index tensor enumerates exactly the True cells of a 1-D mask
        e = dims_equal(sel.shape[0], t.shape[0])
        if e is not True:
            ctx.cur().require(i_le(sel.shape[0], t.shape[0]), "IndexError", "index out of range")

        def upd(idx, old):
            c = sel.member([idx[0]])
            if c is False:
                return old
            nv = cast_scalar(vr([sel.rank_at([idx[0]])] + idx[1:]), t.dtype)
            return ite(c, nv, old)

        t.write(upd)
        return
    if conc(n):
        ir = it.reader()
        for r in range(n):
            i = ir([r])
            i = _norm_index(i, t.shape[0]) if isinstance(i, int) else i
            if not isinstance(i, int):
                ctx.cur().require(b_and(i_le(0, i), i_lt(i, t.shape[0])), "IndexError", "index out of range")

            def upd(idx, old, r=r, i=i):
                return ite(i_eq(idx[0], i), cast_scalar(vr([r] + idx[1:]), t.dtype), old)

            t.write(upd)
        return
    raise Unsupported("scatter through an index tensor of unknown provenance")


# =========================================================================== reductions


def _normalize_dims(t, dim):
    if dim is None:
        return list(range(t.rank))
    if isinstance(dim, (list, tuple)):
        return sorted(d % t.rank for d in dim)
    return [dim % t.rank]


def reduce_unrolled(t, dims, keepdim, init, comb, dtype=None, empty_error=None):
    """Reduce over concrete dims by unrolling."""
    sizes = [t.shape[d] for d in dims]
    if not all(conc(s) for s in sizes):
        raise Unsupported("reduction over symbolic axis %s" % (sizes,))
    src = t.reader()
    keep = [k for k in range(t.rank) if k not in dims]
    out_shape = [t.shape[k] if k not in dims else 1 for k in range(t.rank)] if keepdim else [t.shape[k] for k in keep]
    combos = list(itertools.product(*[range(s) for s in sizes]))
    if not combos and empty_error:
        raise PyExc(*empty_error)

    def fn(idx):
        full_idx = [None] * t.rank
        if keepdim:
            for k in keep:
                full_idx[k] = idx[k]
        else:
            for j, k in enumerate(keep):
                full_idx[k] = idx[j]
        acc = init
        first = True
        for c in combos:
            for d, v in zip(dims, c):
                full_idx[d] = v
            x = src(list(full_idx))
            if first and init is None:
                acc = x
            else:
                acc = comb(acc, x)
            first = False
        return acc

    return STensor(out_shape, dtype or t.dtype, fn=fn, kind=t.kind)


def tsum(t, dim=None, keepdim=False):
    dims = _normalize_dims(t, dim)
    dtype = INT if t.dtype == BOOL else t.dtype
    zero = 0.0 if dtype == FLOAT else 0
    add = f_add if dtype == FLOAT else (lambda a, b: i_add(a, zint(b) if not isinstance(b, (int, bool)) else int(b)))
    if all(conc(t.shape[d]) for d in dims):
        return reduce_unrolled(t, dims, keepdim, zero, add, dtype=dtype)
    return _sigma_reduce(t, dims, keepdim, dtype)


def tall(t, dim=None, keepdim=False):
    dims = _normalize_dims(t, dim)
    if all(conc(t.shape[d]) for d in dims):
        return reduce_unrolled(t, dims, keepdim, True, lambda a, b: b_and(a, to_bool(b)), dtype=BOOL)
    return _quant_reduce(t, dims, keepdim, "all")


def tany(t, dim=None, keepdim=False):
    dims = _normalize_dims(t, dim)
    if all(conc(t.shape[d]) for d in dims):
        return reduce_unrolled(t, dims, keepdim, False, lambda a, b: b_or(a, to_bool(b)), dtype=BOOL)
    return _quant_reduce(t, dims, keepdim, "any")


def _quant_reduce(t, dims, keepdim, which):
    """all/any over symbolic axes: the result is a fresh predicate with its defining
    (quantified) equivalence; a Skolem witness makes one direction quantifier-free."""
    src = t.reader()
    keep = [k for k in range(t.rank) if k not in dims]
    out_shape = [t.shape[k] if k not in dims else 1 for k in range(t.rank)] if keepdim else [t.shape[k] for k in keep]
    nm = fresh_name(which)
    nk = len(keep)
    P = z3.Function(nm, *([z3.IntSort()] * nk + [z3.BoolSort()])) if nk else z3.Bool(nm)
    W = [
        (z3.Function("%s_w%d" % (nm, j), *([z3.IntSort()] * nk + [z3.IntSort()])) if nk else z3.Int("%s_w%d" % (nm, j)))
        for j in range(len(dims))
    ]
    inst = {}

    def fn(idx):
        kidx = [zint(idx[k]) for k in keep] if keepdim else [zint(i) for i in idx]
        key = tuple(i.get_id() for i in kidx)
        if key in inst:
            return inst[key]
        p = P(*kidx) if nk else P
        w = [(Wj(*kidx) if nk else Wj) for Wj in W]
        full_idx = [None] * t.rank
        for j, k in enumerate(keep):
            full_idx[k] = kidx[j]
        for d, wv in zip(dims, w):
            full_idx[d] = wv
        in_rng = b_and(*[b_and(wv >= 0, wv < zint(t.shape[d])) for d, wv in zip(dims, w)])
        xw = to_bool(src(list(full_idx)))
        qv = [z3.Int(fresh_name("q")) for _ in dims]
        fi2 = list(full_idx)
        for d, v in zip(dims, qv):
            fi2[d] = v
        q_rng = b_and(*[b_and(v >= 0, v < zint(t.shape[d])) for d, v in zip(dims, qv)])
        xq = to_bool(src(list(fi2)))
        s = sink()
        if which == "any":
            # p -> witness in range with x[w];  (exists q. x[q]) -> p
            s.add(b_implies(p, b_and(in_rng, xw)))
            s.add(z3.ForAll(qv, zbool(b_implies(b_and(q_rng, xq), p))))
        else:
            # not p -> witness in range with not x[w];  p -> forall q. x[q]
            s.add(b_implies(b_not(p), b_and(in_rng, b_not(xw))))
            s.add(z3.ForAll(qv, zbool(b_implies(b_and(q_rng, p), xq))))
        inst[key] = p
        return p

    out = STensor(out_shape, BOOL, fn=fn, kind=t.kind)
    out.quant = (which, t, dims, keepdim)
    return out


# Σ abstraction ----------------------------------------------------------------------


class Sigma:
    """Abstract sum over a symbolic range.  SIG(k) is the sum of the first k terms:
    SIG(0) = 0, SIG(k+1) = SIG(k) + term(k).  Only unfolding facts at the end points and
    explicitly invoked lemmas are available to the solver."""

    registry = []


def _sigma_reduce(t, dims, keepdim, dtype):
    if len(dims) != 1:
        raise Unsupported("sum over several symbolic axes")
    d = dims[0]
    n = t.shape[d]
    src = t.reader()
    keep = [k for k in range(t.rank) if k != d]
    out_shape = [t.shape[k] if k != d else 1 for k in range(t.rank)] if keepdim else [t.shape[k] for k in keep]
    nm = fresh_name("SIG")
    nk = len(keep)
    if dtype == FLOAT:
        raise Unsupported("float sum over a symbolic axis (no Σ lemma requested)")
    S = z3.Function(nm, *([z3.IntSort()] * (nk + 1) + [z3.IntSort()]))
    inst = {}

    def term(kidx, j):
        full_idx = [None] * t.rank
        for a, k in enumerate(keep):
            full_idx[k] = kidx[a]
        full_idx[d] = j
        v = src(full_idx)
        return zint(v) if not isinstance(v, int) else z3.IntVal(v)

    def fn(idx):
        kidx = [zint(idx[k]) for k in keep] if keepdim else [zint(i) for i in idx]
        key = tuple(i.get_id() for i in kidx)
        if key in inst:
            return inst[key]
        s = sink()
        j = z3.Int(fresh_name("j"))
        s.add(S(*(kidx + [z3.IntVal(0)])) == 0)
        s.add(
            z3.ForAll(
                [j],
                z3.Implies(
                    z3.And(j >= 0, j < zint(n)),
                    S(*(kidx + [j + 1])) == S(*(kidx + [j])) + term(kidx, j),
                ),
            )
        )
        v = S(*(kidx + [zint(n)]))
        inst[key] = v
        return v

    out = STensor(out_shape, dtype, fn=fn, kind=t.kind)
    out.sigma = (S, t, d, keepdim)
    return out


def tmax_all(t):
    return reduce_unrolled(t, list(range(t.rank)), False, None, f_max if t.dtype == FLOAT else (lambda a, b: ite(i_lt(a, b), b, a)))


def targreduce(t, dim, keepdim, which):
    """torch.max/min along a dim -> (values, indices).

    Trusted contract (torch docs): values[i] is the max over the axis; indices[i] is *an*
    index attaining it.  NaN: if any element is NaN the max is NaN (torch propagates)."""
    dim = dim % t.rank
    first_index = getattr(ctx.cur(), "observed_refinements", False)
    # max/argmax is a function: reducing the same (unmodified) storage through the same view
    # twice gives the same values and the same indices.  The memo key contains the defining
    # term of the view at a canonical symbolic index, so different views never collide.
    owner = t.owner()
    try:
        canon = [z3.Int("argred_canon_%d" % k) for k in range(t.rank)]
        probe = t.at(canon)
        memo_key = (getattr(owner, "version", 0), _key(list(t.shape)), dim, bool(keepdim), which, bool(first_index))
    except Exception:
        memo_key = None
    memo = owner.__dict__.setdefault("_argred_memo", {})
    if memo_key is not None:
        for (pr, res) in memo.get(memo_key, []):
            if _same_struct(pr, probe):
                return res
    res = _targreduce_impl(t, dim, keepdim, which, first_index)
    if memo_key is not None:
        memo.setdefault(memo_key, []).append((probe, res))
    return res


def _same_struct(x, y):
    """Structural identity of two element terms (z3 `eq` is a constant-time DAG comparison)."""
    if isinstance(x, SFloat) and isinstance(y, SFloat):
        return _same_struct(x.nan, y.nan) and _same_struct(x.inf, y.inf) and _same_struct(x.val, y.val)
    if isinstance(x, z3.ExprRef) and isinstance(y, z3.ExprRef):
        return x.eq(y)
    if isinstance(x, z3.ExprRef) or isinstance(y, z3.ExprRef) or isinstance(x, SFloat) or isinstance(y, SFloat):
        return False
    return type(x) == type(y) and (x == y or (x != x and y != y))


def _targreduce_impl(t, dim, keepdim, which, first_index):
    n = t.shape[dim]
    src = t.reader()
    keep = [k for k in range(t.rank) if k != dim]
    out_shape = [t.shape[k] if k != dim else 1 for k in range(t.rank)] if keepdim else [t.shape[k] for k in keep]
    isf = t.dtype == FLOAT
    better = (lambda a, b: f_lt(a, b)) if which == "max" else (lambda a, b: f_lt(b, a))
    if not isf:
        better = (lambda a, b: i_lt(a, b)) if which == "max" else (lambda a, b: i_lt(b, a))

    def kidx_of(idx):
        return [idx[k] for k in keep] if keepdim else list(idx)

    def full_of(kidx, j):
        f = [None] * t.rank
        for a, k in enumerate(keep):
            f[k] = kidx[a]
        f[dim] = j
        return f

    if conc(n):
        if n == 0:
            raise PyExc("IndexError", ("max(): Expected reduction dim to be specified for input.numel() == 0",))

        def val_fn(idx):
            kidx = kidx_of(idx)
            acc = src(full_of(kidx, 0))
            for j in range(1, n):
                x = src(full_of(kidx, j))
                if isf:
                    acc = f_max(acc, x) if which == "max" else f_min(acc, x)
                else:
                    acc = ite(better(acc, x), x, acc)
            return acc

        vals = STensor(out_shape, t.dtype, fn=val_fn, kind=t.kind)
        nm = fresh_name("arg" + which)
        nk = len(keep)
        A = z3.Function(nm, *([z3.IntSort()] * nk + [z3.IntSort()])) if nk else z3.Int(nm)
        inst = {}
        vreader = vals.reader()

        def idx_fn(idx):
            kidx = kidx_of(idx)
            if all(isinstance(src(full_of(kidx, j)), (int, float)) for j in range(n)):
                # concrete: first index attaining the optimum (observed CPU behaviour)
                xs = [src(full_of(kidx, j)) for j in range(n)]
                best = 0
                for j in range(1, n):
                    if isinstance(xs[j], float) and math.isnan(xs[j]) and not (isinstance(xs[best], float) and math.isnan(xs[best])):
                        best = j
                        break
                    if (xs[j] > xs[best]) if which == "max" else (xs[j] < xs[best]):
                        best = j
                return best
            zk = [zint(i) for i in kidx]
            key = tuple(i.get_id() for i in zk)
            if key in inst:
                return inst[key]
            a = A(*zk) if nk else A
            s = sink()
            s.add(b_and(a >= 0, a < n))
            v = vreader(idx if keepdim else idx)
            alts = []
            for j in range(n):
                x = src(full_of(kidx, j))
                alts.append(b_and(a == j, same(x, v)))
            s.add(b_or(*alts))
            if first_index:
                for j in range(n):
                    for j2 in range(j):
                        x2 = src(full_of(kidx, j2))
                        s.add(b_implies(a == j, b_not(same(x2, v))))
            inst[key] = a
            return a

        inds = STensor(out_shape, INT, fn=idx_fn, kind=t.kind)
        return vals, inds
    # symbolic axis: quantified contract
    nm = fresh_name(which)
    nk = len(keep)
    if not isf:
        raise Unsupported("integer max over a symbolic axis")
    mg = getattr(t, "merge_groups", None)
    if mg and dim in mg and t.base is not None and all(k in getattr(t, "dim_map", {}) for k in keep):
        return _targreduce_merged(t, dim, keepdim, which, keep, out_shape, first_index)
    Vv = z3.Function(nm + "_v", *([z3.IntSort()] * nk + [z3.RealSort()])) if nk else z3.Real(nm + "_v")
    Vn = z3.Function(nm + "_n", *([z3.IntSort()] * nk + [z3.BoolSort()])) if nk else z3.Bool(nm + "_n")
    A = z3.Function(nm + "_a", *([z3.IntSort()] * nk + [z3.IntSort()])) if nk else z3.Int(nm + "_a")
    inst = {}
    # general (quantified) form of the contract, so that nested reductions and facts arising
    # from other quantifier instantiations are covered; ground uses get explicit instances
    if nk:
        qk = [z3.Int(fresh_name("rk")) for _ in range(nk)]
        qj = z3.Int(fresh_name("rj"))
        krange = b_and(*[b_and(q >= 0, i_lt(q, t.shape[k])) for q, k in zip(qk, keep)])
        gv = SFloat(Vn(*qk), False, Vv(*qk))
        ga = A(*qk)
        gx = sfloat(src(full_of(qk, qj)))
        gxa = src(full_of(qk, ga))
        s0 = sink()
        if gx.inf is False:
            s0.add(z3.ForAll(qk + [qj], zbool(b_implies(b_and(krange, qj >= 0, i_lt(qj, n)),
                                                       b_and(b_implies(gx.nan, gv.nan),
                                                             b_implies(b_not(gv.nan), (gv.val >= gx.val) if which == "max" else (gv.val <= gx.val))))),
                             ))
            s0.add(z3.ForAll(qk, zbool(b_implies(b_and(krange, i_lt(0, n)), b_and(ga >= 0, i_lt(ga, n), same(gxa, gv)))),
                             patterns=[Vv(*qk)]))

    # torch raises at the call (not per element) when the reduced axis is empty
    ctx.cur().require(i_lt(0, n), "IndexError", "max over an empty axis")

    def get(idx):
        kidx = kidx_of(idx)
        zk = [zint(i) for i in kidx]
        key = tuple(i.get_id() for i in zk)
        if key in inst:
            return inst[key]
        v = SFloat(Vn(*zk) if nk else Vn, False, Vv(*zk) if nk else Vv)
        a = A(*zk) if nk else A
        s = sink()
        s.add(b_and(a >= 0, a < zint(n)))
        xa = src(full_of(zk, a))
        s.add(same(xa, v))
        j = z3.Int(fresh_name("j"))
        xj = sfloat(src(full_of(zk, j)))
        if xj.inf is not False:
            raise Unsupported("max over symbolic axis with infinities")
        # NaN propagates; otherwise v >= every element
        body = b_and(
            b_implies(xj.nan, v.nan),
            b_implies(b_not(v.nan), (v.val >= xj.val) if which == "max" else (v.val <= xj.val)),
        )
        s.add(z3.ForAll([j], zbool(b_implies(b_and(j >= 0, j < zint(n)), body))))
        if first_index:
            j2 = z3.Int(fresh_name("j"))
            xj2 = src(full_of(zk, j2))
            s.add(z3.ForAll([j2], zbool(b_implies(b_and(j2 >= 0, j2 < a), b_not(same(xj2, v))))))
        inst[key] = (v, a)
        return v, a

    vals = STensor(out_shape, FLOAT, fn=lambda idx: get(idx)[0], kind=t.kind)
    inds = STensor(out_shape, INT, fn=lambda idx: get(idx)[1], kind=t.kind)
    return vals, inds


def _targreduce_merged(t, dim, keepdim, which, keep, out_shape, first_index):
    """max/min over an axis that is a row-major merge of several axes of the underlying tensor
    (x.reshape(S, C, -1).max(dim=2)): the contract is stated over the original axes -- the
    value bounds every cell, is attained at (A_0, .., A_k), and the returned flat index is
    their row-major linearisation (with the div/mod facts that recover them)."""
    base = t.base
    src = base.reader()
    gdims = t.merge_groups[dim]
    sizes = [base.shape[d] for d in gdims]
    nk = len(keep)
    nm = fresh_name(which + "m")
    Vv = z3.Function(nm + "_v", *([z3.IntSort()] * nk + [z3.RealSort()])) if nk else z3.Real(nm + "_v")
    Vn = z3.Function(nm + "_n", *([z3.IntSort()] * nk + [z3.BoolSort()])) if nk else z3.Bool(nm + "_n")
    As = [(z3.Function("%s_a%d" % (nm, g), *([z3.IntSort()] * nk + [z3.IntSort()])) if nk else z3.Int("%s_a%d" % (nm, g))) for g in range(len(gdims))]

    def base_idx(kidx, gidx):
        f = [None] * base.rank
        for a_, k in enumerate(keep):
            f[t.dim_map[k]] = kidx[a_]
        for d, g in zip(gdims, gidx):
            f[d] = g
        if any(x is None for x in f):
            raise Unsupported("reduction over a merged axis: unmapped base dimension")
        return f

    def val(kk):
        return SFloat(Vn(*kk) if nk else Vn, False, Vv(*kk) if nk else Vv)

    def args(kk):
        return [(A(*kk) if nk else A) for A in As]

    def facts(kk, guard):
        v = val(kk)
        a = args(kk)
        inr = b_and(*[b_and(x >= 0, i_lt(x, sz)) for x, sz in zip(a, sizes)])
        return b_implies(guard, b_and(inr, same(src(base_idx(kk, a)), v)))

    s0 = sink()
    qk = [z3.Int(fresh_name("rk")) for _ in range(nk)]
    qg = [z3.Int(fresh_name("rg")) for _ in gdims]
    krange = b_and(*[b_and(q >= 0, i_lt(q, t.shape[k])) for q, k in zip(qk, keep)])
    grange = b_and(*[b_and(q >= 0, i_lt(q, sz)) for q, sz in zip(qg, sizes)])
    nonempty = b_and(*[i_lt(0, sz) for sz in sizes])
    gv = val(qk)
    gx = sfloat(src(base_idx(qk, qg)))
    if gx.inf is not False:
        raise Unsupported("max over symbolic axes with infinities")
    bound = b_and(b_implies(gx.nan, gv.nan), b_implies(b_not(gv.nan), (gv.val >= gx.val) if which == "max" else (gv.val <= gx.val)))
    s0.add(z3.ForAll(qk + qg, zbool(b_implies(b_and(krange, grange), bound))))
    if nk:
        s0.add(z3.ForAll(qk, zbool(facts(qk, b_and(krange, nonempty))), patterns=[Vv(*qk)]))
    inst = {}
    # torch raises at the call (not per element) when the reduced axes are empty
    ctx.cur().require(nonempty, "IndexError", "max over an empty axis")

    def get(idx):
        kidx = [idx[k] for k in keep] if keepdim else list(idx)
        zk = [zint(i) for i in kidx]
        key = tuple(i.get_id() for i in zk)
        if key in inst:
            return inst[key][1:]
        s0.add(zbool(facts(zk, True)))
        a = args(zk)
        # row-major flat index and the facts recovering its components
        flat = a[0]
        for g in range(1, len(a)):
            ctx.cur().lemma_instance("linear-index-div-mod", ["int", "int", "int"], _linidx_body, (flat, a[g], zint(sizes[g])))
            flat = flat * zint(sizes[g]) + a[g]
        if first_index:
            qg2 = [z3.Int(fresh_name("rf")) for _ in gdims]
            gr2 = b_and(*[b_and(q >= 0, i_lt(q, sz)) for q, sz in zip(qg2, sizes)])
            s0.add(z3.ForAll(qg2, zbool(b_implies(b_and(gr2, lex_lt(qg2, a)), b_not(same(src(base_idx(zk, qg2)), val(zk)))))))
        inst[key] = (zk, val(zk), flat)
        return val(zk), flat

    vals = STensor(out_shape, FLOAT, fn=lambda idx: get(idx)[0], kind=t.kind)
    inds = STensor(out_shape, INT, fn=lambda idx: get(idx)[1], kind=t.kind)
    return vals, inds


# =========================================================================== combination


def stack(ts, dim=0):
    ts = [as_tensor(x) for x in ts]
    if not ts:
        raise PyExc("RuntimeError", ("stack expects a non-empty TensorList",))
    r = ts[0].rank + 1
    dim = dim % r
    sh0 = ts[0].shape
    for x in ts[1:]:
        if x.rank != ts[0].rank:
            raise PyExc("RuntimeError", ("stack expects each tensor to be equal size",))
        for a, b in zip(sh0, x.shape):
            e = dims_equal(a, b)
            if e is False:
                raise PyExc("RuntimeError", ("stack expects each tensor to be equal size",))
            if e is None:
                ctx.cur().require(i_eq(a, b), "RuntimeError", "stack expects each tensor to be equal size")
    shape = sh0[:dim] + [len(ts)] + sh0[dim:]
    readers = [x.reader() for x in ts]
    dtype = ts[0].dtype
    for x in ts[1:]:
        dtype = promote(dtype, x.dtype)

    def fn(idx):
        j = idx[dim]
        sub = idx[:dim] + idx[dim + 1:]
        if isinstance(j, int):
            return cast_scalar(readers[j](sub), dtype)
        r_ = cast_scalar(readers[-1](sub), dtype)
        for k in range(len(ts) - 2, -1, -1):
            r_ = ite(i_eq(j, k), cast_scalar(readers[k](sub), dtype), r_)
        return r_

    return STensor(shape, dtype, fn=fn, kind=ts[0].kind)


def cat(ts, dim=0):
    ts = [as_tensor(x) for x in ts]
    if not ts:
        raise PyExc("RuntimeError", ("cat expects a non-empty TensorList",))
    # torch legacy: 1-D empty tensors are skipped
    r = ts[0].rank
    dim = dim % r
    offs = [0]
    for x in ts:
        offs.append(i_add(offs[-1], x.shape[dim]))
    for x in ts[1:]:
        if x.rank != r:
            raise PyExc("RuntimeError", ("Tensors must have same number of dimensions",))
        for k, (a, b) in enumerate(zip(ts[0].shape, x.shape)):
            if k == dim:
                continue
            e = dims_equal(a, b)
            if e is False:
                raise PyExc("RuntimeError", ("Sizes of tensors must match except in dimension %d" % dim,))
            if e is None:
                ctx.cur().require(i_eq(a, b), "RuntimeError", "cat size mismatch")
    shape = list(ts[0].shape)
    shape[dim] = simplify_scalar(offs[-1])
    readers = [x.reader() for x in ts]
    dtype = ts[0].dtype
    for x in ts[1:]:
        dtype = promote(dtype, x.dtype)

    def fn(idx):
        j = idx[dim]
        if isinstance(j, int) and all(conc(o) for o in offs):
            for k in range(len(ts)):
                if offs[k] <= j < offs[k + 1]:
                    sub = list(idx)
                    sub[dim] = j - offs[k]
                    return cast_scalar(readers[k](sub), dtype)
            raise PyExc("IndexError", ("cat index",))
        res = None
        for k in range(len(ts) - 1, -1, -1):
            sub = list(idx)
            sub[dim] = i_sub(j, offs[k])
            v = cast_scalar(readers[k](sub), dtype)
            if res is None:
                res = v
            else:
                res = ite(i_lt(j, offs[k + 1]), v, res)
        return res

    return STensor(shape, dtype, fn=fn, kind=ts[0].kind)


def where3(c, a, b):
    da = a.dtype if isinstance(a, STensor) else scalar_dtype(a)
    db = b.dtype if isinstance(b, STensor) else scalar_dtype(b)
    dt = promote(da, db)
    return elementwise(lambda cc, x, y: ite(to_bool(cc), cast_scalar(x, dt), cast_scalar(y, dt)), c, a, b, dtype=dt)


def meshgrid_ij(a, b):
    ra, rb = a.reader(), b.reader()
    A = STensor([a.shape[0], b.shape[0]], a.dtype, fn=lambda idx: ra([idx[0]]), kind=a.kind)
    B = STensor([a.shape[0], b.shape[0]], b.dtype, fn=lambda idx: rb([idx[1]]), kind=b.kind)
    return A, B


def clone(t):
    r = t.reader()
    out = STensor(list(t.shape), t.dtype, fn=lambda idx: r(idx), kind=t.kind)
    out.fdtype = t.fdtype
    out.row_sel = t.row_sel
    return out


def to_dtype(t, dtype):
    if dtype == t.dtype:
        return t  # torch .to(same dtype) returns self
    r = t.reader()
    out = STensor(list(t.shape), dtype, fn=lambda idx: cast_scalar(r(idx), dtype), kind=t.kind)
    out.selinfo = t.selinfo
    out.row_sel = t.row_sel
    return out


def iter_rows(t):
    """Python iteration over the first axis (requires a concrete length)."""
    if t.rank == 0:
        raise PyExc("TypeError", ("iteration over a 0-d tensor",))
    n = t.shape[0]
    if not conc(n):
        raise Unsupported("iteration over a tensor with symbolic length")
    return [getitem(t, i) for i in range(n)]


def tensors_same(a, b, idx_vars=None):
    """(shape equality, elementwise identity at fresh indices, index hypotheses)."""
    if a.rank != b.rank:
        return False, False, True, []
    sh = b_and(*[i_eq(x, y) for x, y in zip(a.shape, b.shape)])
    idx = idx_vars or [fresh_int("i") for _ in range(a.rank)]
    hyp = b_and(*[b_and(i_le(0, i), i_lt(i, d)) for i, d in zip(idx, a.shape)])
    el = same(a.at(idx), b.at(idx))
    return sh, el, hyp, idx
