"""Concrete side (runs under /venv/bin/python, which has torch/numpy and the repository):

  replay      -- rebuild the verifier's counterexample as real torch/numpy inputs, call the
                 REAL function from /repo, and evaluate the same contract clauses concretely.
  crosscheck  -- soundness guard: the symbolic interpreter run in concrete mode on random
                 inputs must agree with CPython executing the real function (validates the
                 interpreter and the trusted library models on the real code).

The kornia import failure of the pinned environment (kornia.core.Tensor missing) is shimmed
here, harness-side only.
"""
from __future__ import annotations

import importlib
import itertools
import json
import math
import os
import random
import sys
import traceback

from . import tensor as T, values as V
from .contracts import CCtx, Forall, REGISTRY, _named, equal_clauses
from .ctx import PathAbort, PyExc, Unsupported
from .path import Path
from .tensor import BOOL, FLOAT, INT, STensor


def _shim():
    repo = os.environ.get("PYVC_REPO", "/repo")
    if repo not in sys.path:
        sys.path.insert(0, repo)
    try:
        import torch
        import kornia.core as kc

        if not hasattr(kc, "Tensor"):
            kc.Tensor = torch.Tensor
    except Exception:
        pass


class ConcreteCtx(CCtx):
    """CCtx whose symbolic-input constructors return the concrete values of a replay file."""

    def __init__(self, values):
        self.values = values
        self.log = {}
        self.path = Path()
        self.dim_override = {}
        self.mode = "concrete"

    def _get(self, name):
        if name not in self.values:
            raise KeyError("replay input %r missing" % name)
        return self.values[name]

    def dim(self, name, lo=0, hi=None):
        return int(self._get(name))

    def int(self, name, lo=None, hi=None):
        return int(self._get(name))

    def real(self, name, nan_ok=False, inf_ok=False):
        return _pf(self._get(name))

    def bool(self, name):
        return bool(self._get(name))

    def tensor(self, name, shape, dtype=FLOAT, nan_ok=True, inf_ok=False, kind="torch", lo=None, hi=None):
        rec = self._get(name)
        shape = [int(d) for d in shape]
        data = rec["data"]
        if dtype == FLOAT:
            data = [_pf(x) for x in data]
        elif dtype == INT:
            data = [int(x) for x in data]
        else:
            data = [bool(x) for x in data]
        n = 1
        for d in shape:
            n *= d
        if n != len(data):
            raise ValueError("replay tensor %s: %d elements for shape %s" % (name, len(data), shape))
        t = T.from_flat(shape, data, dtype, kind=kind)
        t.origin = ("arg", name)
        return t

    def assume(self, *conds):
        for cnd in conds:
            if cnd is not True and not (isinstance(cnd, bool) and cnd):
                raise ValueError("replay inputs violate an input assumption")

    def fact(self, f):
        pass

    def lemma(self, name, clause, then=None, level="property"):
        return None

    def apply_lemma(self, name, nvars, body, instances, kinds=None):
        return None


def _pf(x):
    if isinstance(x, str):
        return {"nan": math.nan, "inf": math.inf, "-inf": -math.inf}[x]
    return float(x)


class RandomCtx(ConcreteCtx):
    def __init__(self, rng, con):
        ConcreteCtx.__init__(self, {})
        self.rng = rng
        self.con = con
        self.log = {}
        self.values = {}

    def _rr(self):
        r = dict(self.con.dim_ranges)
        r.update(getattr(self.con, "rand_ranges", {}))
        return r

    def dim(self, name, lo=0, hi=None):
        if name in self.log:
            return self.log[name]
        a, b = self._rr().get(name, (max(lo, 0), max(lo, 0) + 3))
        a = max(a, lo)
        if hi is not None:
            b = min(b, hi)
        v = self.rng.randint(a, max(a, b))
        self.log[name] = v
        return v

    def int(self, name, lo=None, hi=None):
        if name in self.log:
            return self.log[name]
        a, b = self._rr().get(name, (lo if lo is not None else -3, (lo if lo is not None else -3) + 6))
        if lo is not None:
            a = max(a, lo)
        if hi is not None:
            b = min(b, hi)
        v = self.rng.randint(a, max(a, b))
        self.log[name] = v
        return v

    def real(self, name, nan_ok=False, inf_ok=False):
        if name in self.log:
            return self.log[name]
        a, b = self._rr().get(name, (0.25, 4.0))
        v = round(self.rng.uniform(a, b), 3)
        self.log[name] = v
        return v

    def bool(self, name):
        if name not in self.log:
            self.log[name] = self.rng.random() < 0.5
        return self.log[name]

    def tensor(self, name, shape, dtype=FLOAT, nan_ok=True, inf_ok=False, kind="torch", lo=None, hi=None):
        shape = [int(d) for d in shape]
        n = 1
        for d in shape:
            n *= d
        rg = self._rr().get(name)
        if dtype == FLOAT:
            a, b = rg if rg else ((lo if lo is not None else -4.0), (hi if hi is not None else 12.0))
            grid = self.rng.random() < 0.5
            data = []
            for _ in range(n):
                if nan_ok and self.rng.random() < 0.2:
                    data.append(math.nan)
                elif grid:
                    data.append(float(self.rng.randint(int(a), int(b))) / 2.0 if (b - a) < 6 else float(self.rng.randint(int(a), int(b))))
                else:
                    data.append(round(self.rng.uniform(a, b), 3))
        elif dtype == INT:
            a, b = rg if rg else ((lo if lo is not None else 0), (hi if hi is not None else 3))
            data = [self.rng.randint(int(a), int(b)) for _ in range(n)]
        else:
            data = [self.rng.random() < 0.5 for _ in range(n)]
        self.log[name] = {"shape": shape, "dtype": dtype, "data": ["nan" if isinstance(x, float) and math.isnan(x) else x for x in data], "np": kind == "numpy"}
        self.values[name] = self.log[name]
        return ConcreteCtx.tensor(self, name, shape, dtype, nan_ok, inf_ok, kind)

    def assume(self, *conds):
        for cnd in conds:
            if not (cnd is True):
                raise PathAbort("random inputs violate an assumption")


# ------------------------------------------------------------------------- value bridging


def to_real(v):
    import numpy as np
    import torch

    if isinstance(v, STensor):
        if not all(isinstance(d, int) for d in v.shape):
            raise ValueError("symbolic shape in concrete value")
        rd = v.reader()
        flat = [rd(list(idx)) for idx in itertools.product(*[range(d) for d in v.shape])]
        if v.kind == "numpy":
            dt = {FLOAT: np.float32, INT: np.int64, BOOL: np.bool_}[v.dtype]
            return np.array(flat, dtype=dt).reshape(v.shape)
        dt = {FLOAT: torch.float32, INT: torch.int64, BOOL: torch.bool}[v.dtype]
        return torch.tensor(flat, dtype=dt).reshape(v.shape)
    if isinstance(v, tuple):
        return tuple(to_real(x) for x in v)
    if isinstance(v, list):
        return [to_real(x) for x in v]
    if isinstance(v, dict):
        return {k: to_real(x) for k, x in v.items()}
    if hasattr(v, "__pyvc_to_real__"):
        return v.__pyvc_to_real__()
    return v


def from_real(v):
    import numpy as np
    import torch

    if isinstance(v, torch.Tensor):
        if getattr(v, "is_nested", False):
            return [from_real(x) for x in v.unbind()]
        dt = FLOAT if v.dtype.is_floating_point else (BOOL if v.dtype == torch.bool else INT)
        flat = v.detach().cpu().reshape(-1).tolist()
        return T.from_flat(list(v.shape), flat, dt, kind="torch")
    if isinstance(v, np.ndarray):
        dt = FLOAT if np.issubdtype(v.dtype, np.floating) else (BOOL if v.dtype == np.bool_ else INT)
        if v.dtype == object:
            return [from_real(x) for x in v.tolist()]
        return T.from_flat(list(v.shape), v.reshape(-1).tolist(), dt, kind="numpy")
    if isinstance(v, (np.floating,)):
        return float(v)
    if isinstance(v, (np.integer,)):
        return int(v)
    if isinstance(v, (np.bool_,)):
        return bool(v)
    if isinstance(v, tuple):
        return tuple(from_real(x) for x in v)
    if isinstance(v, list):
        return [from_real(x) for x in v]
    if isinstance(v, dict):
        return {k: from_real(x) for k, x in v.items()}
    return v


def eval_clause(cl):
    """Concrete truth of a clause (Forall enumerated).  Returns (bool, witness)."""
    if isinstance(cl, Forall):
        def _i(x):
            x = V.simplify_scalar(x) if not isinstance(x, int) else x
            return int(x) if isinstance(x, int) else int(str(x))

        rngs = [range(_i(lo), _i(b)) for lo, b in zip(cl.lower, cl.bounds)]
        for idx in itertools.product(*rngs):
            r = cl.fn(*idx)
            r = V.simplify_scalar(r) if not isinstance(r, bool) else r
            if r is not True:
                if r is False:
                    return False, list(idx)
                return None, list(idx)
        return True, None
    r = V.simplify_scalar(cl) if not isinstance(cl, bool) else cl
    if r is True or r is False:
        return r, None
    return None, None


def real_call(con, real_args):
    if hasattr(con, "real_call"):
        return con.real_call(real_args)
    mod, fn = con.target.rsplit(".", 1)
    m = importlib.import_module(mod)
    return getattr(m, fn)(**real_args)


def replay_file(path):
    """Exit status: 0 = violation confirmed against the real code, 1 = not confirmed,
    2 = could not run."""
    _shim()
    from .main import load_contracts

    load_contracts()
    rec = json.load(open(path))
    con = REGISTRY.get(rec["target"])
    V.TOL[0] = 1e-4
    c = ConcreteCtx(rec["inputs"])
    c.path.enter()
    try:
        args = con.inputs(c, rec.get("case"))
        for name, cond in _named(con.requires(c, **args)):
            ok, _ = eval_clause(cond)
            if ok is not True:
                print("REPLAY: inputs do not satisfy precondition %s" % name)
                return 1
        real_args = {k: to_real(v) for k, v in args.items()}
        obl = rec["obligation"]
        try:
            out = real_call(con, real_args)
        except (PathAbort, Unsupported) as e:
            print("REPLAY: the contract harness rejected these inputs (%s): not a witness" % type(e).__name__)
            return 1
        except Exception as e:
            print("REPLAY: real %s raised %s: %s" % (con.target, type(e).__name__, e))
            if "/total(" in obl:
                print("REPLAY: CONFIRMED (exception escapes, the contract says total)")
                return 0
            return 1
        if "/total(" in obl:
            print("REPLAY: real function returned normally")
            return 1
        result = from_real(out)
        # argument values after the call (frame clauses)
        args_after = {k: from_real(v) for k, v in real_args.items()}
        sp = con.spec(c, **args)
        clauses = []
        if sp is not NotImplemented:
            clauses.extend(equal_clauses("post", result, sp))
        clauses.extend(_named(con.ensures(c, result, **args)))
        for k in args:
            if isinstance(args[k], STensor):
                clauses.extend(equal_clauses("frame/%s-unmodified" % k, args_after[k], args[k]))
        want = obl.split("/", 1)[1] if "/" in obl else obl
        bad = []
        for name, cl in clauses:
            ok, wit = eval_clause(cl)
            if ok is not True:
                bad.append((name, ok, wit))
        if not obl.split("/", 1)[-1].startswith("FULL/") and "/FULL/" not in obl:
            bad = [b for b in bad if not b[0].startswith("FULL/")]
        for name, ok, wit in bad:
            print("REPLAY: clause %s evaluates to %s on the real output (witness index %s)" % (name, ok, wit))
        hit = [b for b in bad if b[0] in obl or obl.endswith(b[0])]
        if hit:
            print("REPLAY: CONFIRMED obligation %s fails on the real code" % obl)
            return 0
        if bad:
            print("REPLAY: CONFIRMED (a clause of the same contract fails on the real code: %s)" % bad[0][0])
            return 0
        print("REPLAY: not confirmed -- all clauses hold on the real output")
        return 1
    except Exception as e:
        traceback.print_exc()
        return 2
    finally:
        c.path.leave()


def _close(a, b, rtol=2e-4, atol=2e-5):
    """Structural comparison of two real values."""
    import numpy as np
    import torch

    if isinstance(a, torch.Tensor):
        a = a.detach().cpu().numpy() if not getattr(a, "is_nested", False) else [x.numpy() for x in a.unbind()]
    if isinstance(b, torch.Tensor):
        b = b.detach().cpu().numpy() if not getattr(b, "is_nested", False) else [x.numpy() for x in b.unbind()]
    if isinstance(a, np.ndarray) or isinstance(b, np.ndarray):
        a, b = np.asarray(a), np.asarray(b)
        if a.shape != b.shape:
            return False
        if a.dtype == np.bool_ or b.dtype == np.bool_:
            return bool((a.astype(bool) == b.astype(bool)).all())
        a64, b64 = a.astype(np.float64), b.astype(np.float64)
        # ill-conditioned elements are not compared: where the exact-real model divides by a sum
        # that is exactly zero (NaN / inf) float32 divides by a rounding residue and returns some
        # huge number (or the other way round) -- this is the stated "floats as reals"
        # assumption, not a modelling error
        blown = (~np.isfinite(a64) & (~np.isfinite(b64) | (np.abs(b64) > 1e5))) | (~np.isfinite(b64) & (np.abs(a64) > 1e5)) | ((np.abs(a64) > 1e5) & (np.abs(b64) > 1e5))
        nan_both = np.isnan(a64) & np.isnan(b64)
        if blown.any():
            # the same division by an exactly-zero sum also yields 0/0 = NaN in the model where
            # float32 returns an arbitrary finite quotient
            blown = blown | ~np.isfinite(a64)
        ok = np.isclose(a64, b64, rtol=rtol, atol=atol, equal_nan=True) | blown | nan_both
        return bool(ok.all())
    if isinstance(a, (tuple, list)) and isinstance(b, (tuple, list)):
        return len(a) == len(b) and all(_close(x, y) for x, y in zip(a, b))
    if isinstance(a, dict) and isinstance(b, dict):
        return set(a) == set(b) and all(_close(a[k], b[k]) for k in a)
    if isinstance(a, (int, float)) and isinstance(b, (int, float)):
        if isinstance(a, float) and math.isnan(a):
            return isinstance(b, float) and math.isnan(b)
        return abs(a - b) <= atol + rtol * abs(b)
    return a == b


def crosscheck(prop, seed, n_each=6):
    """Interpreter-vs-CPython agreement on random inputs for every contract of a property."""
    _shim()
    from .interp import Interp
    from .loader import Loader
    from .main import load_contracts

    load_contracts()
    loader = Loader(os.environ.get("PYVC_REPO", "/repo"))
    rng = random.Random(seed)
    V.TOL[0] = 1e-6
    res = {"runs": 0, "agree": 0, "skipped": 0, "disagreements": [], "by_function": {}}
    for target in REGISTRY.order:
        con = REGISTRY.get(target)
        if prop not in con.props or getattr(con, "no_crosscheck", False) or not con.cases:
            continue
        done = 0
        tries = 0
        while done < n_each and tries < n_each * 8:
            tries += 1
            case = rng.choice(list(con.cases))
            c = RandomCtx(rng, con)
            c.path.enter()
            try:
                try:
                    args = con.inputs(c, case)
                    ok = all(eval_clause(cond)[0] is True for _, cond in _named(con.requires(c, **args)))
                except PathAbort:
                    ok = False
                if not ok:
                    continue
                real_args = {k: to_real(v) for k, v in args.items()}
                interp = Interp(loader, None, c.path, top=con.target)
                try:
                    mine = ("ok", to_real(con.run(interp, args)))
                except PyExc as e:
                    mine = ("exc", e.cls_name)
                except Unsupported as e:
                    res["skipped"] += 1
                    res.setdefault("skips", []).append("%s: %s" % (target, e))
                    done += 1
                    continue
                try:
                    real = ("ok", real_call(con, real_args))
                except Exception as e:
                    real = ("exc", type(e).__name__)
                res["runs"] += 1
                done += 1
                same = mine[0] == real[0] and (_close(mine[1], real[1]) if mine[0] == "ok" else True)
                if same:
                    res["agree"] += 1
                    res["by_function"][target] = res["by_function"].get(target, 0) + 1
                else:
                    res["disagreements"].append({"target": target, "case": case, "inputs": c.log, "interp": _short(mine), "real": _short(real)})
            finally:
                c.path.leave()
    return res


def clause_failures(con, c, args, case):
    """Run the real function on concrete args and evaluate every contract clause."""
    real_args = {k: to_real(v) for k, v in args.items()}
    try:
        out = real_call(con, real_args)
    except (PathAbort, Unsupported):
        # raised by the contract's own harness (a ghost whose assumption does not hold for these
        # random values), not by the code under test: this input is simply not in the domain
        return []
    except Exception as e:
        if con.level == "property" and con.total and con.allowed_exception(c, PyExc(type(e).__name__, e.args), **args) is not True:
            return [("total(no %s)" % type(e).__name__, False, None)]
        return []
    result = from_real(out)
    args_after = {k: from_real(v) for k, v in real_args.items()}
    sp = con.spec(c, **args)
    clauses = []
    if sp is not NotImplemented:
        clauses.extend(equal_clauses("post", result, sp))
    clauses.extend(_named(con.ensures(c, result, **args)))
    if con.pure:
        for k in args:
            if isinstance(args[k], STensor) and k not in getattr(con, "modifies", ()):
                clauses.extend(equal_clauses("frame/%s-unmodified" % k, args_after[k], args[k]))
    bad = []
    for name, cl in clauses:
        if name.startswith("FULL/"):
            continue
        if not (con.level == "property" or name.startswith("PL/")):
            continue  # helper-level clauses: contract drift is not a property violation
        ok, wit = eval_clause(cl)
        if ok is False:
            bad.append((name, ok, wit))
    return bad


def random_search(prop, targets, seed, n_each, outdir):
    """Counterexample search of last resort: random small concrete inputs run through the REAL
    function; every clause of its contract is evaluated on the real output.  A failing clause
    is a replayable failing input by construction."""
    _shim()
    from .main import load_contracts

    load_contracts()
    V.TOL[0] = 1e-4
    rng = random.Random(seed)
    found = []
    os.makedirs(outdir, exist_ok=True)
    for target in targets:
        con = REGISTRY.get(target)
        if con is None or getattr(con, "no_replay", False) or not con.cases:
            continue
        tries = 0
        done = 0
        hit = False
        while done < n_each and tries < n_each * 6 and not hit:
            tries += 1
            case = rng.choice(list(con.cases))
            c = RandomCtx(rng, con)
            c.path.enter()
            try:
                try:
                    args = con.inputs(c, case)
                    ok = all(eval_clause(cond)[0] is True for _, cond in _named(con.requires(c, **args)))
                except (PathAbort, PyExc):
                    ok = False
                if not ok:
                    continue
                done += 1
                try:
                    bad = clause_failures(con, c, args, case)
                except Exception:
                    continue
                if bad:
                    name = "%s%s/%s" % (target, "" if case is None else "[%s]" % case, bad[0][0])
                    rec = {"property": prop, "target": target, "case": case, "obligation": name, "status": "failed",
                           "backend": "random search on the real code", "solver_output": "clause %s is False at index %s" % (bad[0][0], bad[0][2]),
                           "inputs": c.log, "found_by": "random concrete search (seed %d)" % seed}
                    import re as _re

                    path = os.path.join(outdir, _re.sub(r"[^A-Za-z0-9_.\-\[\]]+", "_", name)[:170] + ".rnd.json")
                    json.dump(rec, open(path, "w"), indent=1, default=str)
                    found.append({"target": target, "obligation": name, "replay": path})
                    hit = True
            finally:
                c.path.leave()
    return found


def _short(x):
    s = repr(x)
    return s if len(s) < 600 else s[:600] + "..."


if __name__ == "__main__":
    cmd = sys.argv[1]
    if cmd == "replay":
        sys.exit(replay_file(sys.argv[2]))
    if cmd == "randsearch":
        out = random_search(sys.argv[2], sys.argv[3].split(","), int(sys.argv[4]), int(sys.argv[5]), sys.argv[6])
        print(json.dumps(out, default=str))
        sys.exit(0)
    if cmd == "crosscheck":
        out = crosscheck(sys.argv[2], int(sys.argv[3]), int(sys.argv[4]) if len(sys.argv) > 4 else 6)
        print(json.dumps(out, default=str))
        sys.exit(0)
