#!/bin/bash
# usage: seed_eval.sh <seed-id> <property> <worktree>
# Confirms a seeded change independently (tests pass, demo fails with / passes without), stores it
# under /verif/seeded/<seed-id>/ and runs the property's check with the change applied to /repo.
set -u
id=$1; prop=$2; wt=$3
d=/verif/seeded/$id
mkdir -p $d
cp $wt/seed_out/patch.diff $wt/seed_out/demo.py $wt/seed_out/meta.json $d/ 2>/dev/null
cd /repo
git diff --quiet || { echo "repo not clean"; exit 9; }
echo "--- demo on original:"; /venv/bin/python -W ignore $d/demo.py >/dev/null 2>&1; echo "exit=$?"
git apply $d/patch.diff || { echo "patch does not apply to /repo HEAD"; exit 8; }
echo "--- demo with change:"; /venv/bin/python -W ignore $d/demo.py 2>&1 | tail -2; echo "exit=${PIPESTATUS[0]}"
echo "--- baseline tests with change:"; /venv/bin/python -m pytest -q -p no:cacheprovider --timeout=900 --continue-on-collection-errors 2>&1 | tail -1
echo "--- check $prop with change:"
cd /verif && ./check $prop 2>&1 | grep -v KNOWN-FINDING | cut -c1-300 | tail -4; echo "check-exit=${PIPESTATUS[0]}"
git -C /repo checkout -- .
git -C /repo status --short | head -3
